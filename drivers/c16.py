"""C16 - pretty-printed data evaluates back to the data (rich/pretty.py).

Python only generates values, calls the real pretty_repr(), tokenises its output with the stdlib
tokenizer and projects value and tokens into the vocabulary of specs/Pretty.tla.  TLC judges:
  M1  MC_Pretty: the layout algorithm as a state machine over a bounded domain of abstract values;
  M2  MC_Pretty + Emit: the abstract values of that domain, instantiated and replayed on the real code;
  M3  Trace_Pretty: every real output is evaluated by the TLA+ evaluator and checked against
      EvalOK / CycleMarker / Abbrev / OneLineIfFits / ExpandedLayout.
Values are described by JSON "recipes" (so that cyclic and shared structures can be replayed):
  {"leaf": "<python literal>"} | {"ref": id} | {"t": kind, "id": n, "items": [...], ...}."""
import ast
import io
import json
import re
import tokenize
from array import array
from collections import Counter, defaultdict, deque

from engine import tlc
from engine.harness import Check

# ---- token kinds (must match specs/Pretty.tla) ------------------------------------------------
OPS = {"[": 1, "]": 2, "(": 3, ")": 4, "{": 5, "}": 6, ",": 7, ":": 8, "...": 9, "+": 10, "<": 18, ">": 19, "=": 22}
ATOM = 11
NAMES = {"set": 12, "frozenset": 13, "deque": 14, "Counter": 15, "defaultdict": 16, "array": 17, "class": 20,
         "maxlen": 21}
OTHER = 99
FACTORIES = {"int": int, "list": list, "dict": dict, "set": set, "str": str, "float": float, "tuple": tuple,
             "bool": bool, "collections.Counter": Counter, "collections.deque": deque}
MUTABLE = ("list", "deque", "dict", "defaultdict")
DICTLIKE = ("dict", "counter", "defaultdict")


def _env():
    from rich.pretty import pretty_repr
    from rich.cells import cell_len
    return pretty_repr, cell_len


GUIDE = "\u2502"            # what Text.with_indent_guides draws into the indentation


def render_via(obj, o):
    """The other public ways to the same representation (all print it to a console of the given width without wrapping):
       via = pretty : Console.print(Pretty(obj, indent_size, max_length, max_string, expand_all, margin, insert_line, indent_guides))
             pprint : rich.pretty.pprint(obj, console=, indent_guides=, max_length=, max_string=, expand_all=)   (indent 4)
             print  : Console.print(obj)  - a container handed to print is pretty-printed                        (all defaults)
    The console is `margin` cells wider than o["w"]: the representation has to fit o["w"].  pprint / print leave the
    console's word wrapping on (their Pretty is built with no_wrap=False): they are only used at widths no line of any layout
    can exceed (line_bound), where wrapping and cropping have nothing to do.  Lexical projection of what was
    printed (trusted): the final newline is dropped, the blank first line of insert_line is dropped, indent guide characters
    inside the leading indentation are read as the blanks they replace."""
    from rich.console import Console
    from rich.pretty import Pretty, pprint
    via = o["via"]
    mg = o.get("mg", 0)
    console = Console(width=o["w"] + mg, file=io.StringIO(), color_system=None, legacy_windows=False, force_terminal=False)
    ml = None if o["ml"] < 0 else o["ml"]
    ms = None if o["ms"] < 0 else o["ms"]
    if via == "pretty":
        # no_wrap / overflow="ignore": the console must not re-wrap or crop the representation (that is another layer, C02)
        console.print(Pretty(obj, indent_size=o["ind"], max_length=ml, max_string=ms, expand_all=o["xa"], margin=mg,
                             insert_line=bool(o.get("il")), indent_guides=bool(o.get("ig")), no_wrap=True, overflow="ignore",
                             justify=None if o.get("jus", "none") == "none" else o["jus"]), soft_wrap=True)
    elif via == "pprint":
        pprint(obj, console=console, indent_guides=bool(o.get("ig")), max_length=ml, max_string=ms, expand_all=o["xa"])
    elif via == "print":
        console.print(obj, soft_wrap=True)
    else:
        raise ValueError(via)
    text = console.file.getvalue()
    if text.endswith("\n"):
        text = text[:-1]
    if o.get("il") and text.startswith("\n"):
        text = text[1:]
    if o.get("ig"):
        out = []
        for line in text.split("\n"):
            k = 0
            while k < len(line) and line[k] in (" ", GUIDE):
                k += 1
            out.append(line[:k].replace(GUIDE, " ") + line[k:])
        text = "\n".join(out)
    return text


# ---- atoms ------------------------------------------------------------------------------------
class Atoms:
    """Leaf literal <-> atom id (1-based).  Two leaves are the same atom iff they have the same
    type and are equal (signed zeros are kept apart because they are written differently)."""

    def __init__(self, cell_len):
        self.cell_len = cell_len
        self.table = []
        self.ids = {}

    def id_of(self, leaf):
        tn = {str: "str", bytes: "bytes", int: "int", float: "float", bool: "bool", type(None): "none"}.get(type(leaf))
        if tn is None:
            return None
        r = repr(leaf)
        key = (tn, r)
        if key not in self.ids:
            n = leaf if tn == "int" and 0 <= leaf < 2 ** 31 else -1
            cp = [ord(c) for c in leaf] if tn == "str" else list(leaf) if tn == "bytes" else []
            self.table.append(dict(t=tn, w=self.cell_len(r), n=n, cp=cp))
            self.ids[key] = len(self.table)
        return self.ids[key]


# ---- recipes -> python objects ------------------------------------------------------------------
class _Pending:
    def __init__(self, ref):
        self.ref = ref


def build(recipe):
    """Instantiate a recipe.  References to containers that are still under construction (cycles)
    are patched in afterwards; they only occur as items of mutable containers."""
    objs, patches = {}, []

    def items_of(n, holder):
        out = []
        for i, c in enumerate(n.get("items", [])):
            v = b(c)
            if isinstance(v, _Pending):
                patches.append((holder, i, v.ref))
                v = None
            out.append(v)
        return out

    def b(n):
        if "leaf" in n:
            return ast.literal_eval(n["leaf"])
        if "ref" in n:
            return objs[n["ref"]] if n["ref"] in objs else _Pending(n["ref"])
        t = n["t"]
        if t == "list":
            o = objs[n["id"]] = []
            o.extend(items_of(n, o))
        elif t == "deque":
            o = objs[n["id"]] = deque(maxlen=n.get("maxlen"))
            o.extend(items_of(n, o))
        elif t in ("dict", "defaultdict"):
            o = objs[n["id"]] = {} if t == "dict" else defaultdict(FACTORIES.get(n.get("factory")))
            for k, c in zip(n["keys"], n["items"]):
                kk = b(k)
                v = b(c)
                if isinstance(v, _Pending):
                    patches.append((o, kk, v.ref))
                    v = None
                o[kk] = v
        elif t == "counter":
            o = objs[n["id"]] = Counter()
            for k, c in zip(n["keys"], n["items"]):
                o[b(k)] = b(c)
        elif t == "array":
            o = objs[n["id"]] = array(n["code"], [b(c) for c in n["items"]])
        elif t == "set":
            o = objs[n["id"]] = set(b(c) for c in n["items"])
        elif t == "frozenset":
            o = objs[n["id"]] = frozenset(b(c) for c in n["items"])
        elif t == "tuple":
            vals = [b(c) for c in n["items"]]
            if any(isinstance(v, _Pending) for v in vals):
                raise ValueError("reference to an unfinished container inside a tuple")
            o = objs[n["id"]] = tuple(vals)
        else:
            raise ValueError(t)
        return o

    root = b(recipe)
    for holder, key, ref in patches:
        holder[key] = objs[ref]
    return root


# ---- python object -> abstract value (trusted traversal) ------------------------------------------
KIND_OF = {list: "list", tuple: "tuple", dict: "dict", set: "set", frozenset: "frozenset", deque: "deque",
           Counter: "counter", defaultdict: "defaultdict", array: "array"}


def abstract(obj, atoms, path=()):
    k = KIND_OF.get(type(obj))
    if k is None:
        a = atoms.id_of(obj)
        if a is None:
            raise ValueError("unsupported leaf %r" % type(obj))
        return dict(k="atom", a=a, c=[])
    if id(obj) in path:
        return dict(k="cycle", a=0, c=[])
    path = path + (id(obj),)
    a = 0
    if k == "deque" and obj.maxlen is not None:
        a = atoms.id_of(obj.maxlen)
    elif k == "array":
        a = atoms.id_of(obj.typecode)
    elif k == "defaultdict":
        f = obj.default_factory
        if f is None:
            a = atoms.id_of(None)
        else:
            m = re.fullmatch(r"<class '([^']+)'>", repr(f))
            if not m:
                raise ValueError("unsupported factory")
            a = atoms.id_of(m.group(1))
    if k in DICTLIKE:
        c = [dict(k="pair", a=0, c=[abstract(key, atoms, path), abstract(v, atoms, path)]) for key, v in obj.items()]
    else:
        c = [abstract(v, atoms, path) for v in obj]
    return dict(k=k, a=a, c=c)


# ---- output -> token lines (lexical projection) ----------------------------------------------------
_SKIP = {tokenize.NL, tokenize.NEWLINE, tokenize.INDENT, tokenize.DEDENT, tokenize.ENDMARKER}


def project(text, atoms):
    raw = text.split("\n")
    lines = [dict(ind=len(l) - len(l.lstrip(" ")), cells=atoms.cell_len(l), toks=[]) for l in raw]
    err = ""
    toks = []
    try:
        for t in tokenize.generate_tokens(io.StringIO(text).readline):
            if t.type not in _SKIP:
                toks.append(t)
    except (tokenize.TokenError, SyntaxError) as e:     # IndentationError is a SyntaxError
        err = "untokenisable " + type(e).__name__
    i = 0
    last_end = {}
    while i < len(toks):
        t = toks[i]
        kind, a, end = OTHER, 0, t.end
        if t.type == tokenize.OP and t.string == "-" and i + 1 < len(toks) and toks[i + 1].type == tokenize.NUMBER \
                and toks[i + 1].start == t.end:
            lit, end = "-" + toks[i + 1].string, toks[i + 1].end
            i += 1
        elif t.type in (tokenize.NUMBER, tokenize.STRING) or (t.type == tokenize.NAME and t.string in ("True", "False", "None")):
            lit = t.string
        else:
            lit = None
        if lit is not None:
            try:
                aid = atoms.id_of(ast.literal_eval(lit))
            except Exception:
                aid = None
            if aid is not None:
                kind, a = ATOM, aid
        elif t.type == tokenize.OP:
            kind = OPS.get(t.string, OTHER)
        elif t.type == tokenize.NAME:
            kind = NAMES.get(t.string, OTHER)
        row = t.start[0] - 1
        if 0 <= row < len(lines):
            prev = last_end.get(row)
            gap = t.start[1] - (prev if prev is not None else lines[row]["ind"])
            lines[row]["toks"].append([kind, a, max(gap, 0)])
            last_end[row] = end[1]
        i += 1
    return lines, err


def execute(recipe, o, env):
    """One real call of pretty_repr -> the record judged by Trace_Pretty."""
    pretty_repr, cell_len = env
    atoms = Atoms(cell_len)
    obj = build(recipe)
    v = abstract(obj, atoms)
    err, text, lines = "", None, []
    try:
        if o.get("via", "repr") == "repr":
            text = pretty_repr(obj, max_width=o["w"], indent_size=o["ind"], expand_all=o["xa"],
                               max_length=None if o["ml"] < 0 else o["ml"], max_string=None if o["ms"] < 0 else o["ms"])
        else:
            text = render_via(obj, o)
    except Exception as e:      # a crash inside Rich is an observation
        err = "raised " + type(e).__name__
    if text is not None:
        if not isinstance(text, str):
            err = "returned " + type(text).__name__
        else:
            lines, err = project(text, atoms)
    return dict(v=v, o=o, atoms=atoms.table, lines=lines, err=err), text


# ---- value generation ----------------------------------------------------------------------------------
STRS = ["", "a", "foo", "Hello World", "it's", 'say "hi"', "both ' and \"", "a\nb", "line1\nline2\n", "tab\there",
        "古", "こんにちは", "\U0001F600 ok", "é", "back\\slash", "\x00\x7f", "...", "[1, 2]",
        "# no comment", "x" * 30, "ＡＢ wide", "café", " lead", "trail ", "{'k': (1,)}"]
BYTES = [b"", b"ab", b"a\nb", b"\xff\x00", b"it's", b'q"', b"0123456789"]
INTS = [0, 1, 2, 3, 7, 9, 10, 42, 99, 100, 255, 1000, -1, -5, -123, 2 ** 40, 10 ** 25]
FLOATS = [0.5, -1.25, 1e22, 3.14159, -0.0, 0.0, 100.123, 1e-07, 2.0]
CODES = {"i": [0, 1, -5, 42, 1000], "I": [0, 1, 42, 1000], "b": [0, 1, -5, 42], "d": [0.5, -1.25, 2.0, 1e22],
         "u": ["a", "古", "'", "\n"], "B": [0, 7, 255], "h": [0, -5, 32767], "H": [0, 65535], "l": [0, -1, 2 ** 31 - 1],
         "q": [0, -(2 ** 40), 2 ** 62], "Q": [0, 2 ** 63], "f": [0.5, -1.25, 2.0]}


class Gen:
    def __init__(self, rng):
        self.rng = rng
        self.nid = 0
        self.budget = 0

    def leaf(self, hashable=False):
        r = self.rng
        x = r.random()
        if x < 0.34:
            v = r.choice(INTS) if r.random() < 0.8 else r.randint(-10 ** 6, 10 ** 6)
        elif x < 0.62:
            v = r.choice(STRS) if r.random() < 0.8 else "".join(r.choice("ab 古'\"\n\\z9") for _ in range(r.randint(1, 12)))
        elif x < 0.72:
            v = r.choice(BYTES)
        elif x < 0.84:
            v = r.choice(FLOATS)
        elif x < 0.93:
            v = r.choice([True, False])
        else:
            v = None
        return {"leaf": repr(v)}

    def new_id(self):
        self.nid += 1
        return self.nid

    def count(self, depth):
        r = self.rng
        x = r.random()
        if x < 0.13:
            return 0
        if x < 0.33:
            return 1
        if x < 0.58:
            return 2
        if x < 0.78:
            return 3
        if x < 0.9:
            return 4
        return r.randint(5, 12) if depth <= 1 else r.randint(4, 6)

    def value(self, depth, hashable=False):
        """A recipe nested at most `depth` container levels deep."""
        r = self.rng
        if depth <= 0 or self.budget <= 0 or r.random() < 0.2:
            return self.leaf(hashable)
        kinds = ["tuple", "tuple", "frozenset"] if hashable else \
            ["list", "list", "tuple", "tuple", "dict", "dict", "set", "frozenset", "deque", "counter", "defaultdict", "array"]
        t = r.choice(kinds)
        n = self.count(depth)
        self.budget -= 1 + n
        node = {"t": t, "id": self.new_id()}
        if t in ("list", "tuple", "deque"):
            items = []
            for _ in range(n):
                if items and not hashable and r.random() < 0.08:
                    prev = r.choice(items)
                    items.append({"ref": prev["id"]} if "id" in prev else dict(prev))     # shared, not cyclic
                else:
                    items.append(self.value(depth - 1, hashable))
            node["items"] = items
            if t == "deque" and r.random() < 0.3:
                node["maxlen"] = max(n, 1) + r.randint(0, 3)
        elif t in ("set", "frozenset"):
            node["items"] = [self.value(depth - 1, True) for _ in range(n)]
        elif t in ("dict", "defaultdict"):
            node["keys"] = [self.key() for _ in range(n)]
            node["items"] = [self.value(depth - 1, False) for _ in range(n)]
            if t == "defaultdict":
                node["factory"] = r.choice(list(FACTORIES) + [None])
        elif t == "counter":
            node["keys"] = [self.key() for _ in range(n)]
            node["items"] = [{"leaf": repr(r.choice([1, 2, 3, 10, 0, -1]))} for _ in range(n)]
        elif t == "array":
            code = r.choice(sorted(CODES))
            node["code"] = code
            node["items"] = [{"leaf": repr(r.choice(CODES[code]))} for _ in range(n)]
        return node

    def key(self):
        x = self.rng.random()
        if x < 0.12:
            return {"t": "tuple", "id": self.new_id(), "items": [self.leaf(True) for _ in range(self.rng.randint(0, 3))]}
        if x < 0.16:
            return {"t": "frozenset", "id": self.new_id(), "items": [self.leaf(True) for _ in range(self.rng.randint(0, 2))]}
        return self.leaf(True)

    def add_cycle(self, root):
        """Make a mutable container refer to itself or to a container it is nested in."""
        paths = []

        def walk(n, path):
            if "t" not in n:
                return
            path = path + [n]
            if n["t"] in MUTABLE:
                paths.append(path)
            for c in n.get("items", []):
                walk(c, path)

        walk(root, [])
        if not paths:
            return False
        path = self.rng.choice(paths)
        holder = path[-1]
        target = self.rng.choice(path)
        ref = {"ref": target["id"]}
        if holder["t"] in ("dict", "defaultdict"):
            holder["keys"].append({"leaf": repr("self%d" % self.rng.randint(0, 9))})
            holder["items"].append(ref)
        else:
            holder["items"].insert(self.rng.randint(0, len(holder["items"])), ref)
            if holder.get("maxlen") is not None:
                holder["maxlen"] += 1
        return True

    def case(self):
        r = self.rng
        self.budget = r.choice([6, 12, 25, 45])
        depth = r.choice([1, 2, 2, 3, 3, 4, 4, 5, 6, 6])
        root = self.value(depth)
        while "t" not in root:
            self.budget = 12
            root = self.value(max(depth, 1))
        cyc = r.random() < 0.12 and self.add_cycle(root)
        if cyc and r.random() < 0.3:
            self.add_cycle(root)
        return root


def options(rng, width_hint, root=None):
    x = rng.random()
    if x < 0.3:
        w = rng.randint(1, 200)
    elif x < 0.6:
        w = max(1, min(200, width_hint + rng.randint(-4, 1)))
    else:
        w = rng.randint(1, max(1, min(200, width_hint)))
    ml = rng.choice([-1, -1, -1, -1, 0, 1, 2, 3, 5, 10])
    ms = rng.choice([-1, -1, -1, -1, 0, 1, 2, 5, 10, 20])
    return with_via(rng, dict(w=w, ind=rng.choice([4, 4, 4, 2, 1, 3, 8, 0]), xa=rng.random() < 0.15, ml=ml, ms=ms), root=root)


def _w(s):
    return sum(1 if ord(c) < 0x300 else 2 for c in s)


def line_bound(obj, ind, d=0, key=0, path=()):
    """an upper bound of the cell width of any line any layout of the value can contain (independent of the tree under test:
    2 cells for every code point >= U+0300, 48 cells for the longest opening brace + the `... +N` line)"""
    if type(obj) not in KIND_OF or id(obj) in path:
        return d * ind + key + max(_w(repr(obj)), 8) + 2
    path = path + (id(obj),)
    best = d * ind + key + 48
    if isinstance(obj, dict):
        for k, v in obj.items():
            best = max(best, line_bound(v, ind, d + 1, _w(repr(k)) + 2, path))
    else:
        for v in obj:
            best = max(best, line_bound(v, ind, d + 1, 0, path))
    return best


def with_via(rng, o, p=0.4, root=None):
    """choose the entry point: pretty_repr, or (probability p) one of the printing ones, whose fixed options override.
    Console.print pretty-prints what is a Mapping / Sequence / Set (not a str): array and bare leaves do not go that way"""
    if rng.random() >= p:
        return o
    printable = root is not None and root.get("t") in ("list", "tuple", "dict", "set", "frozenset", "deque", "counter", "defaultdict")
    via = rng.choice(["pretty", "pretty", "pprint", "print"] if printable else ["pretty", "pprint"])
    o = dict(o, via=via)
    if via == "pretty":
        # (indent guides need an indent to draw into: indent_size 0 with guides is not generated)
        o.update(mg=rng.choice([0, 0, 1, 3, 12]), il=rng.random() < 0.25, ig=rng.random() < 0.4 and o["ind"] > 0,
                 jus=rng.choice(["none", "none", "left", "default"]))
    else:
        if via == "pprint":
            o.update(ind=4, ig=rng.random() < 0.6)
        else:
            o.update(ind=4, xa=False, ml=-1, ms=-1)
        try:
            lo = line_bound(build(root), 4)
        except Exception:
            return dict((k, v) for k, v in o.items() if k != "via")
        if lo > 200:
            return dict((k, v) for k, v in o.items() if k not in ("via", "ig"))
        o["w"] = rng.choice([lo, lo + 1, rng.randint(lo, min(200, lo + 40)), rng.randint(lo, 200)])
    return o


def systematic():
    """Every container kind with 0/1/2 items, alone and as the only / first / last item of every
    other kind that can hold it (the shapes the statement calls fragile)."""
    nid = [0]

    def mk(t, n, inner=None):
        nid[0] += 1
        node = {"t": t, "id": nid[0]}
        leaves = [{"leaf": repr(v)} for v in (11, 22, 33)][:n]
        if inner is not None and n:
            leaves[0] = inner
        node["items"] = leaves
        if t in DICTLIKE:
            node["keys"] = [{"leaf": repr(k)} for k in ("a", "b", "c")][:n]
            if t == "counter" and inner is not None:
                return None
        if t == "defaultdict":
            node["factory"] = "int"
        if t == "array":
            if inner is not None:
                return None
            node["code"] = "i"
        return node

    kinds = ["list", "tuple", "dict", "set", "frozenset", "deque", "counter", "defaultdict", "array"]
    out = []
    for t in kinds:
        for n in (0, 1, 2, 3):
            out.append(mk(t, n))
    for outer in kinds:
        for no in (1, 2):
            for t in kinds:
                for n in (0, 1, 2, 3):
                    if outer in ("set", "frozenset") and t not in ("tuple", "frozenset"):
                        continue
                    inner = mk(t, n)
                    node = mk(outer, no, inner)
                    if node is not None:
                        out.append(node)
    # three levels through 1-tuples and dict values
    for t in ("list", "dict", "tuple", "deque", "set"):
        for mid in ("tuple", "list", "dict"):
            out.append(mk("tuple", 1, mk(mid, 1, mk(t, 3))))
            out.append(mk("list", 2, mk(mid, 1, mk(t, 2))))
    # shared (not cyclic) and self-referential structures
    for t in ("list", "tuple", "dict", "set", "frozenset", "deque"):
        inner = mk(t, 1)
        out.append({"t": "list", "id": 9000 + len(out), "items": [inner, {"ref": inner["id"]}]})
        out.append({"t": "tuple", "id": 9000 + len(out), "items": [inner, {"leaf": "5"}, {"ref": inner["id"]}]})
    out.append({"t": "list", "id": 9900, "items": [{"leaf": "1"}, {"ref": 9900}]})
    out.append({"t": "dict", "id": 9901, "keys": [{"leaf": "'a'"}, {"leaf": "'me'"}], "items": [{"leaf": "1"}, {"ref": 9901}]})
    out.append({"t": "deque", "id": 9902, "items": [{"ref": 9902}]})
    out.append({"t": "list", "id": 9903, "items": [{"t": "tuple", "id": 9904, "items": [{"t": "dict", "id": 9905, "keys": [{"leaf": "0"}], "items": [{"ref": 9903}]}]}]})
    out.append({"t": "list", "id": 9906, "items": [{"t": "tuple", "id": 9907, "items": [{"t": "list", "id": 9908, "items": [{"ref": 9907}, {"ref": 9906}]}]}]})
    return [x for x in out if x is not None]


# ---- TLC-generated abstract values -> recipes ---------------------------------------------------------------
def instantiate(av):
    """Abstract value printed by MC_Pretty (atoms 1/2 = leaves of cell width 1/2, 3..5 keys) -> recipe
    with fresh distinct int leaves of those widths."""
    used = {1: iter([1, 2, 3, 4, 5, 6, 7, 8, 9, 0]), 2: iter(range(10, 100))}
    nid = [0]

    def leaf(aid):
        w = 2 if aid in (2, 5) else 1
        try:
            return {"leaf": repr(next(used[w]))}
        except StopIteration:
            return {"leaf": repr(next(used[2]))}

    def conv(v, anc):
        k = v["k"]
        if k == "atom":
            return leaf(v["a"])
        if k == "cycle":                    # refer to the nearest enclosing container that can hold a reference to itself
            if anc is None:
                raise LookupError("no mutable ancestor")
            return {"ref": anc}
        nid[0] += 1
        node = {"t": k, "id": nid[0]}
        if k in MUTABLE:
            anc = node["id"]
        cs = v.get("c") or []
        if k in DICTLIKE:
            node["keys"] = [leaf(p["c"][0]["a"]) for p in cs]
            node["items"] = [conv(p["c"][1], anc) for p in cs]
            if k == "defaultdict":
                node["factory"] = "int"
        else:
            node["items"] = [conv(c, anc) for c in cs]
            if k == "array":
                node["code"] = "i"
        return node

    return conv(av, None)


# ---- helpers --------------------------------------------------------------------------------------------------
def skeleton(v, depth=2):
    n = len(v["c"])
    s = "%s#%s" % (v["k"], n if n < 2 else "n")
    if depth > 1 and v["k"] != "atom" and n:
        kids = []
        for c in v["c"]:
            c = c["c"][1] if c["k"] == "pair" else c
            if c["k"] != "atom":
                kids.append(skeleton(c, depth - 1))
        if kids:
            s += "(" + ",".join(sorted(set(kids))) + ")"
    return s


def size(recipe):
    return 1 + sum(size(c) for c in recipe.get("items", [])) + sum(size(c) for c in recipe.get("keys", []))


def reductions(recipe, o):
    """Smaller candidates for delta debugging (each round is one TLC batch)."""
    out = []
    items = recipe.get("items", [])
    for c in items:
        if "t" in c and not _has_ref(c):
            out.append((c, dict(o, _sub=1)))          # a sub-tree as the new root (marked: see minimise)
            if o["ind"] and o["w"] > o["ind"]:
                out.append((c, dict(o, w=o["w"] - o["ind"])))
    for i in range(len(items)):
        r = json.loads(json.dumps(recipe))
        del r["items"][i]
        if "keys" in r:
            del r["keys"][i]
        if r.get("maxlen") is not None and r["maxlen"] < 1:
            r["maxlen"] = 1
        out.append((r, o))
        if "t" in items[i]:
            for sub, _ in reductions(items[i], o)[:40]:
                if "t" in sub or "leaf" in sub:
                    r2 = json.loads(json.dumps(recipe))
                    r2["items"][i] = sub
                    out.append((r2, o))
            if recipe["t"] not in ("set", "frozenset", "counter", "array"):
                r3 = json.loads(json.dumps(recipe))
                r3["items"][i] = {"leaf": "0"}
                out.append((r3, o))
    for k, dflt in (("ml", -1), ("ms", -1), ("xa", False), ("ind", 4)):
        if o[k] != dflt:
            out.append((recipe, dict(o, **{k: dflt})))
    for w in (80, 40, 20, 10):
        if w < o["w"]:
            out.append((recipe, dict(o, w=w)))
    good = []
    for r, oo in out:
        try:
            build(r)
            good.append((r, dict(oo)))
        except Exception:
            pass
    return good


def _has_ref(n):
    return "ref" in n or any(_has_ref(c) for c in n.get("items", []))


def clause_of(verdict):
    return verdict.split("|")[0]


def norm(verdict):
    """Grouping key of a rejection: clause and reason without the data-dependent parts."""
    return re.sub(r"\d+", "N", re.sub(r"=\S+", "=*", clause_of(verdict)))


M1_CONST = ('CONSTANTS\n  Kinds2 = {%s}\n  Kinds3 = {%s}\n  N2 = %d\n  N3 = %d\n  FullRest = %s\n  Widths = {%s}\n'
            '  Indents = {%s}\n  MLs = {%s}\n  Rule = "%s"\n')
M1_CHECK = ("SPECIFICATION Spec\nINVARIANT InvEvalOK\nINVARIANT InvOneLine\nINVARIANT InvLayout\nINVARIANT InvRenderRec\n"
            "CHECK_DEADLOCK FALSE\n")


def m1_cfg(k2, k3, n2, n3, full, widths, indents, mls, rule):
    q = lambda ks: ", ".join('"%s"' % k for k in ks)
    return M1_CONST % (q(k2), q(k3), n2, n3, "TRUE" if full else "FALSE", ", ".join(map(str, widths)),
                       ", ".join(map(str, indents)), ", ".join(map(str, mls)), rule)


ALL9 = ["list", "tuple", "dict", "set", "frozenset", "deque", "counter", "defaultdict", "array"]
HOLD7 = ["list", "tuple", "dict", "set", "frozenset", "deque", "defaultdict"]


def _tick(chk, label, t0=[None]):
    import time
    now = time.time()
    if t0[0] is not None:
        chk.notes.setdefault("phase_seconds", {})[label] = round(now - t0[0], 1)
    t0[0] = now


def run(chk: Check):
    import os
    # the TLA+ evaluator recurses once per token / item: give TLC's threads a deep stack
    os.environ.setdefault("JAVA_TOOL_OPTIONS", "-Xss256m")
    env = _env()
    _tick(chk, "start")
    chk.rule = ("a case is one call pretty_repr(value, max_width, indent_size, expand_all, max_length, max_string) - or the same "
                "representation obtained by printing Pretty(value, ..., margin, insert_line, indent_guides, justify) / pprint(value, ...) / "
                "the bare container to a console of that width - on a distinct (value recipe, options); values: every abstract value of the TLC domain (M2) instantiated, a systematic family "
                "(each container kind with 0-3 items inside each kind), seeded random values nested up to 6 deep over "
                "list/tuple/dict/set/frozenset/deque/Counter/defaultdict/array with str/bytes/int/float/bool/None leaves, shared and "
                "cyclic references; non-trivial = the output has more than one line, or an abbreviation, or a cycle marker")
    chk.trusted = ["stdlib tokenize + drivers/c16.py:project (token -> kind/atom id/gap; '-' NUMBER merged into one literal)",
                   "drivers/c16.py:Atoms (leaf <-> atom id by ast.literal_eval, type and equality; cell width of a literal by rich.cells.cell_len of the tree under test)",
                   "drivers/c16.py:abstract (python object -> abstract value; a container met again on the current path is a cycle)",
                   "drivers/c16.py:build (recipe -> python object)",
                   "drivers/c16.py:render_via (printed text -> representation: final newline and insert_line's blank first line dropped, "
                   "indent guide characters in the leading indentation read as blanks)"]
    chk.assumptions = [
        "float leaves are finite (repr of nan/inf is not a literal)",
        "defaultdict factories are classes; `<class 'T'>` (Python's own repr convention, not an expression) is read as the factory T",
        "deque maxlen is not part of the compared value (Python's == ignores it; Rich does not print it)",
        "dict keys are leaves or tuples of leaves; dicts/Counters are compared in insertion order, sets as sets",
        "OneLineIfFits is demanded only for values built purely from list/tuple/dict/set/frozenset (the kinds the statement names), without cycles, when no abbreviation limit is exceeded and expand_all is off",
        "printing entry points: Pretty is printed with no_wrap / overflow=ignore (the console's own wrapping and cropping of an "
        "over-long line is another layer); pprint and Console.print(container) keep word wrapping on and are used only at widths "
        "that no line of any layout of the value can exceed (drivers/c16.py:line_bound); indent guides only with indent_size >= 1; "
        "justify none / left / default",
        "abbreviation clauses judge the reported counts and that the shown items/characters are a prefix; whether and where Rich abbreviates is implementation-shaped (model, DRIFT only)",
    ]
    cases = []          # (recipe, opts, origin)
    if chk.replay_only:
        c = chk.replay_only["case"]
        cases.append((c["recipe"], c["opts"], "replay"))
    else:
        # ---- M1: the design (fixed closing-separator rule) satisfies every clause on the bounded domain
        # (Kinds2, Kinds3, N2, N3, FullRest, Widths, Indents, MLs); 1000 stands for max_length=None
        if chk.thorough:   # complementary slices of the (depth <= 3, <= 3 items) domain; the full product is out of reach
            k6 = ["list", "tuple", "dict", "set", "deque", "array"]
            k7 = ["list", "tuple", "dict", "set", "frozenset", "deque", "defaultdict"]
            k4 = ["list", "tuple", "dict", "set"]
            slices = [(k6, ["list", "tuple", "dict", "deque"], 2, 2, True, [4, 9, 20], [4], [1000]),          # pairs of arbitrary level-2 items
                      (k7, ["list", "tuple", "dict"], 3, 2, False, [4, 8, 13, 22, 60], [2], [1000, 1]),       # 3-item inner containers, abbreviation
                      (k4, ["list", "tuple", "dict"], 2, 3, False, [5, 10, 16, 30], [4], [1000, 2]),          # 3-item outer containers
                      (["list", "tuple", "dict", "set", "deque"], ["list", "tuple", "dict", "defaultdict"], 2, 2, False,
                       list(range(1, 17)), [4], [1000, 0])]                                                    # every width 1..16
        else:
            slices = [(["list", "tuple", "dict", "set", "deque"], ["list", "tuple", "dict"], 2, 2, False, [3, 8, 40], [1, 4], [1000])]
        for sl in slices:
            r, cov, missing = tlc.model_check("MC_Pretty", cfg_text=m1_cfg(*sl, "fixed") + M1_CHECK,
                                              require_actions=["Start", "ExpandLn", "KeepLn", "Finish"], heap="8g")
            chk.add_tlc(r, "M1")
            if r.violated or missing or not r.finished:
                raise tlc.TLCFailure("MC_Pretty (fixed rule): violated=%s never-fired=%s\n%s" % (r.violated, missing, r.out[-3000:]))
            chk.notes.setdefault("m1_action_coverage", []).append({k: v[1] for k, v in cov.items() if k in ("Start", "ExpandLn", "KeepLn", "Finish")})
        _tick(chk, "M1")
        # the closing-separator rule exactly as written in 9.10.0: TLC exhibits the lost 1-tuple comma in the design
        rc, _, _ = tlc.model_check("MC_Pretty", cfg_text=m1_cfg(["list", "tuple"], ["list", "tuple"], 2, 1, False, [3, 8, 20], [4], [1000], "coded") + M1_CHECK,
                                   coverage=False, workers=2)
        cex = re.findall(r'<<"CEX", "([^"]*)", "(.*?)", (\[.*?\])>>', rc.out)
        chk.notes["m1_rule_as_coded_9_10_0"] = dict(
            violated=rc.violated, counterexample=(dict(why=cex[0][0], value=cex[0][1].replace('\\"', '"'), opts=cex[0][2]) if cex else None),
            meaning="design-level: with the closing-line separator of pretty.py:378-382 an expanded child of a 1-tuple loses the comma")
        _tick(chk, "M1-coded")
        # ---- M2: the values of the domain, for replay on the real code
        gen_dom = (ALL9, HOLD7, 2, 2, chk.thorough, [1], [1], [1000])      # the value domain only: options are irrelevant here
        behs, r2 = tlc.behaviours("MC_Pretty", cfg_text=m1_cfg(*gen_dom, "fixed") + "SPECIFICATION Spec\nCONSTRAINT Emit\nCHECK_DEADLOCK FALSE\n")
        chk.add_tlc(r2, "M2")
        if not behs:
            raise tlc.TLCFailure("MC_Pretty produced no values\n" + r2.out[-2000:])
        chk.notes["tlc_generated_values"] = len(behs)
        _tick(chk, "M2")
        per_value = chk.pick(4, 8)
        want = chk.pick(700, 5000)
        for b in (behs if len(behs) <= want else chk.rng.sample(behs, want)):
            try:
                rec = instantiate(b["beh"])
            except LookupError:
                continue
            if "t" not in rec:
                continue
            full = one_line_width(rec, env)
            ws = sorted(set([full, full - 1, max(1, full - 3)] + [chk.rng.randint(1, full) for _ in range(per_value)]))
            for w in ws:
                if w >= 1:
                    cases.append((rec, with_via(chk.rng, dict(w=w, ind=chk.rng.choice([4, 4, 2, 1]), xa=False, ml=-1, ms=-1), 0.25, rec), "tlc"))
            cases.append((rec, dict(w=full, ind=4, xa=True, ml=-1, ms=-1), "tlc"))
        # ---- systematic family
        for rec in systematic():
            full = one_line_width(rec, env)
            ws = range(1, full + 2) if chk.thorough else sorted(set([1, 6, full - 1, full, full + 1] + [chk.rng.randint(1, full + 1) for _ in range(2)]))
            for w in ws:
                if w >= 1:
                    cases.append((rec, with_via(chk.rng, dict(w=w, ind=4, xa=False, ml=-1, ms=-1), 0.25, rec), "systematic"))
            for ml in (0, 1, 2):
                cases.append((rec, with_via(chk.rng, dict(w=chk.rng.randint(1, full + 1), ind=2, xa=False, ml=ml, ms=-1), 0.25, rec), "systematic"))
            cases.append((rec, dict(w=80, ind=4, xa=True, ml=-1, ms=-1), "systematic"))
        # ---- random values
        g = Gen(chk.rng)
        for _ in range(chk.pick(1500, 15000)):
            rec = g.case()
            full = one_line_width(rec, env)
            for _ in range(chk.pick(3, 4)):
                cases.append((rec, options(chk.rng, full, rec), "random"))
        # ---- bare leaves (a value "built from literals" need not be a container)
        for v in ["", "a", "Hello World", "it's", "a\nb", "こんにちは", "x" * 30, b"", b"0123456789", 0, -5, 10 ** 25, 0.5, True, None]:
            for ms in (-1, 0, 2, 40):
                cases.append(({"leaf": repr(v)}, with_via(chk.rng, dict(w=chk.rng.choice([1, 8, 80]), ind=4, xa=False, ml=-1, ms=ms), 0.3), "leaf"))
    _tick(chk, "generate")
    judge_cases(chk, cases, env)
    _tick(chk, "M3")


def one_line_width(recipe, env):
    """Cell width of the value printed on one line (used only to choose interesting widths)."""
    try:
        return max(env[1](l) for l in env[0](build(recipe), max_width=10 ** 6).split("\n"))
    except Exception:
        return 80


def judge_cases(chk, cases, env, batch=40000):
    tags = {"both": 0, "coded": 0, "fixed": 0, "none": 0}
    n_one = n_multi = n_abbr = n_cyc = n_maxlen = 0
    rejected = {}
    drift_ex = None
    by_origin = {}
    want_samples = {0, len(cases) // 2, len(cases) - 1}
    for base in range(0, len(cases), batch):
        part = cases[base:base + batch]
        recs, texts = [], []
        for recipe, o, origin in part:
            rec, text = execute(recipe, o, env)
            recs.append(rec)
            texts.append(text)
        verdicts, st = tlc.judge("Trace_Pretty", recs, chunk_min=200)
        chk.add_tlc(st, "M3")
        chk.traces += len(recs)
        for i, ((recipe, o, origin), rec, text, v) in enumerate(zip(part, recs, texts, verdicts)):
            by_origin[origin] = by_origin.get(origin, 0) + 1
            vjson = json.dumps(rec["v"])
            multi = len(rec["lines"]) > 1
            abbr = any(t[0] == 10 for l in rec["lines"] for t in l["toks"])
            cyc = '"cycle"' in vjson
            n_multi += multi
            n_abbr += abbr
            n_cyc += cyc
            n_maxlen += bool(re.search(r'"k": "deque", "a": [1-9]', vjson))
            chk.case((recipe, o), multi or abbr or cyc)
            if v == "no-verdict":
                raise tlc.TLCFailure("Trace_Pretty gave no verdict for %s %s" % (json.dumps(recipe)[:300], o))
            clause, _, tagtxt = v.partition("|")
            tg = dict(m=tagtxt.split(";")[0].replace("m=", ""), one=tagtxt.split(";")[-1])
            n_one += tg.get("one") == "1"
            if clause == "ok":
                tags[tg.get("m", "none")] = tags.get(tg.get("m", "none"), 0) + 1
                if tg.get("m") == "none" and drift_ex is None:
                    drift_ex = dict(recipe=recipe, opts=o, output=text)
            else:
                lst = rejected.setdefault(norm(v), [])
                lst.append((recipe, o, rec if len(lst) < 200 else dict(v=rec["v"]), text, v))
            if base + i in want_samples:
                chk.sample(dict(value=describe(recipe), opts=o, output=text, verdict=v,
                                tokens_line1=rec["lines"][0]["toks"][:12] if rec["lines"] else []))
    chk.notes["cases_by_origin"] = by_origin
    chk.notes["antecedents"] = dict(one_line_if_fits_applied=n_one, multi_line_outputs=n_multi, abbreviated_outputs=n_abbr, cyclic_values=n_cyc)
    chk.notes["observations"] = dict(deques_with_maxlen=n_maxlen, note="Rich prints deque(maxlen=n) without the maxlen; the text evaluates to an == deque of "
                                     "the same type (Python's deque equality ignores maxlen), so the statement holds; recorded, not judged")
    chk.notes["layout_model_agreement"] = dict(tags, meaning="accepted outputs reproduced token for token by the TLA+ layout model with the closing-separator rule "
                                               "as coded in 9.10.0 / as fixed / by both / by neither (neither = DRIFT)")
    if not chk.replay_only and (n_one == 0 or n_multi == 0 or n_abbr == 0 or n_cyc == 0):
        raise tlc.TLCFailure("vacuous run: %s" % chk.notes["antecedents"])
    if tags["none"]:
        chk.drift_note("layout model (Pretty.tla Render) reproduces neither variant for %d accepted output(s), e.g. %s" % (
            tags["none"], json.dumps(drift_ex, default=str)[:500]))
    # ---- rejections: minimise one witness per failing clause, then report all
    starts = {}
    for key, lst in sorted(rejected.items(), key=lambda kv: -len(kv[1]))[:6]:
        lst.sort(key=lambda x: (size(x[0]), len(json.dumps(x[0])), x[1]["w"]))
        starts[key] = lst[0]
    minimal, merged = minimise(chk, starts, env) if starts and not chk.replay_only else ({}, {})
    for key, into in merged.items():        # follow chains
        while merged.get(into) and merged[into] != key:
            into = merged[into]
        if into in rejected and into != key and key in rejected:
            rejected[into] += rejected.pop(key)
    for key, lst in sorted(rejected.items()):
        recipe, o, rec, text, v = minimal.get(key) or lst[0]
        sig = "%s value=%s" % (clause_of(v), skeleton(rec["v"]))
        detail = "%s; pretty_repr(%s, max_width=%d, indent_size=%d, expand_all=%s, max_length=%s, max_string=%s) -> %r  [%d case(s) with this clause]" % (
            clause_of(v), describe(recipe), o["w"], o["ind"], o["xa"], None if o["ml"] < 0 else o["ml"], None if o["ms"] < 0 else o["ms"], text, len(lst))
        how = chk.reject(sig, detail, dict(recipe=recipe, opts=o, output=text, verdict=v))
        if how == "known":
            for _ in lst[1:]:
                chk.reject(sig, detail, None)

def describe(recipe):
    try:
        obj = build(recipe)
        if _has_ref(recipe):
            return "recipe:" + json.dumps(recipe)[:400]
        return repr(obj)[:400]
    except Exception:
        return "recipe:" + json.dumps(recipe)[:400]


def minimise(chk, items, env, rounds=8):
    """Delta debugging; every round is one TLC batch holding the candidates of all groups.  A group
    whose witness, once reduced, is rejected with the clause of another group is reported under that
    group (merged[key] = other key): it contains the same defect in a larger context."""
    cur = dict(items)
    merged = {}
    live = set(cur)
    for _ in range(rounds):
        batch = []
        for key in sorted(live):
            recipe, o = cur[key][0], cur[key][1]
            cands = reductions(recipe, o)
            cands.sort(key=lambda c: (size(c[0]), c[1]["w"], "_sub" not in c[1]))
            batch += [(key, r, dict(oo), bool(oo.get("_sub"))) for r, oo in cands[:300]]
        for b in batch:
            b[2].pop("_sub", None)
        if not batch:
            break
        out = [execute(r, oo, env) for _, r, oo, _s in batch]
        verdicts, st = tlc.judge("Trace_Pretty", [x[0] for x in out], chunk_min=150)
        chk.add_tlc(st, "M3-minimise")
        progressed = set()
        for (key, r, oo, is_sub), (rc, tx), vv in zip(batch, out, verdicts):
            if key in progressed or key in merged:
                continue
            if norm(vv) != key:
                # only a sub-tree of the witness (same options) shows that the witness *contains* the other defect
                if is_sub and norm(vv) in cur:
                    merged[key] = norm(vv)
                continue
            recipe, o = cur[key][0], cur[key][1]
            if (size(r), oo["w"]) < (size(recipe), o["w"]) or (size(r) == size(recipe) and oo["w"] == o["w"] and _simpler(oo, o)):
                cur[key] = (r, oo, rc, tx, vv)
                progressed.add(key)
        live = progressed - set(merged)
        if not live:
            break
    return cur, merged


def _simpler(a, b):
    score = lambda o: (o["ml"] >= 0) + (o["ms"] >= 0) + bool(o["xa"]) + (o["ind"] != 4)
    return score(a) < score(b)
