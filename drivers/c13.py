"""C13 - cell-width arithmetic and line shaping are exact and history-independent.

TLC is the judge everywhere:
  M1  MC_Cells / MC_LruCache / MC_Segments: the transcribed designs satisfy the relations
      (exhaustive, small bounds) and the relations reject the classic wrong designs.
  M4  Trace_Cells "slice"/"cps": get_character_cell_size(chr(cp)) against a LINEAR scan of the
      width table read from the tree under test (quick: range boundaries + random; thorough: all
      1,114,112 code points).
  M3  Trace_Cells "str": cell_len / set_cell_size / chop_cells for all strings over a mixed-width
      alphabet up to a length bound + random strings <= 80 x sizes 0..100;
      Trace_Cells "hist"/"cps": call histories on the real process-wide caches that exceed both
      capacities (eviction), interleave uncached long strings and re-measure evicted / resident keys;
      Trace_Cells "mix": histories that interleave cell_len / Segment.cell_length / get_character_cell_size /
      set_cell_size / chop_cells on one pool of strings, results fed back as later inputs;
      Trace_LruCache: TLC-generated (M2) and random histories on a real LRUCache of capacity 2..4;
      Trace_Segments: adjust_line_length / split_and_crop_lines / set_shape / split_lines / simplify /
      get_line_length / get_shape; the Iterable parameters (split_lines, split_and_crop_lines, simplify) are
      given as lists and as one-shot iterators.
Python only enumerates, calls Rich, and projects text to code points / styles to ids.
"""
import contextlib
import hashlib
import itertools
import json
import os
import signal
from concurrent.futures import ThreadPoolExecutor

from engine import tlc
from engine.harness import Check, cps

# sha1 of json.dumps(CELL_WIDTHS) of the pinned Rich 9.10.0 (a different table is DRIFT, the lookup
# property still applies to the edited data)
PINNED_TABLE_SHA1 = "257b5b52ed2bf279dbbb425e4a7f916cfdfb05f3"

RAISED = -1000      # observation "the call raised" (never a legal width / length)
HANG = -1001        # observation "the call did not return within the CPU deadline"


class Hang(BaseException):
    """a call into Rich burnt more than the CPU deadline: logged as an observation, like an exception"""


class Watch:
    """CPU-time watchdog (ITIMER_VIRTUAL: immune to machine load) around calls into Rich."""
    hangs = 0
    LIMIT = 20       # after that many hangs the remaining real calls of the run are skipped (noted)

    @classmethod
    def exhausted(cls):
        return cls.hangs >= cls.LIMIT


def _on_alarm(signum, frame):
    raise Hang()


@contextlib.contextmanager
def cpu_deadline(seconds=3.0):
    old = signal.signal(signal.SIGVTALRM, _on_alarm)
    prev = signal.setitimer(signal.ITIMER_VIRTUAL, seconds)
    try:
        yield
    except Hang:
        Watch.hangs += 1
        raise
    finally:
        signal.setitimer(signal.ITIMER_VIRTUAL, 0)
        signal.signal(signal.SIGVTALRM, old)
        if prev[0] > 0 or prev[1] > 0:          # re-arm the harness's global tick (engine/watch.py)
            signal.setitimer(signal.ITIMER_VIRTUAL, prev[1] or prev[0], prev[1])

# ---- alphabets (code points; widths are NEVER taken from here - TLC derives them from the table) --
# several concrete characters per class, chosen at range boundaries of the pinned table
A_ASCII = [97, 32, 126]                       # 'a', space, '~' (last of the ASCII shortcut)
A_NARROW = [160, 233]                         # U+00A0 (first after the 127..159 range), e-acute
A_WIDE = [0x4E00, 0x1100, 0xFF60, 0x3000]     # CJK, first wide range start, fullwidth range end, ideographic space
A_EMOJI = [0x1F63D, 0x1F300, 0x1FAD6]         # emoji (last one: end of the last emoji range)
A_COMB = [0x300, 0x36F, 0x20D0]               # combining marks: both ends of 768..879
A_ZW = [0x200D, 0x200B]                       # ZWJ, ZWSP
A_CTRL = [0, 0x1F, 0x7F, 0x9F]                # NUL, shortcut edge, DEL, end of C1
QUICK_ALPHA = [97, 32, 0x4E00, 0x1F63D, 0x300, 0x200D, 0x7F, 160]
THOROUGH_ALPHA = QUICK_ALPHA + [126, 0x1100, 0x36F, 0x1F]
POOL = A_ASCII + A_NARROW + A_WIDE + A_EMOJI + A_COMB + A_ZW + A_CTRL + [98, 65, 48, 0x3042, 0xAC00, 0x1F600, 0x301]


def guarded(f):
    """(result, "") or (None, exception class name | "Hang" | "Skipped") - a crash or hang inside Rich is data"""
    if Watch.exhausted():
        return None, "Skipped"
    try:
        with cpu_deadline():
            return f(), ""
    except Hang:
        return None, "Hang"
    except Exception as e:
        return None, type(e).__name__


def _table():
    from rich._cell_widths import CELL_WIDTHS
    return [list(map(int, t)) for t in CELL_WIDTHS]


class Batch:
    """records for one Trace module + what to do with each verdict (all judged in ONE tlc.judge call:
    a JVM start costs more than a few thousand records)"""

    def __init__(self, module, label):
        self.module, self.label = module, label
        self.recs, self.handlers, self.alpha = [], [], {32, 10}

    def add(self, rec, handler, codes=()):
        self.recs.append(rec)
        self.handlers.append(handler)
        self.alpha.update(codes)

    def judge(self, chk, table, mode, nproc=None):
        n = len(self.recs)
        if n == 0:
            return
        k = max(1, min(nproc or tlc.NCPU, n))
        # strided order: every contiguous chunk (= one TLC process) gets the same mix of record kinds
        order = sorted(range(n), key=lambda i: (i % k, i))
        verdicts, st = tlc.judge(self.module, [self.recs[i] for i in order], nproc=k, chunk_min=1,
                                 extra_json=dict(table=table, alpha=sorted(self.alpha)), tag="c13" + self.label)
        chk.add_tlc(st, mode)
        chk.notes.setdefault("judge_runs", []).append(dict(module=self.module, records=n, processes=st["runs"], wall_s=round(st["wall"], 1)))
        for pos, i in enumerate(order):
            self.handlers[i](verdicts[pos])


def _txt(codes):
    return "".join(map(chr, codes))


# ---------------------------------------------------------------------------------------------
# M1

def m1(pick):
    jobs = [
        ("MC_Cells", "CONSTANTS\n  MaxLen = %d\n  MaxN = 15\n  MaxW = 5\n" % pick(6, 7), ["AppendChar", "AppendSpace"]),
        ("MC_LruCache", "CONSTANTS\n  Capacity = 2\n  Threshold = 2\n  MaxStr = 3\n  GenDepth = 0\n",
         ["Hit", "MissInsert", "MissEvict", "MissUncached"]),
        ("MC_LruCache", "CONSTANTS\n  Capacity = 3\n  Threshold = 2\n  MaxStr = 3\n  GenDepth = 0\n",
         ["Hit", "MissInsert", "MissEvict", "MissUncached"]),
        ("MC_Segments", "CONSTANTS\n  MaxSegs = %d\n  MaxCells = 2\n  MaxChars = %d\n  MaxN = 4\n" % pick((2, 3), (3, 3)),
         ["AddSegment"]),
    ]

    def one(job):
        mod, consts, req = job
        base = open("%s/%s.cfg" % (tlc.SPECS, mod)).read()
        tail = base[base.index("SPECIFICATION"):]
        # distinct tags: the scratch directory name is derived from tag + pid + millisecond
        return job, tlc.model_check(mod, cfg_text=consts + tail, require_actions=req, tag="c13mc%d" % jobs.index(job),
                                    workers=max(2, tlc.NCPU // 2), timeout=1500)

    with ThreadPoolExecutor(len(jobs)) as ex:
        return list(ex.map(one, jobs))


def m1_account(chk, results):
    for (mod, consts, req), (r, cov, missing) in results:
        chk.add_tlc(r, "M1")
        if r.violated or missing or not r.finished:
            raise tlc.TLCFailure("%s: violated=%s never-fired=%s\n%s" % (mod, r.violated, missing, r.out[-3000:]))
        chk.notes.setdefault("m1", []).append(dict(module=mod, constants=" ".join(consts.split()[1:]),
                                                   distinct=r.distinct, generated=r.generated, wall_s=round(r.wall, 1),
                                                   actions={k: v[1] for k, v in cov.items()}))


# ---------------------------------------------------------------------------------------------
# M4: code points

def measure_cp(cp):
    from rich.cells import get_character_cell_size
    try:
        w = get_character_cell_size(chr(cp))
        return w if isinstance(w, int) and not isinstance(w, bool) and -999 < w < 10 ** 6 else RAISED + 1
    except Exception:
        return RAISED


def measure_many(codes):
    """widths in call order; a hanging call is observed as HANG; stops early once the watchdog is exhausted"""
    codes = list(codes)
    out = []
    while len(out) < len(codes) and not Watch.exhausted():
        try:
            with cpu_deadline():
                while len(out) < len(codes):
                    out.append(measure_cp(codes[len(out)]))
        except Hang:
            out.append(HANG)
    return out


def exec_cps(codes):
    obs = measure_many(codes)
    return dict(k="cps", cps=list(codes)[:len(obs)], obs=obs)


def cp_sig(verdict):
    # "cp 768: width-differs obs=1 table=0" -> stable shape: clause + observed/expected widths
    tail = verdict.split(": ", 1)[-1]
    return "get_character_cell_size %s" % tail


def codepoints(chk, table, batch):
    def table_verdict(v):
        if v != "ok":
            chk.drift_note("width table of the tree under test: " + v)

    def handler(rec):
        def h(v):
            n = len(rec["obs"])
            chk.traces += n
            chk.evaluations += n
            if n:
                chk.distinct.add("cp:%s:%d" % (rec["lo"] if "lo" in rec else rec["cps"][0], n))
            if v != "ok":
                m = v.split("cp ")[-1].split(":")[0]
                chk.reject(cp_sig(v), v, dict(part="cps", cps=[int(m)] if m.isdigit() else rec.get("cps", [])[:50]))
        return h

    batch.add(dict(k="table"), table_verdict)
    first = None
    if chk.thorough:
        step = 2048
        for lo in range(0, 0x110000, step):
            rec = dict(k="slice", lo=lo, obs=measure_many(range(lo, lo + step)))
            first = first or rec
            batch.add(rec, handler(rec))
        chk.notes["m4_code_points"] = "all 1114112 code points (0..0x10FFFF incl. surrogates) in %d slices of %d" % (0x110000 // step, step)
        chk.exhaustive = True
    else:
        edge = set([0, 31, 32, 126, 127, 0xD7FF, 0xD800, 0xDFFF, 0xE000, 0xFFFF, 0x10000, 0x10FFFF])
        for lo, hi, _w in table:
            edge.update(c for c in (lo - 1, lo, lo + 1, hi - 1, hi, hi + 1) if 0 <= c <= 0x10FFFF)
        edge = sorted(edge)
        rnd = [chk.rng.randrange(0x110000) for _ in range(3000)] + [chk.rng.randrange(0x3000) for _ in range(2000)]
        allc = edge + rnd
        for i in range(0, len(allc), 250):
            rec = exec_cps(allc[i:i + 250])
            first = first or rec
            batch.add(rec, handler(rec))
        chk.notes["m4_code_points"] = "%d range-boundary code points (every lo/hi -1,0,+1, ASCII shortcut edges, surrogate edges) + %d random" % (len(edge), len(rnd))
    if first:
        chk.sample(dict(part="code points", first_record={k: (v[:12] if isinstance(v, list) else v) for k, v in first.items()}))


# ---------------------------------------------------------------------------------------------
# (ii) cell_len / set_cell_size / chop_cells

def exec_str(codes, sizes, chops):
    from rich.cells import cell_len, set_cell_size, chop_cells
    s = _txt(codes)
    rec = dict(k="str", s=list(codes), sets=[], chops=[])

    n, err = guarded(lambda: cell_len(s))
    rec["len"] = (n if isinstance(n, int) else RAISED + 1) if not err else (HANG if err == "Hang" else RAISED)
    if err == "Skipped":
        return None
    for n in sizes:
        r, err = guarded(lambda: cps(set_cell_size(s, n)))
        if err != "Skipped":
            rec["sets"].append(dict(n=n, r=r if not err else [], err=err))
    for w, pos in chops:
        r, err = guarded(lambda: [cps(p) for p in chop_cells(s, w, position=pos)])
        if err != "Skipped":
            rec["chops"].append(dict(w=w, pos=pos, r=r if not err else [], err=err))
    return rec


def rec_cps(rec):
    out = set(rec.get("s", []))
    for e in rec.get("sets", []):
        out.update(e["r"])
    for e in rec.get("chops", []):
        for p in e["r"]:
            out.update(p)
    return out


def str_sig(rec, v):
    """failing clause + operation + shape of the argument"""
    if v.startswith("cell_len"):
        return "cell_len result-differs"
    op, idx, clause = v.split(" ", 2)
    idx = int(idx.rstrip(":"))
    if op == "set":
        e = rec["sets"][idx - 1]
        ln = rec["len"]
        shape = "n=len" if e["n"] == ln else ("n>len" if e["n"] > ln else "n<len")
        return "set_cell_size %s %s%s" % (clause, shape, (" raised=" + e["err"]) if e["err"] else "")
    e = rec["chops"][idx - 1]
    return "chop_cells %s pos%s0%s" % (clause, "=" if e["pos"] == 0 else ">", (" raised=" + e["err"]) if e["err"] else "")


def add_strs(chk, batch, cases, label):
    """cases: list of (codes, sizes, chops); runs the real functions now, TLC judges later"""
    recs = []
    for case in cases:
        rec = exec_str(*case)
        if rec is None:          # watchdog exhausted: nothing more is executed (noted in the evidence)
            break
        recs.append(rec)

        def h(v, case=case, rec=rec):
            n = 1 + len(rec["sets"]) + len(rec["chops"])
            chk.traces += n
            chk.evaluations += n - 1
            chk.case(("str", case[0]), len(case[0]) > 0)
            if v.startswith("drift"):
                chk.drift_note("%s: %s s=%s" % (label, v, list(case[0][:20])))
            elif v != "ok":
                chk.reject(str_sig(rec, v), "%s; s=%r (code points %s)" % (v, _txt(case[0]), list(case[0])),
                           dict(part="str", s=list(case[0]), sizes=list(case[1]), chops=[list(c) for c in case[2]]))
        batch.add(rec, h, rec_cps(rec))
    return recs


def strings(chk, table, batch):
    alpha = chk.pick(QUICK_ALPHA, THOROUGH_ALPHA)
    maxlen = 4
    chk.notes["strings_exhaustive"] = "all %d strings over %d concrete characters (ASCII, space, CJK, emoji, combining, ZWJ, control, NBSP%s) up to length %d x every size 0..2*len+2 x chop widths 2,3,5 x start columns 0,1,w" % (
        sum(len(alpha) ** k for k in range(maxlen + 1)), len(alpha), ", ..." if chk.thorough else "", maxlen)
    cases = []
    chopset = [(2, 0), (2, 1), (2, 2), (3, 0), (3, 1), (3, 3), (5, 0), (5, 1), (5, 5)]
    for k in range(maxlen + 1):
        for tup in itertools.product(alpha, repeat=k):
            cases.append((tup, range(0, 2 * k + 3), chopset))
    # cases get the real upper bound of sizes without knowing widths: 2 per character + 2
    recs = add_strs(chk, batch, cases, "exhaustive strings")
    if recs:
        mid = recs[len(recs) // 2]
        chk.sample(dict(part="str", s=mid["s"], cell_len=mid["len"], set_cell_size=mid["sets"][:4]))
    # random strings <= 80 x sizes 0..100 x chop widths
    rng = chk.rng
    cases = []
    for i in range(chk.pick(2500, 20000)):
        n = rng.choice([rng.randint(0, 12), rng.randint(0, 80), rng.randint(60, 80)])
        pool = rng.choice([POOL, POOL, A_WIDE + A_ASCII, A_COMB + A_WIDE + [97], A_EMOJI + A_ZW + [32]])
        s = tuple(rng.choice(pool) for _ in range(n))
        sizes = sorted(set(rng.randint(0, 100) for _ in range(chk.pick(4, 6))) | {rng.randint(0, max(1, n))})
        chops = []
        for _ in range(3):
            w = rng.choice([2, 3, rng.randint(2, 12), rng.randint(2, 100)])
            chops.append((w, rng.choice([0, 0, rng.randint(0, w), w])))
        cases.append((s, sizes, chops))
    add_strs(chk, batch, cases, "random strings")
    chk.notes["strings_random"] = "%d random strings of length 0..80 over %d characters x sizes in 0..100 x chop widths 2..100 x start columns 0..w" % (len(cases), len(set(POOL)))


# ---------------------------------------------------------------------------------------------
# (iii) histories on the real process-wide caches

def _caches():
    """(cell_len's LRUCache or None, lru_cache-wrapped code point lookup or None) - introspection
    only for evidence / resetting between rounds; never for a verdict."""
    from rich import cells
    c1 = None
    try:
        d = cells.cell_len.__defaults__
        c1 = d[0] if d and hasattr(d[0], "cache_size") else None
    except Exception:
        pass
    c2 = getattr(cells, "_get_codepoint_cell_size", None)
    if not hasattr(c2, "cache_info"):
        c2 = None
    return c1, c2


def run_len_history(calls):
    from rich.cells import cell_len
    ev = []
    for codes in calls:
        if Watch.exhausted():
            break
        try:
            with cpu_deadline():
                n = cell_len(_txt(codes))
            ev.append(dict(s=list(codes), obs=n if isinstance(n, int) else RAISED + 1))
        except Hang:
            ev.append(dict(s=list(codes), obs=HANG))
        except Exception:
            ev.append(dict(s=list(codes), obs=RAISED))
    return ev


def make_len_history(rng, nflood):
    """probes measured; flood of > capacity distinct short strings with long (> 64 characters,
    uncached path) strings interleaved; evicted probes and resident keys re-measured in a
    different order; repeated measurements of the same key back to back."""
    alpha = QUICK_ALPHA + [0x1100, 0x36F]
    def rnd(n):
        return tuple(rng.choice(alpha) for _ in range(n))
    probes = sorted({rnd(rng.randint(0, 3)) for _ in range(300)})
    longs = [rnd(rng.randint(65, 90)) for _ in range(20)] + [rnd(64), rnd(65)]
    flood = sorted({rnd(rng.randint(4, 6)) for _ in range(nflood)} - set(probes))
    rng.shuffle(flood)
    calls = list(probes)
    for i, f in enumerate(flood):
        calls.append(f)
        if i % 97 == 0:
            calls.append(rng.choice(longs))
        if i % 211 == 0:
            calls.append(rng.choice(probes))      # touch a (possibly evicted) probe in the middle
            calls.append(f)                       # immediate repeat: a certain hit
    back = list(probes)
    rng.shuffle(back)
    resident = flood[-300:]
    rng.shuffle(resident)
    nflooded = len(calls)
    calls += back + resident + longs + list(reversed(probes)) + flood[:200]
    return calls, len(set(flood) | set(probes)), nflooded, probes


def run_cp_history(rng, nflood, table):
    wide = [c for lo, hi, w in table if hi > 255 for c in range(lo, min(hi, lo + 40) + 1)]
    universe = sorted(set(wide) | set(range(0x80, 0x900)))
    rng.shuffle(universe)
    probes, flood = universe[:300], universe[300:300 + nflood]
    calls = list(probes) + list(flood)
    back = list(probes)
    rng.shuffle(back)
    resident = flood[-300:]
    rng.shuffle(resident)
    calls += back + resident + list(reversed(probes)) + flood[:200] + probes[:50] * 2
    return calls, len(set(probes) | set(flood))


def histories(chk, table, batch):
    c1, c2 = _caches()
    info = dict(cell_len_cache=("LRUCache(%s)" % getattr(c1, "cache_size", "?")) if c1 is not None else "not found",
                codepoint_cache=str(c2.cache_info()) if c2 is not None else "not found")
    cap1 = getattr(c1, "cache_size", 4096) if c1 is not None else 4096
    cap2 = (c2.cache_info().maxsize or 4096) if c2 is not None else 4096
    rounds = chk.pick(2, 8)
    evidence = []

    def handler(rec, pay):
        def h(v):
            n = len(rec.get("events", rec.get("obs", [])))
            chk.traces += n
            chk.evaluations += n
            if v != "ok":
                if rec["k"] == "hist":
                    chk.reject("cell_len history result-differs (call after > capacity distinct keys)", v, pay)
                else:
                    chk.reject("get_character_cell_size history " + v.split(": ", 1)[-1], v, pay)
        return h

    first = None
    for rnd in range(rounds):
        if rnd > 0:           # round 0 inherits whatever the earlier parts left in the caches
            if c1 is not None:
                c1.clear()
            if c2 is not None:
                c2.cache_clear()
        calls, distinct, nflooded, probes = make_len_history(chk.rng, int(cap1 * 1.25) + 200)
        ev = run_len_history(calls[:nflooded])
        ev_note = dict(round=rnd, cell_len_calls=len(calls), distinct_strings=distinct)
        if c1 is not None:      # evidence that the flood really evicted the probes before they are re-measured
            ev_note["cache_entries_after_flood"] = len(c1)
            ev_note["probes_still_cached_after_flood"] = "%d of %d" % (sum(_txt(q) in c1 for q in probes), len(probes))
        ev += run_len_history(calls[nflooded:])
        codes = set()
        for c in calls:
            codes.update(c)
        for i in range(0, len(ev), 1000):
            rec = dict(k="hist", events=ev[i:i + 1000])
            first = first or rec
            batch.add(rec, handler(rec, dict(part="hist", round=rnd, calls=[list(c) for c in calls[:i + 1000]],
                                             note="round 0 started from the cache state left by the earlier parts; replay starts empty" if rnd == 0 else "")), codes)
        before = c2.cache_info() if c2 is not None else None
        cpcalls, cdistinct = run_cp_history(chk.rng, int(cap2 * 1.25) + 200, table)
        for i in range(0, len(cpcalls), 1000):
            rec = exec_cps(cpcalls[i:i + 1000])
            batch.add(rec, handler(rec, dict(part="cphist", round=rnd, calls=cpcalls[:i + 1000])))
        ev_note.update(cp_calls=len(cpcalls), cp_distinct=cdistinct)
        if c2 is not None:
            ev_note.update(codepoint_cache_before=str(before), codepoint_cache_after=str(c2.cache_info()))
        evidence.append(ev_note)
        chk.case(("hist", rnd, len(calls), len(cpcalls)), True)
    info["rounds"] = evidence
    chk.notes["cache_histories"] = info
    if first:
        chk.sample(dict(part="hist", first_events=first["events"][:5], rounds=rounds))


# ---- histories that mix the entry points on the same process-wide caches ------------------------------
def run_mixed_history(rng, nsteps):
    """cell_len / Segment.cell_length / get_character_cell_size / set_cell_size / chop_cells interleaved on a shared pool of
    strings; what a call returns (resized strings, chopped pieces) joins the pool and is measured again later, so a result one
    entry point leaves in a cache is read back through another."""
    from rich.cells import cell_len, set_cell_size, chop_cells, get_character_cell_size
    from rich.segment import Segment
    alpha = QUICK_ALPHA + [0x1100, 0x36F, 98]
    pool = [tuple(rng.choice(alpha) for _ in range(rng.choice([0, 1, 2, 3, 4, 6, 9]))) for _ in range(40)]
    pool += [tuple(rng.choice(alpha) for _ in range(n)) for n in (63, 64, 65, 70)]
    events = []
    while len(events) < nsteps and not Watch.exhausted():
        codes = rng.choice(pool)
        s = _txt(codes)
        op = rng.choice(["len", "len", "seg", "chr", "set", "set", "chop"])
        e = dict(op=op, s=list(codes), n=0, pos=0, obs=0, r=[], err="")
        if op == "len":
            r, err = guarded(lambda: cell_len(s))
        elif op == "seg":
            r, err = guarded(lambda: Segment(s).cell_length)
        elif op == "chr":
            r, err = guarded(lambda: sum(get_character_cell_size(c) for c in s))
        elif op == "set":
            e["n"] = rng.choice([0, 1, 2, 3, rng.randint(0, 2 * len(s) + 2)])
            r, err = guarded(lambda: [cps(set_cell_size(s, e["n"]))])
        else:
            e["n"] = rng.choice([2, 2, 3, 4, 5, rng.randint(2, 12)])
            e["pos"] = rng.choice([0, 0, 1, e["n"], rng.randint(0, e["n"])])
            r, err = guarded(lambda: [cps(p) for p in chop_cells(s, e["n"], position=e["pos"])])
        if err == "Skipped":
            break
        e["err"] = err
        if not err:
            if op in ("len", "seg", "chr"):
                e["obs"] = r if isinstance(r, int) and not isinstance(r, bool) else RAISED + 1
            else:
                e["r"] = r
                for piece in r:                 # outputs become inputs of later calls
                    if len(pool) < 400 and rng.random() < 0.5:
                        pool.append(tuple(piece))
        events.append(e)
    return events


def mixed_histories(chk, batch):
    rounds = chk.pick(3, 12)
    total = 0
    for rnd in range(rounds):
        ev = run_mixed_history(chk.rng, chk.pick(2500, 6000))
        total += len(ev)
        for i in range(0, len(ev), 500):
            rec = dict(k="mix", events=ev[i:i + 500])
            codes = set()
            for e in rec["events"]:
                codes.update(e["s"])
                for p in e["r"]:
                    codes.update(p)

            def h(v, rec=rec, upto=ev[:i + 500], rnd=rnd):
                n = len(rec["events"])
                chk.traces += n
                chk.evaluations += n
                if v != "ok":
                    j = int(v.split(" ")[1]) if v.startswith("step ") else 1
                    e = rec["events"][j - 1]
                    shape = ""
                    if e["op"] == "set":
                        shape = " n=%s" % ("0" if e["n"] == 0 else "pos")
                    chk.reject("mixed-history %s%s%s" % (v.split(" ", 2)[-1], shape, (" raised=" + e["err"]) if e["err"] else ""),
                               "%s; event %s" % (v, json.dumps(e)), dict(part="mix", round=rnd, events=upto))
            batch.add(rec, h, codes)
        chk.case(("mix", rnd, len(ev)), True)
    chk.notes["mixed_histories"] = dict(rounds=rounds, events=total,
                                        ops="cell_len, Segment.cell_length, get_character_cell_size, set_cell_size, chop_cells on one pool; outputs fed back")


def replay_mixed(events):
    """re-run the calls of a recorded mixed history (the pool is implicit in the recorded inputs)"""
    from rich.cells import cell_len, set_cell_size, chop_cells, get_character_cell_size
    from rich.segment import Segment
    out = []
    for e0 in events:
        e = dict(e0, obs=0, r=[], err="")
        s = _txt(e["s"])
        f = {"len": lambda: cell_len(s), "seg": lambda: Segment(s).cell_length, "chr": lambda: sum(get_character_cell_size(c) for c in s),
             "set": lambda: [cps(set_cell_size(s, e["n"]))], "chop": lambda: [cps(p) for p in chop_cells(s, e["n"], position=e["pos"])]}[e["op"]]
        r, err = guarded(f)
        e["err"] = "" if err == "Skipped" else err
        if not err:
            if e["op"] in ("len", "seg", "chr"):
                e["obs"] = r if isinstance(r, int) and not isinstance(r, bool) else RAISED + 1
            else:
                e["r"] = r
        out.append(e)
    return out


# ---- small real LRUCache: TLC-generated and random histories ------------------------------------

def exec_small(cap, calls):
    """cell_len(text, cache) with a real LRUCache(cap) from the tree under test."""
    from rich.cells import cell_len
    from rich._lru_cache import LRUCache
    cache = LRUCache(cap)
    ev = []
    for codes in calls:
        e = dict(s=list(codes))
        if Watch.exhausted():
            break
        try:
            with cpu_deadline():
                n = cell_len(_txt(codes), cache)
            e["obs"] = n if isinstance(n, int) else RAISED + 1
        except Hang:
            e["obs"] = HANG
        except Exception:
            e["obs"] = RAISED
        try:
            keys = list(cache.keys())
            e["keys"] = [cps(k) if isinstance(k, str) else [-1] for k in keys]
            e["vals"] = [v if isinstance(v, int) else RAISED + 1 for v in (dict.__getitem__(cache, k) for k in keys)]
        except Exception:
            e["keys"], e["vals"] = [[-1]], [RAISED]
        ev.append(e)
    return dict(cap=cap, thr=64, events=ev)


def small_caches(chk, table):
    universe = [(), (768,), (97,), (19968,), (97, 97), (768, 19968)]
    cases = []
    depth = chk.pick(4, 5)
    for cap in ([] if chk.replay_only else chk.pick([2], [2, 3])):
        cfgt = ("CONSTANTS\n  Capacity = %d\n  Threshold = 3\n  MaxStr = 3\n  GenDepth = %d\n"
                "SPECIFICATION Spec\nCONSTRAINT Emit\nCHECK_DEADLOCK FALSE\n" % (cap, depth))
        behs, r = tlc.behaviours("MC_LruCache", cfg_text=cfgt, tag="c13gen")
        chk.add_tlc(r, "M2")
        if len(behs) != len(universe) ** depth:
            raise tlc.TLCFailure("MC_LruCache generated %d histories, expected %d\n%s" % (len(behs), len(universe) ** depth, r.out[-1500:]))
        for b in behs:
            # after the history every string of the universe is measured again with the same cache
            cases.append((cap, [tuple(s) for s in b["beh"]] + universe))
        chk.notes.setdefault("tlc_generated_histories", []).append(dict(capacity=cap, depth=depth, n=len(behs)))
    pool = universe + [(97, 768), (19968, 19968), (32,), (0x1F63D,), (0x200D,), (98,), (0x4E01,), tuple([97] * 65), tuple([0x4E00] * 64)]
    for _ in range(0 if chk.replay_only else chk.pick(400, 5000)):
        cap = chk.rng.randint(1, 4)
        sub = chk.rng.sample(pool, chk.rng.randint(2, len(pool)))
        calls = [chk.rng.choice(sub) for _ in range(chk.rng.randint(5, 30))]
        cases.append((cap, calls + sub))
    if chk.replay_only:
        c = chk.replay_only["case"]
        cases = [(c["cap"], [tuple(s) for s in c["calls"]])]
    batch = Batch("Trace_LruCache", "lru")
    first = None
    for cap, calls in cases:
        rec = exec_small(cap, calls)
        first = first or rec
        codes = set()
        for c in calls:
            codes.update(c)
        for e in rec["events"]:
            for k in e["keys"]:
                codes.update(k)

        def h(v, cap=cap, calls=calls):
            chk.traces += 1
            chk.case(("lru", cap, calls), len(set(calls)) > cap)
            if v.startswith("drift"):
                chk.drift_note("small LRUCache(%d): %s calls=%s" % (cap, v, [list(c) for c in calls][:12]))
            elif v != "ok":
                clause = v.split(": ", 1)[-1].split(" obs=")[0]
                model = v.split("model=")[-1] if "model=" in v else "?"
                chk.reject("cell_len with LRUCache %s model-path=%s" % (clause, model), v,
                           dict(part="lru", cap=cap, calls=[list(c) for c in calls]))
        batch.add(rec, h, codes)
    batch.judge(chk, table, "M3", nproc=chk.pick(8, 16))
    if first:
        chk.sample(dict(part="lru", capacity=cases[0][0], calls=[list(c) for c in cases[0][1]], observed=[e["obs"] for e in first["events"]]))


# ---------------------------------------------------------------------------------------------
# (iv) Segment line shaping

class SegEnv:
    def __init__(self):
        from rich.segment import Segment
        from rich.style import Style
        self.Segment = Segment
        # id 0 = None; distinct, pairwise unequal styles
        self.styles = [None, Style(color="red"), Style(color="blue", bold=True), Style()]

    def sid(self, st):
        for i, s in enumerate(self.styles):
            if st is s:
                return i
        for i, s in enumerate(self.styles):
            if s is not None and st is not None:
                try:
                    if st == s:
                        return i
                except Exception:
                    pass
        return 99

    def mk(self, g):
        t, st, c = g
        return self.Segment(_txt(t), self.styles[st], bool(c))

    def proj(self, seg):
        try:
            text, style, ctl = seg
            return dict(t=cps(text), st=self.sid(style), c=bool(ctl))
        except Exception:
            return dict(t=[-1], st=98, c=False)

    def pline(self, line):
        return [self.proj(s) for s in line]


def exec_seg(env, case):
    """case: dict(k=..., inputs as plain lists).  Returns the record for Trace_Segments (None: skipped)."""
    S = env.Segment
    k = case["k"]
    tojson = lambda gs: [dict(t=list(t), st=st, c=bool(c)) for t, st, c in gs]
    mk = lambda gs: [env.mk(g) for g in gs]
    rec = dict(case, err="", r=[], rl=[])
    for f in ("line", "segs"):
        if f in case:
            rec[f] = tojson(case[f])
    if "lines" in case:
        rec["lines"] = [tojson(l) for l in case["lines"]]

    feed = (lambda segs: iter(segs)) if case.get("it") else (lambda segs: segs)       # Iterable parameters: also one-shot iterators

    def call():
        if k == "adjust":
            return "r", env.pline(S.adjust_line_length(mk(case["line"]), case["n"], style=env.styles[case["ps"]], pad=case["pad"]))
        if k == "splitcrop":
            return "rl", [env.pline(l) for l in S.split_and_crop_lines(feed(mk(case["segs"])), case["n"], style=env.styles[case["ps"]],
                                                                       pad=case["pad"], include_new_lines=case["nl"])]
        if k == "shape":
            h = None if case["h"] < 0 else case["h"]
            return "rl", [env.pline(l) for l in S.set_shape([mk(l) for l in case["lines"]], case["n"], h, style=env.styles[case["ps"]])]
        if k == "split":
            return "rl", [env.pline(l) for l in S.split_lines(feed(mk(case["segs"])))]
        if k == "simplify":
            return "r", env.pline(list(S.simplify(feed(mk(case["segs"])))))
        if k == "measure":
            lines = [mk(l) for l in case["lines"]]
            w, h = S.get_shape(lines)
            return "m", dict(lens=[int(S.get_line_length(l)) for l in lines], w=int(w), h=int(h))
        raise RuntimeError("unknown segment operation %r" % k)

    out, err = guarded(call)
    if err == "Skipped":
        return None
    if err:
        rec["err"] = err
    elif out[0] == "m":
        rec.update(out[1])
    else:
        rec[out[0]] = out[1]
    return rec


def seg_cps(rec):
    out = set()
    def walk(o):
        if isinstance(o, dict):
            if "t" in o:
                out.update(o["t"])
            for v in o.values():
                walk(v)
        elif isinstance(o, list):
            for v in o:
                walk(v)
    walk(rec)
    return out


def seg_sig(case, v):
    k = case["k"]
    shape = ""
    if k in ("adjust", "splitcrop"):
        shape = " pad=%s" % case["pad"]
    if k == "splitcrop":
        segs = case["segs"]
        nlst = sorted(set("same" if st == case["ps"] else "other" for t, st, c in segs if 10 in t and not c))
        shape += " newline-segment-style=%s" % ("/".join(nlst) or "none")
    if case.get("it"):
        shape += " input=iterator"
    if k == "shape":
        shape = " height=%s" % ("None" if case["h"] < 0 else ("<lines" if case["h"] < len(case["lines"]) else ">=lines"))
    return "%s op=%s%s" % (v, k, shape)


TEXTS = [(), (97,), (0x4E00,), (97, 0x4E00), (0x4E00, 97), (0x300,), (97, 98), (32,), (0x1F63D, 0x200D)]
NLTEXTS = [(10,), (97, 10), (10, 98), (97, 10, 10, 0x4E00), (0x4E00, 10)]


def seg_cases(chk):
    rng = chk.rng
    cases = []
    segpool = [(t, st, c) for t in TEXTS for st in (0, 1) for c in (False, True)]
    lines = [()] + [(a,) for a in segpool] + [(a, b) for a in segpool for b in segpool]
    if not chk.thorough:
        lines = lines[:1 + len(segpool)] + rng.sample(lines[1 + len(segpool):], 300)
    # adjust_line_length: all lines of <= 2 segments (quick: all of <= 1 and 500 of 2) x n 0..6 x pad x style
    for line in lines:
        for n in range(0, 7):
            for pad in (True, False):
                for ps in ((0, 2) if pad else (0,)):
                    cases.append(dict(k="adjust", line=list(line), n=n, ps=ps, pad=pad))

    def rnd_text(nl):
        pool = [97, 98, 32, 0x4E00, 0x1F63D, 0x300, 0x200D, 0x1100, 0x7F] + ([10, 10] if nl else [])
        return tuple(rng.choice(pool) for _ in range(rng.choice([0, 1, 1, 2, 3, 5, 9])))

    def rnd_segs(nl, maxsegs=6):
        out = []
        for _ in range(rng.randint(0, maxsegs)):
            if nl and rng.random() < 0.25:
                t = rng.choice(NLTEXTS)
            else:
                t = rnd_text(nl)
            out.append((t, rng.randint(0, 3), rng.random() < 0.15))
        return out

    N = chk.pick(3000, 25000)
    for _ in range(N):
        line = rnd_segs(False)
        cases.append(dict(k="adjust", line=line, n=rng.choice([rng.randint(0, 12), rng.randint(0, 40)]),
                          ps=rng.randint(0, 3), pad=rng.random() < 0.7))
    # split_and_crop_lines / split_lines / simplify / set_shape over segment lists with newlines
    nlpool = [(t, st, c) for t in NLTEXTS[:3] + TEXTS[1:3] for st in (0, 1) for c in (False,)] + [((10,), 1, True), ((97,), 0, True)]
    small = [()] + [(a,) for a in nlpool] + [(a, b) for a in nlpool for b in nlpool]
    if chk.thorough:
        small += rng.sample([(a, b, c) for a in nlpool for b in nlpool for c in nlpool], 1500)
    for segs in small:
        for n in (0, 1, 2, 4):
            for pad in (True, False):
                for ps in (0, 2):
                    cases.append(dict(k="splitcrop", segs=list(segs), n=n, ps=ps, pad=pad, nl=(n + ps) % 4 != 0, it=(n + pad) % 2 == 1))
        for it in (False, True):
            cases.append(dict(k="split", segs=list(segs), it=it))
            cases.append(dict(k="simplify", segs=list(segs), it=it))
    for _ in range(N):
        segs = rnd_segs(True)
        cases.append(dict(k="splitcrop", segs=segs, n=rng.randint(0, 12), ps=rng.randint(0, 3),
                          pad=rng.random() < 0.7, nl=rng.random() < 0.5, it=rng.random() < 0.5))
        if rng.random() < 0.4:
            cases.append(dict(k="split", segs=segs, it=rng.random() < 0.5))
            cases.append(dict(k="simplify", segs=segs, it=rng.random() < 0.5))
    for _ in range(N // 2):
        lines_ = [rnd_segs(False, 3) for _ in range(rng.randint(0, 4))]
        h = rng.choice([-1, -1, 0, 1, len(lines_), len(lines_) + 2])
        cases.append(dict(k="shape", lines=lines_, n=rng.randint(0, 10), h=h, ps=rng.randint(0, 3)))
        cases.append(dict(k="measure", lines=lines_))
    return cases


def nontrivial_seg(case):
    if case["k"] in ("shape", "measure"):
        return any(case["lines"])
    return bool(case.get("line") or case.get("segs"))


def segments(chk, table):
    env = SegEnv()
    if chk.replay_only:
        cases = [chk.replay_only["case"]["case"]]
    else:
        cases = seg_cases(chk)
    batch = Batch("Trace_Segments", "seg")
    kinds = {}
    shown = []
    for case in cases:
        rec = exec_seg(env, case)
        if rec is None:
            break
        kinds[case["k"]] = kinds.get(case["k"], 0) + 1
        if not shown and case["k"] == "splitcrop" and case["segs"]:
            shown.append(dict(part="seg", case=case, observed=rec.get("rl")))

        def h(v, case=case, rec=rec):
            chk.traces += 1
            chk.case(("seg", case), nontrivial_seg(case))
            if v.startswith("drift"):
                chk.drift_note("%s case=%s" % (v, json.dumps(case)[:300]))
            elif v != "ok":
                chk.reject(seg_sig(case, v), "%s; case=%s observed=%s" % (v, json.dumps(case), json.dumps(rec.get("r") or rec.get("rl"))),
                           dict(part="seg", case=case))
        batch.add(rec, h, seg_cps(rec))
    batch.judge(chk, table, "M3")
    chk.notes["segment_records"] = kinds
    for x in shown:
        chk.sample(x)


# ---------------------------------------------------------------------------------------------

def run(chk: Check):
    table = _table()
    digest = hashlib.sha1(json.dumps(table).encode()).hexdigest()
    chk.notes["width_table"] = dict(ranges=len(table), sha1=digest, pinned=(digest == PINNED_TABLE_SHA1))
    if digest != PINNED_TABLE_SHA1:
        chk.drift_note("rich/_cell_widths.py differs from the pinned 9.10.0 table (sha1 %s); the lookup property is judged against the edited data" % digest[:12])
    chk.rule = ("a case is a distinct input: a slice / list of code points measured with get_character_cell_size; a string "
                "(with all its target sizes and chop widths, each of which is one evaluation); a call history on the "
                "process-wide caches; a (capacity, call list) on a small real LRUCache; a (segment list, operation, length, "
                "pad, style, newline option).  non-trivial = non-empty string / history with more distinct keys than the "
                "capacity / non-empty segment list")
    chk.trusted = ["drivers/c13.py:cps/_txt (str <-> code points)", "drivers/c13.py:SegEnv.sid (Style -> id by identity, then ==)",
                   "drivers/c13.py:_table (reads CELL_WIDTHS of the tree under test)", "engine/tlc.py:judge (VERDICT lines)"]
    chk.assumptions = ["character widths are DEFINED by a linear first-match scan of rich/_cell_widths.py of the tree under test (-1 counts 0, absent counts 1)",
                       "chop_cells: width >= 2 and 0 <= position <= width; sizes / lengths >= 0",
                       "adjust_line_length is given lines without newline characters (its documented precondition)",
                       "cache introspection (cell_len.__defaults__, cache_info) is used for evidence and for resetting between rounds only"]
    if chk.replay_only:
        return replay(chk, table)
    skip_m1 = bool(os.environ.get("VERIF_C13_SKIP_M1"))        # development aid (trying mutants on a loaded machine); never set by ./check
    if skip_m1:
        chk.notes["parts_run"] = "M1 skipped (VERIF_C13_SKIP_M1)"
    with ThreadPoolExecutor(1) as bg:
        fut = bg.submit((lambda pick: []) if skip_m1 else m1, chk.pick)     # the model checks run while the real code is exercised
        batch = Batch("Trace_Cells", "cells")
        codepoints(chk, table, batch)
        strings(chk, table, batch)
        histories(chk, table, batch)
        mixed_histories(chk, batch)
        batch.judge(chk, table, "M3/M4")
        small_caches(chk, table)
        segments(chk, table)
        m1_account(chk, fut.result())
    if Watch.hangs:
        chk.notes["hangs"] = "%d call(s) into Rich exceeded the 3 s CPU deadline and were recorded as observations%s" % (
            Watch.hangs, "; the limit was reached and later real calls were skipped" if Watch.exhausted() else "")


def replay(chk, table):
    c = chk.replay_only["case"]
    part = c.get("part")
    sig = chk.replay_only.get("signature", "replay")
    batch = Batch("Trace_Cells", "replay")
    if part == "cps":
        rec = exec_cps(c["cps"])
        batch.add(rec, lambda v: v != "ok" and chk.reject(cp_sig(v), v, c))
    elif part == "str":
        add_strs(chk, batch, [(tuple(c["s"]), c["sizes"], [tuple(x) for x in c["chops"]])], "replay")
    elif part == "hist":
        calls = [tuple(x) for x in c["calls"]]
        codes = set()
        for x in calls:
            codes.update(x)
        batch.add(dict(k="hist", events=run_len_history(calls)), lambda v: v != "ok" and chk.reject(sig, v, c), codes)
    elif part == "mix":
        ev = replay_mixed(c["events"])
        codes = set()
        for e in ev:
            codes.update(e["s"])
            for p_ in e["r"]:
                codes.update(p_)
        for i in range(0, len(ev), 500):
            batch.add(dict(k="mix", events=ev[i:i + 500]), lambda v: v != "ok" and chk.reject(sig, v, c), codes)
    elif part == "cphist":
        batch.add(exec_cps(c["calls"]), lambda v: v != "ok" and chk.reject(sig, v, c))
    elif part == "lru":
        small_caches(chk, table)
    elif part == "seg":
        segments(chk, table)
    else:
        raise RuntimeError("unknown replay part %r" % part)
    batch.judge(chk, table, "M3")
    chk.traces += 1
