"""C11 - console output under concurrency.  Small multi-threaded programs over {print, log, capture,
update+refresh, refresh, advance, start, stop} run on real threads under the deterministic scheduler
(dsched); every execution is recorded (calls, hook phases, writes, recorded copy) and judged by TLC
(Trace_ConsoleConc).  The fine-grain model ConsoleConc.tla is model-checked in both the intended
(atomic print) and the faithful configuration."""
import os
import re

from engine import tlc, dsched, instrument
from engine.harness import Check
from engine.termlex import lex

W = 40


def P(k, i):
    return 1000000 + k * 10 + i


def F(k, i):
    return 2000000 + k * 10 + i


def label_text(idv):
    kind = "P" if idv // 1000000 == 1 else "F"
    r = idv % 1000000
    return "%s%d.%d" % (kind, r // 10, r % 10)


_LAB = re.compile(r"P(\d+)\.(\d)")


def labels_in(s):
    return [P(int(k), int(i)) for k, i in _LAB.findall(s)]


def _observe_hook(s, disp):
    """Log the hook phase where it happens: position_cursor() is called by process_renderables
    (for Live under the live lock) and reads the region height it is going to erase."""
    lr = disp._live_render
    orig = lr.position_cursor

    def position_cursor():
        shp = lr._shape
        me = s.me().tid if s.me() else -1
        s.events.append((me, "hookcap" if me in s.capturing else "hook", -1 if shp is None else shp[1]))
        return orig()
    lr.position_cursor = position_cursor


def run_program(prog, strategy, trace=False, tick_budget=2):
    """prog: dict(display: none|live|progress, auto_refresh, threads: [[ops]], transient).
    Ops: print(id,n) log(id) capture(id,n) update(v,h) refresh advance start stop."""
    files = ("rich/console.py", "rich/live.py", "rich/live_render.py", "rich/progress.py", "rich/file_proxy.py") if trace else ()
    s = dsched.Scheduler(strategy, trace_files=files, tick_budget=tick_budget, max_steps=300000)
    s.capturing = set()          # worker numbers currently inside a capture block
    calls, rec_labels, final_frame = [], [], []
    live_on = prog["display"] != "none"
    with instrument.Patched(s):
        from rich.console import Console, RenderGroup
        from rich.live import Live
        from rich.progress import Progress, TextColumn
        from rich.text import Text
        f = dsched.SFile(s)
        console = Console(file=f, force_terminal=True, width=W, height=25, color_system=None, record=True, _environ={})
        disp = None
        state = dict(frame=[F(0, 1)], tasks=[])

        def rows_renderable(rows):
            rg = RenderGroup(*[Text(label_text(r), no_wrap=True, overflow="crop") for r in rows])
            rg.rows = list(rows)
            return rg
        if prog["display"] == "live":
            disp = Live(rows_renderable(state["frame"]), console=console, auto_refresh=prog.get("auto_refresh", False),
                        refresh_per_second=4, transient=False, redirect_stdout=False, redirect_stderr=False)
            _observe_hook(s, disp)
        elif prog["display"] == "progress":
            disp = Progress(TextColumn("{task.description}"), console=console, auto_refresh=prog.get("auto_refresh", False),
                            redirect_stdout=False, redirect_stderr=False, get_time=s.time)
            state["tasks"] = [disp.add_task(label_text(F(1, 1))), disp.add_task(label_text(F(2, 1)))]
            _observe_hook(s, disp)

        def cap_end(tn):
            # the region height the display remembers when the capture block ends (a captured print runs the display's hook
            # and may change it although nothing was drawn)
            if disp is not None:
                shp = disp._live_render._shape
                s.events.append((tn, "capend", -1 if shp is None else shp[1]))

        def mk(tn, ops):
            def fn():
                for op in ops:
                    k = op["k"]
                    if k == "print":
                        labels = [P(op["id"], i) for i in range(1, op["n"] + 1)]
                        calls.append(dict(kind="print", t=tn, labels=labels, captured=[]))
                        console.print("\n".join(label_text(x) for x in labels))
                    elif k == "log":
                        calls.append(dict(kind="log", t=tn, labels=[P(op["id"], 1)], captured=[]))
                        console.log(label_text(P(op["id"], 1)))
                    elif k == "capture":
                        labels = [P(op["id"], i) for i in range(1, op["n"] + 1)]
                        c = dict(kind="capture", t=tn, labels=labels, captured=[])
                        calls.append(c)
                        s.capturing.add(s.me().tid)
                        try:
                            with console.capture() as cap:
                                console.print("\n".join(label_text(x) for x in labels))
                        finally:
                            s.capturing.discard(s.me().tid)
                            cap_end(s.me().tid)
                        c["captured"] = labels_in(cap.get())
                    elif k == "bufcapture":
                        # a capture begun while the thread already has pending (buffered) output
                        la = [P(op["id"], 1)]
                        lb = [P(op["id2"], i) for i in range(1, op["n"] + 1)]
                        calls.append(dict(kind="print", t=tn, labels=la, captured=[]))
                        c = dict(kind="capture", t=tn, labels=lb, captured=[])
                        calls.append(c)
                        with console:
                            console.print(label_text(la[0]))
                            s.capturing.add(s.me().tid)
                            try:
                                with console.capture() as cap:
                                    console.print("\n".join(label_text(x) for x in lb))
                            finally:
                                s.capturing.discard(s.me().tid)
                                cap_end(s.me().tid)
                            c["captured"] = labels_in(cap.get())
                    elif k == "export":
                        (console.export_html if op.get("html") else console.export_text)(clear=False)
                    elif k == "update":
                        rows = [F(op["v"], i) for i in range(1, op["h"] + 1)]
                        state["frame"] = rows
                        disp.update(rows_renderable(rows), refresh=True)
                    elif k == "refresh":
                        disp.refresh()
                    elif k == "advance":
                        disp.advance(state["tasks"][0], 1)
                    elif k == "start":
                        disp.start()
                    elif k == "stop":
                        disp.stop()
            return fn
        fns = [mk(i + 1, ops) for i, ops in enumerate(prog["threads"])]

        def main():
            if disp is not None and prog.get("prestart", True):
                disp.start()
            ths = [s.spawn(fn, "worker%d" % (i + 1)) for i, fn in enumerate(fns)]
            s.yield_point("spawned")
            for t in ths:
                while t.state != "done":
                    s.block(t)
            if disp is not None:
                disp.stop()
        s.run([main], names=["main"])
        if not s.deadlock:
            try:
                rec_labels = labels_in(console.export_text(clear=False))
            except Exception:
                rec_labels = []
        if prog["display"] == "live":
            # the renderable that the last set_renderable (under the live lock) installed
            final_frame = list(getattr(disp._live_render.renderable, "rows", state["frame"]))
        elif prog["display"] == "progress":
            final_frame = [F(1, 1), F(2, 1)]
    exc = "none"
    for t in s.threads:
        if t.exc is not None:
            exc = type(t.exc).__name__
    events = []
    for ev in s.events:
        if ev[1] == "write":
            events.append(dict(e="write", t=ev[0], ops=lex(ev[2])))
        elif ev[1] in ("hook", "hookcap"):
            events.append(dict(e="hook", t=ev[0], h=ev[2], cap=ev[1] == "hookcap", ops=[]))
        elif ev[1] == "capend":
            events.append(dict(e="capend", t=ev[0], h=ev[2], ops=[]))
    return dict(calls=calls, events=events, rec=rec_labels, live=live_on, finalframe=final_frame, deadlock=bool(s.deadlock),
                startstop=bool(prog.get("startstop")),
                exc=exc, choices=list(s.choices), steps=s.steps, deadlock_info=repr(s.deadlock) if s.deadlock else "")


NTHREADS = [2, 2, 3, 4]


def random_program(rng, display):
    nthreads = rng.choice(NTHREADS)
    startstop = rng.random() < (1.0 if os.environ.get("VERIF_C11_STARTSTOP") else 0.25)       # some programs stop / start the display from worker threads
    pid = [0]
    fv = [0]

    def ops_for():
        ops = []
        for _ in range(rng.randint(1, 2)):
            kinds = ["print", "print", "log", "capture", "capture", "bufcapture", "export"]
            if display == "live":
                kinds += ["update", "update", "refresh"]
            elif display == "progress":
                kinds += ["advance", "refresh", "refresh"]
            if display != "none" and startstop:
                kinds += ["stop", "start", "stop"]
            k = rng.choice(kinds)
            if k in ("print", "capture"):
                pid[0] += 1
                ops.append(dict(k=k, id=pid[0], n=rng.choice([1, 2, 3])))
            elif k == "log":
                pid[0] += 1
                ops.append(dict(k=k, id=pid[0]))
            elif k == "bufcapture":
                pid[0] += 2
                ops.append(dict(k=k, id=pid[0] - 1, id2=pid[0], n=rng.choice([1, 2])))
            elif k == "export":
                ops.append(dict(k=k, html=rng.random() < 0.5))
            elif k == "update":
                fv[0] += 1
                ops.append(dict(k=k, v=fv[0], h=rng.choice([1, 2, 3, 4])))
            else:
                ops.append(dict(k=k))
        return ops
    threads = [ops_for() for _ in range(nthreads)]
    return dict(display=display, auto_refresh=rng.random() < 0.3 and display != "none", threads=threads,
                startstop=any(o["k"] in ("start", "stop") for ops in threads for o in ops))


def pair_programs():
    """2 threads x 1 call each: every unordered pair of call kinds, per display."""
    def op(k, i):
        if k in ("print", "capture"):
            return dict(k=k, id=i, n=1)
        if k == "log":
            return dict(k=k, id=i)
        if k == "bufcapture":
            return dict(k=k, id=10 + i, id2=20 + i, n=1)
        if k == "export":
            return dict(k=k, html=i == 1)
        if k == "update":
            return dict(k=k, v=i, h=1 + i)
        return dict(k=k)
    for display, extra in (("none", []), ("live", ["update", "refresh"]), ("progress", ["advance", "refresh"])):
        kinds = ["print", "log", "capture", "bufcapture", "export"] + extra
        for a in range(len(kinds)):
            for b in range(a, len(kinds)):
                if display == "none" or kinds[a] in extra or kinds[b] in extra or (kinds[a], kinds[b]) in (("print", "log"), ("print", "print"), ("log", "log")):
                    yield dict(display=display, auto_refresh=False, threads=[[op(kinds[a], 1)], [op(kinds[b], 2)]], startstop=False)


def run(chk: Check):
    chk.rule = ("a case is (program, schedule): programs of 2-4 threads x 1-2 calls over print / log / capture / export / update+refresh / refresh / "
                "advance with no display, a Live or a Progress (optionally with its refresh thread); schedules by DFS with pre-emption "
                "bound 2 over lock / write / event yield points, DFS bound 1 over every executed line of console.py, live.py, live_render.py, "
                "progress.py, and seeded random / PCT schedules; distinct by recorded history; non-trivial = at least two threads wrote")
    chk.trusted = ["engine/dsched.py (serialises real threads; re-entrant lock / event proxies; a timed wait fires when the scheduler picks it)",
                   "engine/termlex.py", "hook phase observed by wrapping process_renderables (reads _live_render._shape)"]
    chk.assumptions = ["no pre-emption inside a single bytecode", "at most 4 worker threads + main + refresh thread", "unbounded scroll-back"]
    runs = []
    if chk.thorough:
        NTHREADS[:] = [2, 2, 3, 4, 5, 6]
    if chk.replay_only:
        c = chk.replay_only["case"]
        runs.append((c, run_program(c["program"], dsched.Replay(c["choices"]), trace=c.get("trace", False))))
    else:
        r, cov, missing = tlc.model_check("MC_ConsoleConc", require_actions=["Begin", "SetRenderable", "Hook", "Render", "Write", "End"])
        chk.add_tlc(r, "M1-intended-atomic-print")
        if r.violated or missing:
            raise tlc.TLCFailure("MC_ConsoleConc (atomic print) violated=%s missing=%s" % (r.violated, missing))
        # print / capture / record path at the grain of console.py's critical sections
        rb, covb, missb = tlc.model_check("MC_ConsoleBuf", require_actions=["Begin", "Enter", "Render", "Exit", "Acquire", "Record", "Write", "EndCap", "End"])
        chk.add_tlc(rb, "M1-buffer-capture-record")
        if rb.violated or missb:
            raise tlc.TLCFailure("MC_ConsoleBuf violated=%s missing=%s" % (rb.violated, missb))
        for guard, inv in (("MC_ConsoleBuf_shared", "a shared buffer"), ("MC_ConsoleBuf_recout", "recording outside the console lock")):
            rg, _, _ = tlc.model_check("MC_ConsoleBuf", cfg=guard)
            chk.add_tlc(rg, "M1-buffer-guard")
            if not rg.violated:
                raise tlc.TLCFailure("vacuity guard: TLC did not refute the design with %s" % inv)
        chk.notes["buffer_design_mistakes_refuted"] = ["SharedBuffer", "RecordOutsideLock"]
        for extra in ("MC_ConsoleConc_3", "MC_ConsoleConc_refresh_only"):
            rx, _, _ = tlc.model_check("MC_ConsoleConc", cfg=extra)
            chk.add_tlc(rx, "M1-" + extra[15:])
            if rx.violated:
                raise tlc.TLCFailure("%s violated %s" % (extra, rx.violated))
        rf, _, _ = tlc.model_check("MC_ConsoleConc", cfg="MC_ConsoleConc_faithful")
        chk.add_tlc(rf, "M1-faithful")
        chk.notes["faithful_model_violates"] = rf.violated
        if not rf.violated:
            chk.drift_note("the faithful model (print does not hold the live lock from hook to write) no longer violates the screen invariant")
        chk.mark("M1")
        # every PAIR of calls, one per thread, on every display, under every schedule with one pre-emption at a lock / write / event
        # point: a lock-order inversion between two calls needs exactly the two of them and one pre-emption
        npairs = 0
        for prog in pair_programs():
            d = dsched.DFS(bound=1, max_runs=chk.pick(150, 600))
            while d.more():
                rec = run_program(prog, d.strategy())
                d.done()
                runs.append((dict(program=prog, choices=rec["choices"]), rec))
            npairs += 1
        chk.notes["pair_programs"] = npairs
        chk.mark("execute-pairs")
        for pi in range(chk.pick(15, 90)):
            display = ["none", "live", "progress"][pi % 3]
            prog = random_program(chk.rng, display)
            d = dsched.DFS(bound=2, max_runs=chk.pick(50, 300))
            while d.more():
                rec = run_program(prog, d.strategy())
                d.done()
                runs.append((dict(program=prog, choices=rec["choices"]), rec))
            d = dsched.DFS(bound=1, max_runs=chk.pick(40, 400), kinds={"line"})
            while d.more():
                rec = run_program(prog, d.strategy(), trace=True)
                d.done()
                runs.append((dict(program=prog, choices=rec["choices"], trace=True), rec))
            for sd in range(chk.pick(8, 60)):
                st = dsched.RandomStrategy(chk.seed * 1000 + sd, p=0.05) if sd % 2 else dsched.PCT(chk.seed * 1000 + sd, depth=3, est_steps=1500)
                rec = run_program(prog, st, trace=True)
                runs.append((dict(program=prog, choices=rec["choices"], trace=True), rec))
        chk.mark("execute")
    seen, uniq = set(), []
    for payload, rec in runs:
        key = repr((rec["calls"], rec["events"], rec["rec"], rec["deadlock"], rec["exc"]))
        writers = {e["t"] for e in rec["events"] if e["e"] == "write"}
        chk.case((repr(payload["program"]), tuple(rec["choices"])), len(writers) >= 2)
        if key not in seen:
            seen.add(key)
            uniq.append((payload, rec))
    recs = [dict(calls=r["calls"], events=r["events"], rec=r["rec"], live=r["live"], finalframe=r["finalframe"], deadlock=r["deadlock"], exc=r["exc"], startstop=r.get("startstop", False))
            for _, r in uniq]
    verdicts, st = tlc.judge("Trace_ConsoleConc", recs, chunk_min=10)
    chk.add_tlc(st, "M3")
    chk.traces += len(recs)
    chk.notes["executions"] = len(runs)
    chk.notes["distinct_histories"] = len(uniq)
    chk.mark("judge")
    for (payload, rec), v in zip(uniq, verdicts):
        if v != "ok":
            kinds = sorted({op["k"] for ops in payload["program"]["threads"] for op in ops})
            chk.reject("%s display=%s%s" % (v, payload["program"]["display"], " startstop" if payload["program"].get("startstop") else ""), v + " " + rec.get("deadlock_info", "") + " ops=" + "+".join(kinds), payload)
    if uniq:
        p, r = uniq[-1]
        chk.sample(dict(program=p["program"], schedule=r["choices"][:50], writes=[(e["t"], len(e["ops"])) for e in r["events"] if e["e"] == "write"]))
