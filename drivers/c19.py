"""C19 - (a) the ANSI decoder inverts the encoder [decoder_part, built with C03];
(b) redirected stdout/stderr through FileProxy: every line exactly once, in order, complete, styled
as a terminal would have shown it, flush emits the pending partial line (FileProxy.tla)."""
import io

from engine import tlc
from engine.harness import Check
from engine.watch import Hang, cpu_deadline
from engine.sgrlex import lex

FRAGS = ["a", "b", "xy", " ", "\n", "\n", "\x1b[31m", "\x1b[1;32m", "\x1b[0m", "\x1b[m", "\x1b[38;5;200m", "\x1b[38;2;1;2;3m",
         "\x1b[4m", "\x1b[24m", "\x1b[44m", "[b]", "[/x]", "12", ":smile:", "'q'", "\u4e16", "\x1b[1m", "\x1b[22m"]
# the rest of the SGR vocabulary a program may write (bright colours, 256 / 24-bit backgrounds, default colours, every
# attribute with its "off" code, several parameters at once, leading zeros, empty parameters), hyperlinks (OSC 8, with and
# without id, targets with ';' '=' '?'), other CSI sequences (they style nothing), and more text that markup / emoji /
# highlighting / the tokeniser could mistake for something else
MORE_FRAGS = ["\x1b[1;31;44m", "\x1b[39m", "\x1b[49m", "\x1b[91m", "\x1b[97m", "\x1b[100m", "\x1b[107m", "\x1b[40m", "\x1b[30m", "\x1b[48;5;17m",
              "\x1b[48;2;10;20;30m", "\x1b[38;5;9m", "\x1b[3m", "\x1b[23m", "\x1b[7m", "\x1b[27m", "\x1b[9m", "\x1b[29m", "\x1b[2m", "\x1b[8m", "\x1b[28m",
              "\x1b[5m", "\x1b[6m", "\x1b[25m", "\x1b[53m", "\x1b[55m", "\x1b[51m", "\x1b[52m", "\x1b[54m", "\x1b[21m", "\x1b[01;032m",
              "\x1b[38;5;196;48;5;21;4m", "\x1b[0;1;3;4;7;9m",
              "\x1b[2K", "\x1b[1A", "\x1b[?25l", "\x1b[2K", "\r\n", "\r\n",       # other CSI sequences (they style nothing); CRLF line ends
              "\x1b]8;;https://example.org/a\x1b\\", "\x1b]8;id=7;https://example.org/b?x=1;y=2\x1b\\", "\x1b]8;;\x1b\\", "\x1b]8;;\x1b\\",
              "]", ";", "m", "[", "\\", "\xe9", "e\u0301", "[link=x]", "[/]", "[red]", "http://x.y/z", "None", "True", "3.5", "  ", "abcdefghijklmnopqrst", "\U0001f642",
              "0x1F", "\"s\"", "(1, 2)", "a=b", ":x:", "[/b]", "\\[", "\uff21"]
# an "off" code switches off both kinds (24 after 21, 25 after 6); SGR 0 does not close a hyperlink (it is not an SGR attribute)
MORE_FRAGS += ["\x1b[21mu\x1b[24mv", "\x1b[6mu\x1b[25mv", "\x1b[4;21mu\x1b[24mv", "\x1b[21m", "\x1b[24m", "\x1b[6m", "\x1b[25m",
               "\x1b]8;;https://example.org/a\x1b\\L\x1b[0mM", "\x1b]8;id=7;https://example.org/b?x=1;y=2\x1b\\\x1b[1mL\x1b[mM\x1b]8;;\x1b\\N", "\x1b[0m", "\x1b[m"]
# TODO(audit-2): kept out of the generator until repaired in rich.ansi (witness in audit_artifacts/c19/witness_sgr24_25.py):
#  * empty parameters ("\x1b[;1m", "\x1b[1;m" - an empty parameter means 0 = reset; the decoder skips it)
HELD_BACK = ["\x1b[;1m", "\x1b[1;m"]


import re
_SEQ = re.compile(r"\x1b\[[0-?]*[ -/]*[@-~]|\x1b\][^\x1b\x07]*(?:\x1b\\|\x07)")
_PREFIX = re.compile(r"\x1b(?:\[[0-?]*[ -/]*|\][^\x1b\x07]*\x1b?)?\Z")


def split_carry(text):
    """-> (the part of text made of complete tokens, the escape sequence left unfinished at its end)"""
    i = 0
    while True:
        j = text.find("\x1b", i)
        if j < 0:
            return text, ""
        m = _SEQ.match(text, j)
        if m:
            i = m.end()
        elif _PREFIX.match(text, j):
            return text[:j], text[j:]
        else:
            i = j + 1


class _Redirected:
    """stdout / stderr redirected by a real Live or Progress display (nothing to show: an empty display, so that the console's
    output is what the proxies print), or two FileProxy objects made directly"""

    def __init__(self, via, console, redirect):
        import sys
        self.via, self.console, self.display = via, console, None
        self.saved = None
        if via == "direct":
            from rich.file_proxy import FileProxy
            self.streams = {1: FileProxy(console, io.StringIO()), 2: FileProxy(console, io.StringIO())}
            return
        self.saved = (sys.stdout, sys.stderr)
        self.plain = (io.StringIO(), io.StringIO())     # where an un-redirected write would end up
        sys.stdout, sys.stderr = self.plain
        try:
            if via == "live":
                from rich.console import RenderGroup
                from rich.live import Live
                self.display = Live(RenderGroup(), console=console, auto_refresh=False, redirect_stdout=redirect[0], redirect_stderr=redirect[1])
            else:
                from rich.progress import Progress
                self.display = Progress(console=console, auto_refresh=False, redirect_stdout=redirect[0], redirect_stderr=redirect[1])
            self.display.start()
            self.streams = {1: sys.stdout, 2: sys.stderr}
        except BaseException:
            sys.stdout, sys.stderr = self.saved
            raise

    def close(self):
        import sys
        if self.saved is not None:
            try:
                if self.display is not None:
                    self.display.stop()
            except Exception:
                pass
            finally:
                sys.stdout, sys.stderr = self.saved


def execute(ops, via="direct", width=300, redirect=(True, True), how=None):
    """ops: [{"k": "write", "text": str, "p": 1 | 2} | {"k": "flush"}] on real FileProxy objects bound to a truecolor console: made
    directly, or sys.stdout / sys.stderr as a started Live / Progress display replaces them; `how` says how the program writes
    (write / print(end="") / writelines of the pieces)."""
    from rich.console import Console
    sink = io.StringIO()
    console = Console(file=sink, force_terminal=True, color_system="truecolor", width=width, _environ={}, legacy_windows=False)
    events = []
    rec = dict(events=events, narrow=width < 300)
    try:
        target = _Redirected(via, console, redirect)
    except Exception as ex:
        events.append(dict(k="flush", p=1, exc="start-" + type(ex).__name__, out=[]))
        return rec
    pos = len(sink.getvalue())
    links = {}
    carries = {1: "", 2: ""}    # an escape sequence cut by a chunk boundary belongs to the chunk that completes it
    try:
        for n, op in enumerate(ops):
            pid = op.get("p", 1)
            proxy = target.streams[pid]
            e = dict(k=op["k"], exc="none", p=pid)
            try:
                if op["k"] == "write":
                    text, carries[pid] = split_carry(carries[pid] + op["text"])
                    e["chunk"] = lex(text, links)
                    style = (how or {}).get(str(n), "write")
                    with cpu_deadline(10.0):
                        if style == "print":
                            print(op["text"], end="", file=proxy)
                        elif style == "lines":
                            proxy.writelines(op["text"].splitlines(True))
                        else:
                            proxy.write(op["text"])
                else:
                    with cpu_deadline(10.0):
                        proxy.flush()
            except Hang:
                # the call does not come back (10 s of CPU for a few dozen characters): judged as such, the history stops here
                e["exc"] = "no-termination"
                e["out"] = []
                events.append(e)
                break
            except Exception as ex:
                e["exc"] = type(ex).__name__
            v = sink.getvalue()
            if len(v) - pos > 20000:
                # far more output than anything written to the proxy: judged as such, and the history stops here
                e["out"] = lex(v[pos:pos + 2000], links)
                e["exc"] = "runaway-output"
                events.append(e)
                break
            e["out"] = lex(v[pos:], links)
            pos = len(v)
            events.append(e)
    finally:
        target.close()
    return rec


def split_points(rng, stream, maxchunks):
    cuts = sorted(rng.sample(range(0, len(stream) + 1), min(maxchunks - 1, len(stream) + 1))) if stream else []
    parts, prev = [], 0
    for c in cuts + [len(stream)]:
        parts.append(stream[prev:c])
        prev = c
    return parts


def random_stream(rng, frags):
    return "".join(rng.choice(frags) for _ in range(rng.randint(1, 14)))


def random_ops(rng, frags=FRAGS):
    stream = random_stream(rng, frags)
    parts = split_points(rng, stream, rng.randint(1, 7))     # cuts at arbitrary character positions: inside escapes too
    ops = []
    pending_visible = False
    buf = ""
    for part in parts:
        ops.append(dict(k="write", text=part))
        buf = (buf + part).rsplit("\n", 1)[-1] if "\n" in (buf + part) else buf + part
        if rng.random() < 0.3:
            # flush only a pending line that shows something or nothing at all (escape-only fragments:
            # the statement does not say whether a blank line is due)
            # the pending text may end inside an escape sequence: what is complete is due now, the cut sequence stays pending
            done, carry = split_carry(buf)
            vis = [t for t in lex(done) if t[0] == "c"]
            if vis or done == "":
                ops.append(dict(k="flush"))
                buf = carry
    if rng.random() < 0.5:
        ops.append(dict(k="write", text="\n"))
    return ops


def two_proxy_ops(rng, frags=FRAGS):
    """stdout and stderr proxies on one console: two independent streams, calls interleaved."""
    a = [dict(o, p=1) for o in random_ops(rng, frags)]
    b = [dict(o, p=2) for o in random_ops(rng, frags)]
    out = []
    while a or b:
        src = a if (a and (not b or rng.random() < 0.5)) else b
        out.append(src.pop(0))
    return out


def random_setting(rng, ops):
    """how the history reaches the proxies: made directly or through a started Live / Progress display (redirecting both
    streams or only the one written to), on a wide console or one narrower than the lines, by write / print / writelines"""
    via = rng.choice(["direct", "direct", "live", "progress"])
    used = {o.get("p", 1) for o in ops}
    redirect = [True, True]
    if via != "direct" and len(used) == 1 and rng.random() < 0.4:
        redirect[2 - list(used)[0]] = False          # the other stream is left alone
    how = {}
    for n, o in enumerate(ops):
        if o["k"] == "write" and rng.random() < 0.2:
            how[str(n)] = rng.choice(["print", "lines"])
    return dict(via=via, width=rng.choice([300, 300, 300, rng.randint(6, 24)]), redirect=redirect, how=how)


def fileproxy_part(chk: Check):
    cases, settings = [], []
    if chk.replay_only:
        c = chk.replay_only["case"]
        cases.append(c["ops"])
        settings.append(dict(via=c.get("via", "direct"), width=c.get("width", 300), redirect=c.get("redirect", [True, True]), how=c.get("how", {})))
    else:
        r, cov, missing = tlc.model_check("MC_FileProxy", require_actions=["WriteA", "FlushA"])
        chk.add_tlc(r, "M1-fileproxy-chunkings")
        if r.violated or missing:
            raise tlc.TLCFailure("MC_FileProxy violated=%s missing=%s" % (r.violated, missing))
        # M2: every chunking of the model's stream (write sizes 0..3, flushes), replayed on the real proxy
        cfgt = "CONSTANT GenDepth = %d\nSPECIFICATION Spec\nCONSTRAINT Emit\nCHECK_DEADLOCK FALSE\n"
        stream = "a\x1b[31mb\n\x1b[1mc\x1b[0m\nd"
        evs = ["a", "\x1b[31m", "b", "\n", "\x1b[1m", "c", "\x1b[0m", "\n", "d"]
        for depth in (chk.pick((4, 5), (4, 5, 6, 7))):
            behs, r2 = tlc.behaviours("MC_FileProxy", cfg_text=cfgt % depth)
            chk.add_tlc(r2, "M2-fileproxy")
            for b in behs:
                pos, ops = 0, []
                for o in b["beh"]:
                    if o["k"] == "write":
                        ops.append(dict(k="write", text="".join(evs[pos:pos + o["n"]])))
                        pos += o["n"]
                    else:
                        # a flush of an escape-only pending fragment is outside the judged domain
                        ops.append(dict(k="flush"))
                cases.append(ops)
        chk.notes["tlc_generated_chunkings"] = len(cases)
        settings = [dict(via="direct", width=300, redirect=[True, True], how={}) for _ in cases]
        for k, ops in enumerate(cases[:400]):
            # the TLC-generated chunkings once more through real displays
            cases.append(ops)
            settings.append(dict(via=("live", "progress")[k % 2], width=300, redirect=[True, True], how={}))
        for i in range(chk.pick(2500, 40000)):
            frags = FRAGS if i % 2 == 0 else FRAGS + MORE_FRAGS
            ops = two_proxy_ops(chk.rng, frags) if i % 3 == 0 else random_ops(chk.rng, frags)
            if i % 3 and chk.rng.random() < 0.3:
                ops = [dict(o, p=2) for o in ops]       # a program that writes to stderr only
            cases.append(ops)
            settings.append("random" if i % 4 else dict(via="direct", width=300, redirect=[True, True], how={}))
    # drop flushes of escape-only pending text from TLC-generated cases (domain restriction, see random_ops)
    cleaned = []
    for ops in cases:
        bufs, out = {1: "", 2: ""}, []
        for op in ops:
            pid = op.get("p", 1)
            if op["k"] == "write":
                out.append(op)
                joined = bufs[pid] + op["text"]
                bufs[pid] = joined.rsplit("\n", 1)[-1]
            else:
                done, carry = split_carry(bufs[pid])
                vis = [t for t in lex(done) if t[0] == "c"]
                if vis or done == "":
                    out.append(op)
                    bufs[pid] = carry
        cleaned.append(out)
    cases = cleaned
    settings = [random_setting(chk.rng, ops) if st == "random" else st for ops, st in zip(cases, settings)]
    recs = []
    for ops, st in zip(cases, settings):
        recs.append(execute(ops, **st))
        if sum(1 for r in recs if r["events"] and r["events"][-1]["exc"] == "no-termination") >= 4:
            # every further history would cost another 10 s of CPU: the ones executed so far are judged
            chk.notes["stopped_after_nonterminating_calls"] = len(recs)
            break
    cases = cases[:len(recs)]
    verdicts, st = tlc.judge("Trace_FileProxy", recs)
    chk.add_tlc(st, "M3-fileproxy")
    chk.traces += len(recs)
    for ops, rec, v, st in zip(cases, recs, verdicts, settings):
        chk.case(("fileproxy", ops, repr(st)), any("\n" in o.get("text", "") for o in ops) and len(ops) > 1)
        if v != "ok":
            step = int(v.split(" ")[1]) if v.startswith("step ") else 0
            clause = v.split(": ")[-1]
            op = ops[step - 1] if 1 <= step <= len(ops) else {"k": "?"}
            pend = "".join(o.get("text", "") for o in ops[:step] if o.get("p", 1) == op.get("p", 1)).rsplit("\n", 1)[-1]
            shape = "markup" if "[" in pend else ("reset-m" if "\x1b[m" in "".join(o.get("text", "") for o in ops[:step]) else "plain")
            hw = st["how"].get(str(step - 1), "write") if op["k"] == "write" else ""
            sofar = "".join(o.get("text", "") for o in ops[:step] if o.get("p", 1) == op.get("p", 1))
            shape += (" link-reset" if re.search(r"\x1b\]8;[^;]*;[^\x1b]+\x1b\\(?:(?!\x1b\]8;).)*\x1b\[0?m", sofar, re.S) else "")
            shape += (" off-after-double" if re.search(r"\x1b\[(?:[0-9;]*;)?(?:21|6)m.*\x1b\[2[45]m", sofar, re.S) else "")
            shape += (" crlf" if "\r\n" in sofar else "") + (" csi" if re.search(r"\x1b\[[0-?]*[ -/]*[@-ln-~]", sofar) else "")
            chk.reject("fileproxy %s op=%s pending=%s%s%s%s" % (clause, op["k"] if hw in ("", "write") else hw, shape, "" if st["via"] == "direct" else " via=" + st["via"],
                                                              " narrow" if st["width"] < 300 else "", "" if all(st["redirect"]) else " one-stream-redirected"), v,
                       dict(st, part="fileproxy", ops=ops[:step] if step else ops))
    if cases:
        chk.sample(dict(part="fileproxy", ops=cases[-1], setting=settings[-1], console_output_events_of_last_call=recs[-1]["events"][-1]["out"][:20] if recs[-1]["events"] else []))


def _disarm_watchdog_at_exit():
    """engine/watch.py's repeating CPU tick is still armed when the interpreter shuts down; once Python has restored the default
    signal dispositions a tick kills the process (SIGVTALRM) and the exit status of a finished check is lost - seen after the
    thorough tier, whose 100 000 records take long to free.  Disarm it first (atexit runs before the handlers are restored)."""
    import atexit
    import signal
    atexit.register(lambda: signal.setitimer(signal.ITIMER_VIRTUAL, 0))


def run(chk: Check):
    _disarm_watchdog_at_exit()
    chk.rule = ("fileproxy: a case is (a list of write(chunk)/flush() calls on the stdout / stderr proxies, how they reach them): every chunking of a "
                "9-event stream into writes of 0..3 events with flushes (TLC-enumerated; directly and through a started Live / Progress display) plus "
                "random streams of 1..14 fragments (text, newlines, the SGR vocabulary incl. ESC[m, bright / 256 / 24-bit / default colours, every "
                "attribute with its off code, several parameters, leading zeros; OSC 8 hyperlinks; other CSI sequences; CRLF line ends; markup-, emoji-, repr- and URL-like text, "
                "brackets, backslashes, wide and combining characters) cut at arbitrary character positions (inside escape sequences, empty writes), "
                "written by write / print(end='') / writelines to proxies made directly or installed by Live / Progress (both streams or one "
                "redirected), on a wide console or one narrower than the lines; distinct by (op list, setting); non-trivial = more than one call "
                "and at least one newline")
    chk.trusted = ["engine/sgrlex.py (lexical tokeniser of both the written chunks and the console output)"]
    chk.assumptions = ["on a console wide enough the lines are compared exactly; on a narrow one blanks aside (word wrapping drops them at line ends)",
                       "BS/VT/FF and CR inside a line excluded (CR discards the line prefix by design)",
                       "a flush of a pending fragment that shows nothing (escape sequences only) is not judged",
                       "the display that redirects shows nothing itself (what the console writes is what the proxies print)",
                       "a carriage return only directly before a newline (CRLF line ends; elsewhere it means overwriting, which the statement does not determine)",
                       "held back until repaired in rich.ansi (TODO(audit-2) in drivers/c19.py): empty SGR parameters"]
    part = (chk.replay_only or {}).get("case", {}).get("part")
    if part in (None, "fileproxy"):
        fileproxy_part(chk)
    if part in (None, "decoder"):
        try:
            from drivers import c19_decoder
        except ImportError:
            c19_decoder = None
        if c19_decoder is not None:
            c19_decoder.decoder_part(chk)
