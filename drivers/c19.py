"""C19 - (a) the ANSI decoder inverts the encoder [decoder_part, built with C03];
(b) redirected stdout/stderr through FileProxy: every line exactly once, in order, complete, styled
as a terminal would have shown it, flush emits the pending partial line (FileProxy.tla)."""
import io

from engine import tlc
from engine.harness import Check
from engine.watch import Hang, cpu_deadline
from engine.sgrlex import lex

FRAGS = ["a", "b", "xy", " ", "\n", "\n", "\x1b[31m", "\x1b[1;32m", "\x1b[0m", "\x1b[m", "\x1b[38;5;200m", "\x1b[38;2;1;2;3m",
         "\x1b[4m", "\x1b[24m", "\x1b[44m", "[b]", "[/x]", "12", ":smile:", "'q'", "世", "\x1b[1m", "\x1b[22m"]


import re
_COMPLETE = re.compile(r"\x1b\[[0-9;]*[A-Za-z]|\x1b\][^\x1b\x07]*(?:\x1b\\\\|\x07)")


def execute(ops):
    """ops: [{"k": "write", "text": str} | {"k": "flush"}] on a real FileProxy + truecolor console."""
    from rich.console import Console
    from rich.file_proxy import FileProxy
    sink = io.StringIO()
    console = Console(file=sink, force_terminal=True, color_system="truecolor", width=300, _environ={}, legacy_windows=False)
    proxies = {1: FileProxy(console, io.StringIO()), 2: FileProxy(console, io.StringIO())}   # stdout / stderr
    pos = 0
    events = []
    carries = {1: "", 2: ""}    # an escape sequence cut by a chunk boundary belongs to the chunk that completes it
    for op in ops:
        pid = op.get("p", 1)
        proxy = proxies[pid]
        carry = carries[pid]
        e = dict(k=op["k"], exc="none", p=pid)
        try:
            if op["k"] == "write":
                text = carry + op["text"]
                cut = text.rfind("\x1b")
                if cut >= 0 and not _COMPLETE.match(text[cut:]):
                    carry, text = text[cut:], text[:cut]
                else:
                    carry = ""
                carries[pid] = carry
                e["chunk"] = lex(text)
                with cpu_deadline(10.0):
                    proxy.write(op["text"])
            else:
                with cpu_deadline(10.0):
                    proxy.flush()
        except Hang:
            # the call does not come back (10 s of CPU for a few dozen characters): judged as such, the history stops here
            e["exc"] = "no-termination"
            e["out"] = []
            events.append(e)
            break
        except Exception as ex:
            e["exc"] = type(ex).__name__
        v = sink.getvalue()
        if len(v) - pos > 20000:
            # far more output than anything written to the proxy: judged as such, and the history stops here
            e["out"] = lex(v[pos:pos + 2000])
            e["exc"] = "runaway-output"
            events.append(e)
            break
        e["out"] = lex(v[pos:])
        pos = len(v)
        events.append(e)
    return dict(events=events)


def split_points(rng, stream, maxchunks):
    cuts = sorted(rng.sample(range(0, len(stream) + 1), min(maxchunks - 1, len(stream) + 1))) if stream else []
    parts, prev = [], 0
    for c in cuts + [len(stream)]:
        parts.append(stream[prev:c])
        prev = c
    return parts


def random_ops(rng):
    stream = "".join(rng.choice(FRAGS) for _ in range(rng.randint(1, 14)))
    parts = split_points(rng, stream, rng.randint(1, 7))     # cuts at arbitrary character positions: inside escapes too
    ops = []
    pending_visible = False
    buf = ""
    for part in parts:
        ops.append(dict(k="write", text=part))
        buf = (buf + part).rsplit("\n", 1)[-1] if "\n" in (buf + part) else buf + part
        if rng.random() < 0.3:
            # flush only a pending line that shows something or nothing at all (escape-only fragments:
            # the statement does not say whether a blank line is due)
            vis = [t for t in lex(buf) if t[0] == "c"]
            complete = not buf.endswith("\x1b") and "\x1b" not in buf.rsplit("m", 1)[-1]
            if (vis and complete) or buf == "":
                ops.append(dict(k="flush"))
                buf = ""
    if rng.random() < 0.5:
        ops.append(dict(k="write", text="\n"))
    return ops


def two_proxy_ops(rng):
    """stdout and stderr proxies on one console: two independent streams, calls interleaved."""
    a = [dict(o, p=1) for o in random_ops(rng)]
    b = [dict(o, p=2) for o in random_ops(rng)]
    out = []
    while a or b:
        src = a if (a and (not b or rng.random() < 0.5)) else b
        out.append(src.pop(0))
    return out


def fileproxy_part(chk: Check):
    cases = []
    if chk.replay_only:
        cases.append(chk.replay_only["case"]["ops"])
    else:
        r, cov, missing = tlc.model_check("MC_FileProxy", require_actions=["WriteA", "FlushA"])
        chk.add_tlc(r, "M1-fileproxy-chunkings")
        if r.violated or missing:
            raise tlc.TLCFailure("MC_FileProxy violated=%s missing=%s" % (r.violated, missing))
        # M2: every chunking of the model's stream (write sizes 0..3, flushes), replayed on the real proxy
        cfgt = "CONSTANT GenDepth = %d\nSPECIFICATION Spec\nCONSTRAINT Emit\nCHECK_DEADLOCK FALSE\n"
        stream = "a\x1b[31mb\n\x1b[1mc\x1b[0m\nd"
        evs = ["a", "\x1b[31m", "b", "\n", "\x1b[1m", "c", "\x1b[0m", "\n", "d"]
        for depth in (chk.pick((4, 5), (4, 5, 6, 7))):
            behs, r2 = tlc.behaviours("MC_FileProxy", cfg_text=cfgt % depth)
            chk.add_tlc(r2, "M2-fileproxy")
            for b in behs:
                pos, ops = 0, []
                for o in b["beh"]:
                    if o["k"] == "write":
                        ops.append(dict(k="write", text="".join(evs[pos:pos + o["n"]])))
                        pos += o["n"]
                    else:
                        # a flush of an escape-only pending fragment is outside the judged domain
                        ops.append(dict(k="flush"))
                cases.append(ops)
        chk.notes["tlc_generated_chunkings"] = len(cases)
        for i in range(chk.pick(2500, 40000)):
            cases.append(two_proxy_ops(chk.rng) if i % 3 == 0 else random_ops(chk.rng))
    # drop flushes of escape-only pending text from TLC-generated cases (domain restriction, see random_ops)
    cleaned = []
    for ops in cases:
        bufs, out = {1: "", 2: ""}, []
        for op in ops:
            pid = op.get("p", 1)
            if op["k"] == "write":
                out.append(op)
                joined = bufs[pid] + op["text"]
                bufs[pid] = joined.rsplit("\n", 1)[-1]
            else:
                vis = [t for t in lex(bufs[pid]) if t[0] == "c"]
                if vis or bufs[pid] == "":
                    out.append(op)
                    bufs[pid] = ""
        cleaned.append(out)
    cases = cleaned
    recs = []
    for ops in cases:
        recs.append(execute(ops))
        if sum(1 for r in recs if r["events"] and r["events"][-1]["exc"] == "no-termination") >= 4:
            # every further history would cost another 10 s of CPU: the ones executed so far are judged
            chk.notes["stopped_after_nonterminating_calls"] = len(recs)
            break
    cases = cases[:len(recs)]
    verdicts, st = tlc.judge("Trace_FileProxy", recs)
    chk.add_tlc(st, "M3-fileproxy")
    chk.traces += len(recs)
    for ops, rec, v in zip(cases, recs, verdicts):
        chk.case(("fileproxy", ops), any("\n" in o.get("text", "") for o in ops) and len(ops) > 1)
        if v != "ok":
            step = int(v.split(" ")[1]) if v.startswith("step ") else 0
            clause = v.split(": ")[-1]
            op = ops[step - 1] if 1 <= step <= len(ops) else {"k": "?"}
            pend = "".join(o.get("text", "") for o in ops[:step] if o.get("p", 1) == op.get("p", 1)).rsplit("\n", 1)[-1]
            shape = "markup" if "[" in pend else ("reset-m" if "\x1b[m" in "".join(o.get("text", "") for o in ops[:step]) else "plain")
            chk.reject("fileproxy %s op=%s pending=%s" % (clause, op["k"], shape), v, dict(part="fileproxy", ops=ops[:step] if step else ops))
    if cases:
        chk.sample(dict(part="fileproxy", ops=cases[-1], console_output_events_of_last_call=recs[-1]["events"][-1]["out"][:20] if recs[-1]["events"] else []))


def run(chk: Check):
    chk.rule = ("fileproxy: a case is a list of write(chunk)/flush() calls: every chunking of a 9-event stream into writes of 0..3 events with "
                "flushes (TLC-enumerated) plus random streams of 1..14 fragments (text, newlines, SGR sequences incl. ESC[m, 256/24-bit colours, "
                "markup-like and emoji-like text, digits, quotes, wide characters) cut at arbitrary character positions (inside escape sequences, "
                "empty writes); distinct by op list; non-trivial = more than one call and at least one newline")
    chk.trusted = ["engine/sgrlex.py (lexical tokeniser of both the written chunks and the console output)"]
    chk.assumptions = ["console wide enough not to wrap", "CR/BS/VT/FF excluded (CR discards the line prefix by design)",
                       "a flush of a pending fragment that shows nothing (escape sequences only) is not judged"]
    part = (chk.replay_only or {}).get("case", {}).get("part")
    if part in (None, "fileproxy"):
        fileproxy_part(chk)
    if part in (None, "decoder"):
        try:
            from drivers import c19_decoder
        except ImportError:
            c19_decoder = None
        if c19_decoder is not None:
            c19_decoder.decoder_part(chk)
