"""C10 - Live / Progress / Status displays.  Histories (TLC-enumerated and random, with fault
injection) run on the real classes writing to a terminal console; every write is tokenised into
terminal operations which TLC plays on Screen.tla and compares with Live.tla (Trace_Live)."""
import io
import sys

from engine import tlc
from engine.harness import Check
from engine.termlex import lex

ACTIONS = ["StartA", "PrintA", "UpdateA", "RefreshA", "BreakA", "StopA"]
W = 40


def P(k, i):
    return 1000000 + k * 10 + i


def F(k, i):
    return 2000000 + k * 10 + i


def label_text(idv):
    if idv == 0:
        return ""
    kind = "P" if idv // 1000000 == 1 else "F"
    r = idv % 1000000
    return "%s%d.%d" % (kind, r // 10, r % 10)


class Tap(io.StringIO):
    """Console.file: remembers what was written since the last take()."""

    def __init__(self):
        super().__init__()
        self.pos = 0

    def take(self):
        v = self.getvalue()
        out = v[self.pos:]
        self.pos = len(v)
        return out


class BodyError(Exception):
    pass


class RenderError(Exception):
    pass


def wide_text(idv, width=W):
    """the label followed by filler that runs past the terminal's last column (only the display can keep that off the screen)"""
    t = label_text(idv)
    return t + " " + "w" * (width + 7) if t else t


def frame_renderable(rows, flaky, wide=False, width=W):
    """A renderable showing one label per row; raises RenderError while flaky['broken'].  wide: every row is longer than
    the terminal is wide and does not shorten itself (overflow="ignore")."""
    from rich.console import RenderGroup
    from rich.text import Text

    class Rows:
        def __init__(self, rows):
            self.rows = rows

        def __rich_console__(self, console, options):
            if flaky["broken"]:
                raise RenderError("render")
            if wide:
                yield RenderGroup(*[Text(wide_text(r, width), overflow="ignore", no_wrap=True) for r in self.rows])
            else:
                yield RenderGroup(*[Text(label_text(r), overflow="crop", no_wrap=True) for r in self.rows])
    return Rows(rows)


def execute(spec, ops):
    """spec: dict(cls, mode, transient, overflow, H); ops: list.  Returns the trace record."""
    from rich.console import Console
    from rich.live import Live
    from rich.progress import Progress, TextColumn
    from rich.status import Status
    tap = Tap()
    Wd = spec.get("W", W)
    redirect = spec.get("redirect", True) or spec["cls"] == "status"       # Status has no redirect options: always on
    console = Console(file=tap, force_terminal=True, width=Wd, height=spec["H"], color_system=None, _environ={})
    flaky = dict(broken=False)
    cls = spec["cls"]
    if cls == "live":
        disp = Live(frame_renderable([0], flaky), console=console, auto_refresh=False, transient=spec["transient"],
                    vertical_overflow=spec["overflow"], redirect_stdout=redirect, redirect_stderr=redirect)
    elif cls == "progress":
        class FlakyColumn(TextColumn):
            def render(self, task):
                if flaky["broken"]:
                    raise RenderError("render")
                return super().render(task)
        disp = Progress(FlakyColumn("{task.description}"), console=console, auto_refresh=False, transient=spec["transient"],
                        redirect_stdout=redirect, redirect_stderr=redirect)
    else:
        disp = Status("F0.1", console=console, spinner=spec.get("spinner", "dots"))
        disp._live.auto_refresh = False
    dummy_out, dummy_err = io.StringIO(), io.StringIO()
    real_out, real_err = sys.stdout, sys.stderr
    sys.stdout, sys.stderr = dummy_out, dummy_err
    events = []
    taskids = {}
    reused = [None]
    try:
        tap.take()
        queue = list(ops)
        aborted = False
        while queue:
            op = queue.pop(0)
            e = dict(op)
            e["exc"] = "none"
            k = op["k"]
            if "broken" in op:
                flaky["broken"] = op["broken"]
            e["broken"] = flaky["broken"]
            try:
                if k == "start":
                    disp.start()
                elif k in ("stop", "exit"):
                    if k == "exit" and op.get("bodyexc"):
                        try:
                            try:
                                raise BodyError("body")
                            except BodyError as ex:
                                swallowed = disp.__exit__(type(ex), ex, ex.__traceback__)
                            e["propagated"] = not swallowed
                        except BaseException as ex2:   # stop() itself raised: an exception still propagates
                            e["propagated"] = True
                            e["exc"] = type(ex2).__name__
                    else:
                        disp.stop()
                        e["propagated"] = True
                elif k == "print":
                    if op.get("bare"):
                        console.print()          # no arguments: a blank line - still a print the display has to make room for
                    else:
                        console.print("\n".join(label_text(i) for i in op["ids"]))
                elif k == "log":
                    if op.get("bare"):
                        console.log()
                    else:
                        console.log(label_text(op["ids"][0]))
                elif k == "stdout":
                    (sys.stderr if op.get("err") else sys.stdout).write("".join(label_text(i) + "\n" for i in op["ids"]))
                    if not redirect or not getattr(disp._live if cls == "status" else disp, "_started", False):
                        e["k"] = "nop"     # not redirected (option off / display not running): the text goes to the real stream, not the screen
                elif k == "update":
                    if cls == "status":
                        kw = dict(spinner=op["spinner"]) if op.get("spinner") else {}
                        disp.update(status="\n".join(label_text(r) for r in op["rows"]), **kw)
                    elif spec.get("reuse"):
                        # the SAME renderable object, changed in place and handed over again (a Table the user keeps adding rows to)
                        if reused[0] is None:
                            reused[0] = frame_renderable(op["rows"], flaky, wide=spec.get("wide", False), width=Wd)
                        reused[0].rows = op["rows"]
                        disp.update(reused[0], refresh=op["refresh"])
                    else:
                        disp.update(frame_renderable(op["rows"], flaky, wide=spec.get("wide", False), width=Wd), refresh=op["refresh"])
                elif k == "refresh":
                    if cls == "status":
                        disp._live.refresh()
                    else:
                        disp.refresh()
                elif k == "add":
                    taskids[op["id"]] = disp.add_task(wide_text(op["label"], Wd) if spec.get("wide") else label_text(op["label"]))
                elif k == "relabel":
                    disp.update(taskids[op["id"]], description=wide_text(op["label"], Wd) if spec.get("wide") else label_text(op["label"]))
                elif k == "hide":
                    disp.update(taskids[op["id"]], visible=False)
                elif k == "show":
                    disp.update(taskids[op["id"]], visible=True)
                elif k == "remove":
                    disp.remove_task(taskids.pop(op["id"]))
                elif k == "advance":
                    disp.advance(taskids[op["id"]], 1)
            except BaseException as ex:
                e["exc"] = type(ex).__name__
            e["term"] = lex(tap.take())
            e["hooks"] = len(console._render_hooks)
            e["restored"] = sys.stdout is dummy_out and sys.stderr is dummy_err
            e["swallowed_stdout"] = dummy_out.getvalue()
            if "propagated" not in e:
                e["propagated"] = True
            if "bodyexc" not in e:
                e["bodyexc"] = False
            events.append(e)
            if e["exc"] != "none" and k not in ("stop", "exit") and not aborted:
                # an exception inside the with-block leaves the block: nothing else runs but its exit
                aborted = True
                live = disp._live if cls == "status" else disp
                # a fault injected into the renders of this one call only: the renderable works again when the block is left
                healed = dict(broken=False) if queue and queue[0].get("broken") is False else {}
                queue = [dict(k="exit", bodyexc=True, **healed)] if getattr(live, "_started", False) else []
    finally:
        sys.stdout, sys.stderr = real_out, real_err
    return dict(mode=spec["mode"], transient=spec["transient"], overflow=spec["overflow"], H=spec["H"], W=Wd, cls=cls, events=events,
                cur0=[F(0, 1)] if cls == "status" else ([] if cls == "progress" else [0]))


# ---- history generation ----------------------------------------------------------------------

def from_tlc(beh, cls):
    """MC_Live history -> ops for the real classes."""
    ops = []
    for o in beh:
        k = o["k"]
        if k == "print":
            ops.append(dict(k="print", ids=[P(o["id"], i) for i in range(1, o["n"] + 1)]))
        elif k == "update":
            rows = [0 if (o["blank"] and i == o["h"]) else F(o["id"], i) for i in range(1, o["h"] + 1)]
            ops.append(dict(k="update", rows=rows, refresh=o["refresh"]))
        elif k == "break":
            ops.append(dict(k="nop", broken=True))
        else:
            ops.append(dict(k=k))
    return ops


def random_history(rng, spec, n, faults):
    cls = spec["cls"]
    ops, np_, nf, nt = [], 0, 0, 0
    started, ever = False, False
    tasks = []
    broke_at = rng.randrange(n) if faults and rng.random() < 0.5 else -1
    # "an exception injected at every render call index": half of the faults hit the renders of ONE call only - the renderable
    # works again from the next call on (the display goes on being used with whatever the failed call left behind)
    heals_at = broke_at + 1 if broke_at >= 0 and rng.random() < 0.5 else -1
    body_at = rng.randrange(1, n + 1) if faults and rng.random() < 0.5 else -1
    for j in range(n):
        if j == body_at and started:
            ops.append(dict(k="exit", bodyexc=True))
            started = False
            break
        choices = ["print", "print", "log", "refresh"]
        if cls == "live":
            choices += ["update", "update", "update"]
        elif cls == "progress":
            choices += ["add", "add", "advance"] + (["hide", "show", "remove", "relabel"] if tasks else [])
        else:
            choices += ["update"]
        if started:
            choices += ["stop", "stdout"]
        elif not ever:
            choices += ["start", "start", "start"]
        else:
            choices += ["start"]            # a stopped display may be started again
        k = rng.choice(choices)
        op = dict(k=k)
        if j == broke_at:
            op["broken"] = True
        elif j == heals_at:
            op["broken"] = False
        if k == "start":
            started, ever = True, True
        elif k == "stop":
            started = False
        elif k in ("print", "stdout"):
            np_ += 1
            op["ids"] = [P(np_, i) for i in range(1, rng.choice([1, 1, 2, 3]) + 1)]
            if k == "stdout" and rng.random() < 0.4:
                op["err"] = True
            if k == "print" and rng.random() < 0.12:
                op.update(bare=True, ids=[0])
        elif k == "log":
            np_ += 1
            op["ids"] = [P(np_, 1)]
            if rng.random() < 0.12:
                op.update(bare=True, ids=[0])
        elif k == "update":
            nf += 1
            h = rng.choice([1, 1, 1, 2, 3]) if cls == "status" else rng.choice([1, 1, 2, 3, 4, 5])
            op["rows"] = [0 if (rng.random() < 0.15 and cls != "status") else F(nf, i) for i in range(1, h + 1)]
            op["refresh"] = True if cls == "status" else rng.random() < 0.6
            if cls == "status" and rng.random() < 0.3:
                op["spinner"] = rng.choice(["dots", "line", "bouncingBar", "moon", "clock", "point"])
        elif k == "add":
            nt += 1
            op["id"] = nt
            op["label"] = F(nt, 1)
            tasks.append(nt)
        elif k in ("hide", "show", "advance", "relabel"):
            op["id"] = rng.choice(tasks) if tasks else 0
            if not tasks:
                op["k"] = "refresh"
            elif k == "relabel":
                nt2 = 500 + j
                op["label"] = F(nt2, 1)
        elif k == "remove":
            op["id"] = tasks.pop(rng.randrange(len(tasks)))
        ops.append(op)
    if started:
        ops.append(dict(k="exit", bodyexc=False) if rng.random() < 0.5 else dict(k="stop"))
    return ops


SPECS = [
    dict(cls="live", mode="last", transient=False, overflow="ellipsis", H=3),
    dict(cls="live", mode="last", transient=True, overflow="crop", H=3),
    dict(cls="live", mode="last", transient=False, overflow="visible", H=2),
    dict(cls="live", mode="last", transient=True, overflow="ellipsis", H=25),
    dict(cls="progress", mode="max", transient=False, overflow="visible", H=25),
    dict(cls="progress", mode="max", transient=True, overflow="visible", H=3),
    dict(cls="status", mode="last", transient=True, overflow="ellipsis", H=25),
    # frames whose every row is wider than the terminal: the display has to keep them inside its last column
    dict(cls="live", mode="last", transient=False, overflow="ellipsis", H=25, wide=True),
    dict(cls="live", mode="last", transient=True, overflow="visible", H=4, wide=True),
    dict(cls="progress", mode="max", transient=False, overflow="visible", H=25, wide=True),
    dict(cls="live", mode="last", transient=False, overflow="ellipsis", H=25, reuse=True),
]


def random_spec(rng):
    """the whole product of the quantifier: class x transient x vertical_overflow x console height x terminal width x
    redirect options x frames wider than the terminal (x spinner)"""
    cls = rng.choice(["live", "live", "progress", "progress", "status"])
    spec = dict(cls=cls, mode="max" if cls == "progress" else "last",
                transient=True if cls == "status" else rng.random() < 0.5,
                overflow="ellipsis" if cls == "status" else ("visible" if cls == "progress" else rng.choice(["ellipsis", "crop", "visible"])),
                H=25 if cls == "status" else rng.choice([2, 3, 4, 25]), W=rng.choice([40, 40, 60, 100]),
                redirect=rng.random() < 0.8)
    if cls != "status" and rng.random() < 0.25:
        spec["wide"] = True
    if cls == "live" and rng.random() < 0.3:
        spec["reuse"] = True
    if cls == "status" and rng.random() < 0.5:
        spec["spinner"] = rng.choice(["line", "bouncingBar", "moon", "clock", "point", "arrow3"])
    return spec


def sig_shape(spec, ops, step):
    op = ops[step - 1] if 1 <= step <= len(ops) else {"k": "?"}
    restart = sum(1 for o in ops[:step] if o["k"] == "start") > 1
    return "op=%s cls=%s%s" % (op["k"], spec["cls"], " restart" if restart else "")


def run(chk: Check):
    chk.rule = ("a case is (display class, transient, vertical_overflow, console height and width, redirect options, frames wider than the "
                "terminal or not, operation list); lists are every history of "
                "MCDepth calls of MC_Live replayed on Live, plus seeded random histories (<= 40 calls) over print / log / redirected "
                "stdout / update / refresh / add / hide / show / remove / advance / start / stop for Live, Progress and Status, with a "
                "renderable that starts raising at a random call and a body exception at a random position; distinct by (spec, ops); "
                "non-trivial = the display was started and at least one frame drawn")
    chk.trusted = ["engine/termlex.py (byte stream -> terminal operations; labels by regex; unlabelled text ignored)",
                   "drivers/c10.py:execute (hook count and sys.stdout identity read after each call)"]
    chk.assumptions = ["unbounded scroll-back (cursor-up never clamps)", "the terminal auto-wraps text written past its last column (Screen.tla: tw / col); printed lines are labels shorter than the width",
                       "auto_refresh off: refresh timing is C11's subject"]
    cases = []
    if chk.replay_only:
        c = chk.replay_only["case"]
        cases.append((c["spec"], c["ops"]))
    else:
        base = open(tlc.SPECS + "/MC_Live.cfg").read()
        gen = "CONSTANTS\n  Mode = \"%s\"\n  Transient = %s\n  Overflow = \"%s\"\n  Height = 2\n  MCDepth = 0\n  GenDepth = %d\n  AllowRestart = TRUE\nSPECIFICATION Spec\nCONSTRAINT Emit2\nCHECK_DEADLOCK FALSE\n"
        for mode, tr, ov in [("last", "FALSE", "ellipsis"), ("last", "TRUE", "crop"), ("max", "FALSE", "visible"), ("max", "TRUE", "visible")]:
            cfg = base.replace('Mode = "last"', 'Mode = "%s"' % mode).replace("Transient = FALSE", "Transient = %s" % tr) \
                      .replace('Overflow = "ellipsis"', 'Overflow = "%s"' % ov).replace("MCDepth = 6", "MCDepth = %d" % chk.pick(5, 7)) \
                      .replace("AllowRestart = FALSE", "AllowRestart = TRUE")
            r, cov, missing = tlc.model_check("MC_Live", cfg_text=cfg, require_actions=ACTIONS)
            chk.add_tlc(r, "M1-%s-%s" % (mode, "transient" if tr == "TRUE" else "persistent"))
            if r.violated or missing:
                raise tlc.TLCFailure("MC_Live %s %s violated=%s missing=%s\n%s" % (mode, tr, r.violated, missing, r.out[-3000:]))
            if mode == "last":
                # every history of 3 calls (thorough: 4), plus simulated behaviours of 10 calls
                behs, r2 = tlc.behaviours("MC_Live", cfg_text=gen % (mode, tr, ov, chk.pick(3, 4)), timeout=3000)
                chk.add_tlc(r2, "M2-%s" % mode)
                sims, r3 = tlc.behaviours("MC_Live", cfg_text=gen % (mode, tr, ov, 10), simulate="num=%d" % chk.pick(300, 8000),
                                          depth=12, seed=chk.seed + 1, timeout=3000)
                chk.add_tlc(r3, "M2-simulate-%s" % mode)
                spec = dict(cls="live", mode="last", transient=tr == "TRUE", overflow=ov, H=2)
                for b in behs + sims:
                    cases.append((spec, from_tlc(b["beh"], "live")))
        chk.notes["tlc_generated_histories"] = len(cases)
        chk.mark("M1+M2")
        for i in range(chk.pick(1500, 25000)):
            spec = chk.rng.choice(SPECS) if i % 2 else random_spec(chk.rng)
            cases.append((spec, random_history(chk.rng, spec, chk.rng.randint(2, chk.pick(16, 40)), faults=i % 3 == 0)))
    recs = []
    for spec, ops in cases:
        rec = execute(spec, ops)
        recs.append(rec)
        drawn = any(t[0] == "t" and t[1] // 1000000 == 2 for e in rec["events"] for t in e["term"])
        chk.case((spec, ops), drawn)
    chk.mark("execute")
    verdicts, st = tlc.judge("Trace_Live", [dict(r, events=[{k: v for k, v in e.items() if k != "swallowed_stdout"} for e in r["events"]]) for r in recs])
    chk.add_tlc(st, "M3")
    chk.mark("judge")
    chk.traces += len(recs)
    for (spec, ops), rec, v in zip(cases, recs, verdicts):
        if v != "ok":
            step = int(v.split(" ")[1]) if v.startswith("step ") else 0
            clause = v.split(": ")[-1]
            chk.reject("%s %s" % (clause, sig_shape(spec, ops, step)), v, dict(spec=spec, ops=ops[:step] if step else ops))
    if cases:
        chk.sample(dict(spec=cases[0][0], ops=cases[0][1], terminal_ops_of_last_call=recs[0]["events"][-1]["term"][:30]))
        chk.sample(dict(spec=cases[-1][0], ops=cases[-1][1][:12]))
