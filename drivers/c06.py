"""C06 - styles: algebra, string round trip, eq/hash consistency.

M1  MC_Style (laws over all triples of a small domain; construction-routes machine, design refinement)
M2  MC_Style with CONSTRAINT Emit prints every construction route of GenDepth steps as JSON
M3  Trace_Style judges records of what the real rich.style.Style did:
      triple  a, b, c and every sum of them (right bias, associativity, identity, combine/chain)
      route   a TLC-generated route rebuilt with real constructors, step by step (every route of 3 calls; TLC-simulated
              and seeded random routes of 4..8 calls over every public route kind, hash()/str() taken mid-route)
      class   the end results of several routes that the model sends to the same abstract style
      gram    a style definition (token sequence) and what Style.parse made of it
    every record also carries ==/hash() observations for pairs of its objects and str()/normalize()
    round trips.  Python only drives, lexes and projects; TLC gives the verdicts.
"""
import hashlib
import itertools
import json
import re
import time
from concurrent.futures import ThreadPoolExecutor

from engine import tlc
from engine.harness import Check

# ---- the documented vocabulary (docs/source/style.rst + the statement of C06) ----------------
ATTRS = ["bold", "dim", "italic", "underline", "blink", "blink2", "reverse", "conceal", "strike",
         "underline2", "frame", "encircle", "overline"]            # str() order; spec attribute = index + 1
SPELL = {"bold": ["bold", "b"], "dim": ["dim", "d"], "italic": ["italic", "i"], "underline": ["underline", "u"],
         "blink": ["blink"], "blink2": ["blink2"], "reverse": ["reverse", "r"], "conceal": ["conceal", "c"],
         "strike": ["strike", "s"], "underline2": ["underline2", "uu"], "frame": ["frame"],
         "encircle": ["encircle"], "overline": ["overline", "o"]}
WORD_ATTR = {w: ATTRS.index(a) + 1 for a, ws in SPELL.items() for w in ws}
KEYWORDS = ("not", "on", "link", "none")
COLOR_TABLE_DIGEST = "b09f0f15e2be1c11131c0cdf57bde62ad4c2703b"    # ANSI_COLOR_NAMES of 9.10.0 (pin -> DRIFT)
URLS = ["https://example.org/a", "http://x.y/?q=1#f", "bold", "file:///tmp/R%20ich",
        "on", "none", "link", "not", "default", "#frag", "HTTP://EXAMPLE.ORG/A", "https://example.org/a;b=c,d"]
URLS0 = URLS[:4]
URLS_E = URLS + ["", ""]        # "" : an empty link is no link (Style(link="") / update_link("")); never written into a definition
NULLP = dict(attrs=["U"] * 13, fg=[], bg=[], link=0)

RE_NUM = re.compile(r"color\((0|[1-9][0-9]{0,2})\)")
RE_HEX = re.compile(r"#([0-9a-f]{2})([0-9a-f]{2})([0-9a-f]{2})")
RE_RGB = re.compile(r"rgb\((0|[1-9][0-9]{0,3}),(0|[1-9][0-9]{0,3}),(0|[1-9][0-9]{0,3})\)")


class Env:
    """The tree under test plus the lexer state (word ids)."""

    def __init__(self):
        from rich.style import Style
        from rich.color import Color, ANSI_COLOR_NAMES
        from rich import errors
        self.Style, self.Color, self.errors = Style, Color, errors
        self.table = dict(ANSI_COLOR_NAMES)
        self.name_idx = {n: i + 1 for i, n in enumerate(ANSI_COLOR_NAMES)}
        self.digest = hashlib.sha1(json.dumps(list(ANSI_COLOR_NAMES.items())).encode()).hexdigest()
        self.ids = {}
        try:
            str(Style.null())      # the shared null style always has its definition cached (steady state of any program)
        except Exception:
            pass

    # -- lexer (independent of rich's parser) ---------------------------------------------------
    def wid(self, s):
        return self.ids.setdefault(s, len(self.ids) + 1)

    def color_word(self, name):
        """exact colour word -> <<sp, k, n, r, g, b>> or None"""
        if name == "default":
            return [0, 0, -1, -1, -1, -1]
        if name in self.table:
            return [1, self.name_idx[name], self.table[name], -1, -1, -1]
        m = RE_NUM.fullmatch(name)
        if m:
            return [2, 0, int(m.group(1)), -1, -1, -1]
        m = RE_HEX.fullmatch(name)
        if m:
            return [3, 0, -1] + [int(g, 16) for g in m.groups()]
        m = RE_RGB.fullmatch(name)
        if m:
            return [4, 0, -1] + [int(g) for g in m.groups()]
        return None

    def lex_word(self, w):
        low = w.lower()
        tok = dict(w=self.wid(w), up=(low != w))
        if low in KEYWORDS:
            tok["t"] = low
        elif low in WORD_ATTR:
            tok["t"], tok["a"] = "attr", WORD_ATTR[low]
        else:
            c = self.color_word(low)
            if c is not None:
                tok["t"], tok["c"] = "color", c
            else:
                tok["t"] = "word"
        return tok

    def lex(self, definition):
        return [self.lex_word(w) for w in definition.split()]

    # -- projection of real objects (public getters only) -----------------------------------------
    def proj_color(self, c):
        if c is None:
            return []
        t = c.triplet
        w = self.color_word(c.name) if isinstance(c.name, str) else None
        sp, k = (w[0], w[1]) if w else (9, self.wid(str(c.name)))
        return [int(c.type), -1 if c.number is None else int(c.number)] + (
            [int(t[0]), int(t[1]), int(t[2])] if t is not None else [-1, -1, -1]) + [sp, k]

    def proj(self, s):
        tri = {None: "U", True: "T", False: "F"}
        return dict(attrs=[tri.get(getattr(s, a), "T" if getattr(s, a) else "F") for a in ATTRS],
                    fg=self.proj_color(s.color), bg=self.proj_color(s.bgcolor),
                    link=0 if s.link is None else self.wid(s.link))

    def out(self, fn):
        try:
            x = fn()
        except Exception as e:            # a crash inside Rich is an observation
            return None, dict(ok=False, st=NULLP, err=type(e).__name__)
        try:
            return x, dict(ok=True, st=self.proj(x), err="none")
        except Exception as e:
            return None, dict(ok=False, st=NULLP, err="proj:" + type(e).__name__)

    def clear_caches(self):
        for f in (self.Style.parse, self.Style.normalize, self.Color.parse):
            if hasattr(f, "cache_clear"):
                f.cache_clear()

    # -- helpers on real styles -----------------------------------------------------------------
    def canon(self, x):
        """the same style built from keywords out of x's public fields"""
        return self.Style(color=x.color, bgcolor=x.bgcolor, link=x.link, **{a: getattr(x, a) for a in ATTRS})

    def pair(self, objs, i, j):
        try:
            eq = bool(objs[i] == objs[j])
        except Exception:
            eq = False
        try:
            heq = hash(objs[i]) == hash(objs[j])
            if eq and heq:      # ... and the one is found where the other is the key of a dict / member of a set
                heq = objs[j] in {objs[i]: 0} and objs[i] in {objs[j]}
        except Exception:
            heq = False
        return dict(i=i + 1, j=j + 1, eq=eq, heq=heq)

    def roundtrip(self, x, i, definition=None):
        """str()/normalize() round trip of x (= objs[i]); definition: the text x was parsed from."""
        S = self.Style
        try:
            text = str(x)
        except Exception as e:
            return dict(i=i + 1, str=[], back=dict(ok=False, st=NULLP, err="str:" + type(e).__name__),
                        eq=False, nback=dict(ok=False, st=NULLP, err="none"), neq=False)
        back, bo = self.out(lambda: S.parse(text))
        d = text if definition is None else definition
        nb, no = self.out(lambda: S.parse(S.normalize(d)))
        ref = back if definition is None else x
        return dict(i=i + 1, str=self.lex(text), back=bo, eq=bool(back is not None and back == x),
                    nback=no, neq=bool(nb is not None and ref is not None and nb == ref))


def word_color(w):
    """Python rendition of Style!WordColor, used only to write down the style a keyword call names."""
    sp, k, n, r, g, b = w
    if sp == 0:
        return [0, -1, -1, -1, -1, 0, 0]
    if sp in (1, 2):
        return [1 if n < 16 else 2, n, -1, -1, -1, sp, k if sp == 1 else 0]
    return [3, -1, r, g, b, sp, 0]


# ---- real colours ---------------------------------------------------------------------------------
def color_pool(env, rng, n_extra):
    names = list(env.table)
    pool = ["default", "red", "bright_white", "black", "grey0", "grey93", "navy_blue",
            "color(0)", "color(7)", "color(8)", "color(15)", "color(16)", "color(255)",
            "#000000", "#ffffff", "#af00ff", "rgb(175,0,255)", "rgb(0,0,0)", "rgb(255,255,255)", "rgb(1,2,3)", "#010203"]
    pool = [p for p in pool if env.color_word(p)]
    for _ in range(n_extra):
        k = rng.randrange(4)
        if k == 0:
            pool.append(rng.choice(names))
        elif k == 1:
            pool.append("color(%d)" % rng.randrange(256))
        elif k == 2:
            pool.append("#%02x%02x%02x" % tuple(rng.randrange(256) for _ in range(3)))
        else:
            pool.append("rgb(%d,%d,%d)" % tuple(rng.randrange(256) for _ in range(3)))
    return pool


COLOR_HOWS = ["str", "str", "obj", "ctor", "upper", "padded", "objupper", "triplet", "float",
              "blanks0", "blanks1", "blanks2", "objblanks0", "objblanks1", "objblanks2"]
OBJ_HOWS = ["obj", "ctor", "objupper", "triplet", "float", "objblanks0", "objblanks1", "objblanks2"]


def blank_rgb(spelling, k):
    """rgb(r,g,b) spelled with white space inside the parentheses (Color.parse accepts it; a style definition cannot
    carry it, since definitions are split at white space); other colours: padded"""
    m = RE_RGB.fullmatch(spelling)
    if not m:
        return " %s " % spelling
    return ["rgb(%s, %s, %s)", "RGB( %s,%s,%s )", "rgb(%s,\t%s,\t%s)"][k % 3] % m.groups()


def empty_link(c):
    """does the case hand over an empty link? (tag of the signatures)"""
    if isinstance(c, dict):
        return c.get("link") == "" or c.get("url") == "" or any(empty_link(v) for v in c.values())
    return isinstance(c, list) and any(empty_link(v) for v in c)


def rgb_with_whitespace(c):
    """does the case hand over an rgb() colour spelled with white space? (tag of the signatures)"""
    if isinstance(c, dict):
        if "blanks" in str(c.get("cv", "")) and any(str(c.get(f) or "").startswith("rgb(") for f in ("color", "bgcolor", "fgs", "bgs")):
            return True
        return any(rgb_with_whitespace(v) for v in c.values())
    if isinstance(c, list):
        return any(rgb_with_whitespace(v) for v in c)
    return False


def color_arg(env, spelling, how):
    """how a colour is handed to a constructor: the spelling (as it is / upper case / blank padded: Color.parse is documented
    to take them all to the same colour), a parsed Color, or a Color factory (default / from_ansi / from_rgb / from_triplet)"""
    C = env.Color
    if spelling is None:
        return None
    if how == "str":
        return spelling
    if how == "upper":
        return spelling.upper()
    if how == "padded":
        return " %s\t" % spelling
    if how.startswith("blanks"):
        return blank_rgb(spelling, int(how[-1]))
    if how.startswith("objblanks"):
        return C.parse(blank_rgb(spelling, int(how[-1])))
    w = env.color_word(spelling)
    if how == "objupper":
        return C.parse(spelling.upper())
    if how in ("ctor", "triplet", "float"):
        if w[0] == 0:
            return C.default()
        if w[0] == 2:
            return C.from_ansi(w[2])
        if w[0] == 3:
            if how == "triplet":
                from rich.color_triplet import ColorTriplet
                return C.from_triplet(ColorTriplet(w[3], w[4], w[5]))
            if how == "float":
                return C.from_rgb(float(w[3]), float(w[4]), float(w[5]))
            return C.from_rgb(w[3], w[4], w[5])
    return C.parse(spelling)


def color_val(env, spelling, how="str"):
    if spelling is None:
        return []
    return word_color(env.color_word(spelling))


# ---- concrete cases ----------------------------------------------------------------------------------
# A concrete style description ("maker"): dict(kw={attr: bool}, color, bgcolor, link, via, cv, d)
def maker_abs(env, m):
    attrs = ["U"] * 13
    for a, v in m["kw"].items():
        attrs[ATTRS.index(a)] = "T" if v else "F"
    return dict(attrs=attrs, fg=color_val(env, m.get("color")), bg=color_val(env, m.get("bgcolor")),
                link=0 if not m.get("link") else env.wid(m["link"]))


def render_def(m, rng):
    """a definition string for a maker, groups in random order, spellings chosen at random"""
    groups = []
    for a, v in m["kw"].items():
        w = rng.choice(SPELL[a])
        groups.append([w] if v else ["not", w])
    if m.get("color") is not None:
        groups.append([m["color"]])
    if m.get("bgcolor") is not None:
        groups.append(["on", m["bgcolor"]])
    if m.get("link"):
        groups.append(["link", m["link"]])
    rng.shuffle(groups)
    words = [w for g in groups for w in g]
    if not words:
        return rng.choice(["none", "none", " none ", "\tnone\n"])
    r = rng.random()
    if r < 0.6:
        return rng.choice([" ", " ", "  "]).join(words)
    # any run of white space separates words; leading / trailing white space is no word
    out = rng.choice(["", "", " ", "\t", "\n "])
    for i, w in enumerate(words):
        out += w + (rng.choice([" ", "  ", "\t", "\n", " \t ", "\r\n"]) if i + 1 < len(words) else "")
    return out + rng.choice(["", "", " ", "\n", "\t "])


def make_real(env, m):
    """the real style a maker describes.  via: kwargs | parse | normparse, and the derived constructions (m["base"] is the
    maker the style is derived from; the description m itself is only used for labels - TLC gets projections)"""
    S = env.Style
    via = m.get("via", "kwargs")
    if via == "parse":
        return S.parse(m["d"])
    if via == "normparse":
        return S.parse(S.normalize(m["d"]))
    how = m.get("cv", "str")
    if via == "null":
        return S.null()
    if via == "fromcolor":
        how = how if how in OBJ_HOWS else "obj"
        return S.from_color(color_arg(env, m.get("color"), how), color_arg(env, m.get("bgcolor"), how))
    if via == "ulink":
        return make_real(env, m["base"]).update_link(m.get("link"))
    if via == "wc":
        return make_real(env, m["base"]).without_color
    if via == "copy":
        return make_real(env, m["base"]).copy()
    if via == "bgstyle":
        return make_real(env, m["base"]).background_style
    if via == "sum":
        return make_real(env, m["base"]) + make_real(env, m["right"])
    return S(color=color_arg(env, m.get("color"), how), bgcolor=color_arg(env, m.get("bgcolor"), how),
             link=m.get("link"), **m["kw"])


BATCH = 40000
KIND_ORDER = dict(route=0, gram=1, triple=2)
KIND_ORDER["class"] = 3
KIND_ORDER["pool"] = 4
REAL_ONLY = ("kw", "color", "bgcolor", "link", "via", "cv", "d", "fgs", "bgs", "url", "gen", "base", "right")
ALIAS_OPS = ("str", "hash", "addnone", "pick")          # calls that hand back the operand itself


def run_route(env, steps):
    """steps: concrete steps.  Returns (record for TLC, meta for signatures)."""
    S = env.Style
    env.clear_caches()
    pool, recs, early = [], [], []
    for st in steps:
        op = st["op"]
        if op in ("kwargs", "parse", "normparse"):
            fn = lambda: make_real(env, dict(st, via=op))
        elif op == "fromcolor":
            fn = lambda: S.from_color(color_arg(env, st["fgs"], st.get("cv", "obj")), color_arg(env, st["bgs"], st.get("cv", "obj")))
        elif op == "null":
            fn = lambda: S.null()
        elif op == "add":
            fn = lambda: pool[st["i"] - 1] + pool[st["j"] - 1]
        elif op == "addnone":
            fn = lambda: pool[st["i"] - 1] + None
        elif op == "pick":
            fn = lambda: S.pick_first(None, pool[st["i"] - 1], pool[st["j"] - 1])
        elif op == "bgstyle":
            fn = lambda: pool[st["i"] - 1].background_style
        elif op == "hash":
            def fn():
                early.append((st["i"] - 1, hash(pool[st["i"] - 1])))      # the hash as it is NOW, before later derivations
                return pool[st["i"] - 1]
        elif op == "chain":
            fn = lambda: S.chain(*[pool[i - 1] for i in st["ix"]])
        elif op == "combine":
            if st.get("gen"):       # combine takes any iterable
                fn = lambda: S.combine(pool[i - 1] for i in st["ix"])
            else:
                fn = lambda: S.combine([pool[i - 1] for i in st["ix"]])
        elif op == "copy":
            fn = lambda: pool[st["i"] - 1].copy()
        elif op == "ulink":
            fn = lambda: pool[st["i"] - 1].update_link(st["url"])
        elif op == "wc":
            fn = lambda: pool[st["i"] - 1].without_color
        elif op == "str":
            def fn():
                str(pool[st["i"] - 1])
                return pool[st["i"] - 1]
        else:
            raise ValueError(op)
        x, o = env.out(fn)
        e = {k: v for k, v in st.items() if k not in REAL_ONLY}
        # the spec-side description of the call (word ids are per process, so it is derived here)
        if op in ("kwargs", "parse", "normparse"):
            e["st"] = maker_abs(env, st)
        if op in ("parse", "normparse"):
            e["toks"] = env.lex(st["d"])
        if op == "fromcolor":
            e["fg"], e["bg"] = color_val(env, st["fgs"]), color_val(env, st["bgs"])
        if op == "ulink":
            e["l"] = 0 if not st["url"] else env.wid(st["url"])
        e["out"] = o
        recs.append(e)
        if x is None:
            break
        pool.append(x)
    n = len(pool)
    objs = list(pool)
    canon_ok = []
    for x in pool:
        try:
            objs.append(env.canon(x))
            canon_ok.append(True)
        except Exception:
            objs.append(x)
            canon_ok.append(False)
    pairs = [env.pair(objs, i, j) for i, j in itertools.combinations(range(len(objs)), 2)]
    # a hash taken mid-route is the hash of that style for good: against the object itself and its keyword twin, now
    for l, h in early:
        for j in (l, n + l):
            try:
                pairs.append(dict(i=l + 1, j=j + 1, eq=bool(objs[l] == objs[j]), heq=bool(h == hash(objs[j]))))
            except Exception:
                pass
    rts, seen = [], set()
    for i, x in enumerate(pool):
        if id(x) not in seen:
            seen.add(id(x))
            rts.append(env.roundtrip(x, i))
    rec = dict(k="route", steps=recs, objs=[env.proj(x) for x in objs], pairs=pairs, rts=rts)
    # labelling (not a verdict): the first step whose own result disagrees in hash with its keyword twin
    culprit = "none"
    for l in range(n):
        p = env.pair(objs, l, n + l)
        if p["eq"] and not p["heq"]:
            culprit = _shape(steps[l])
            break
    producer = []
    for l in range(n):
        st = steps[l]
        producer.append(producer[st["i"] - 1] if st["op"] in ALIAS_OPS else _shape(st))
    return rec, dict(culprit=culprit, producer=producer + ["kwargs"] * n, final=pool[-1] if n == len(steps) and pool else None)


def _shape(st):
    op = st["op"]
    if op == "ulink":
        return "ulink url=%s" % ("None" if st["url"] is None else "str" if st["url"] else "empty")
    if op == "fromcolor":
        return "fromcolor"
    return op


def maker_steps(m):
    """the construction of a maker (see make_real) written as a route"""
    via = m.get("via", "kwargs")
    if via in ("kwargs", "parse", "normparse"):
        return [dict(m, op=via)]
    if via == "null":
        return [dict(op="null")]
    if via == "fromcolor":
        return [dict(op="fromcolor", fgs=m.get("color"), bgs=m.get("bgcolor"), cv=m.get("cv", "obj") if m.get("cv") in OBJ_HOWS else "obj")]
    steps = maker_steps(m["base"])
    k = len(steps)
    if via == "sum":
        steps += maker_steps(m["right"])
        return steps + [dict(op="add", i=k, j=len(steps))]
    if via == "ulink":
        return steps + [dict(op="ulink", i=k, url=m.get("link"))]
    return steps + [dict(op=via, i=k)]


PRE = ["none", "none", "hash", "str", "both"]      # hash() / str() of the operands taken before the sums are built


def run_triple(env, case):
    S = env.Style
    env.clear_caches()
    ms = case["abc"]
    made = []
    for m in ms:
        x, o = env.out(lambda: make_real(env, m))
        if x is None:      # an operand could not even be built: judge its construction on its own, call by call
            return run_route(env, maker_steps(m))
        made.append(x)
    a, b, c = made
    for x in made:
        try:
            if case.get("pre") in ("hash", "both"):
                hash(x)
            if case.get("pre") in ("str", "both"):
                str(x)
        except Exception:
            pass
    ab, o_ab = env.out(lambda: a + b)
    bc, o_bc = env.out(lambda: b + c)
    def touched(t):      # the intermediate sum is hashed / printed before it is added to
        if case.get("pre") in ("hash", "both"):
            hash(t)
        if case.get("pre") in ("str", "both"):
            str(t)
        return t
    ab_c, o_ab_c = env.out(lambda: touched(a + b) + c)
    a_bc, o_a_bc = env.out(lambda: a + touched(b + c))
    an, o_an = env.out(lambda: a + S.null())
    na, o_na = env.out(lambda: S.null() + a)
    comb, o_comb = env.out(lambda: S.combine([a, b, c]))
    chain, o_chain = env.out(lambda: S.chain(a, b, c))

    def eq(x, y):
        try:
            return bool(x is not None and y is not None and x == y)
        except Exception:
            return False
    objs, labels, pairs, rts, at = [], [], [], [], {}
    for name, x, label in (("ab_c", ab_c, "add"), ("a_bc", a_bc, "add"), ("ab", ab, "add"), ("bc", bc, "add"),
                           ("comb", comb, "combine"), ("chain", chain, "chain"), ("a", a, ms[0].get("via", "kwargs")),
                           ("an", an, "add-null"), ("na", na, "null-add")):
        if x is None:
            continue
        at[name] = len(objs)
        objs.append(x)
        labels.append(label)
        try:
            objs.append(env.canon(x))
            labels.append("kwargs")
            pairs.append(env.pair(objs, at[name], at[name] + 1))
        except Exception:
            pass
    if "ab_c" in at and "a_bc" in at:
        pairs.append(env.pair(objs, at["ab_c"], at["a_bc"]))
    for name in ("ab_c", "ab", "a"):
        if name in at:
            rts.append(env.roundtrip(objs[at[name]], at[name]))
    rec = dict(k="triple", a=env.proj(a), b=env.proj(b), c=env.proj(c), ab=o_ab, bc=o_bc, ab_c=o_ab_c, a_bc=o_a_bc,
               an=o_an, na=o_na, comb=o_comb, chain=o_chain,
               eq_assoc=eq(ab_c, a_bc), eq_an=eq(an, a), eq_na=eq(na, a),
               objs=[env.proj(x) for x in objs], pairs=pairs, rts=rts)
    return rec, dict(labels=labels)


def run_gram(env, case):
    S = env.Style
    env.clear_caches()
    d = case["d"]
    if case.get("pre"):
        # the same definition in other letter cases was parsed earlier in this process (words are case-insensitive, a link target
        # is not): whatever parse() remembers between calls must not leak from one definition into another
        for v in (d.upper(), d.lower(), d.swapcase()):
            if v != d:
                try:
                    S.parse(v)
                except Exception:
                    pass
    x, o = env.out(lambda: S.parse(d))
    rec = dict(k="gram", toks=env.lex(d), out=o, objs=[], pairs=[], rts=[])
    if x is not None:
        objs = [x]
        try:
            objs.append(env.canon(x))
            rec["pairs"].append(env.pair(objs, 0, 1))
        except Exception:
            pass
        rec["objs"] = [env.proj(y) for y in objs]
        rec["rts"].append(env.roundtrip(x, 0, definition=d))
    return rec, {}


def run_class(env, case):
    """members: concrete routes that the model sends to the same abstract style"""
    finals, labels = [], []
    for steps in case["members"]:
        rec, meta = run_route(env, steps)
        if meta["final"] is not None:
            finals.append(meta["final"])
            labels.append(meta["culprit"])
    pairs = [env.pair(finals, i, j) for i, j in itertools.combinations(range(len(finals)), 2)]
    rec = dict(k="class", val=maker_abs(env, case["members"][0][0]), objs=[env.proj(x) for x in finals], pairs=pairs, rts=[])
    return rec, dict(labels=labels)


def spelling_groups(env):
    """groups of documented spellings of ONE terminal colour (strings and Color objects)"""
    C = env.Color
    from rich.color import ANSI_COLOR_NAMES
    by_num = {}
    for name, n in ANSI_COLOR_NAMES.items():
        by_num.setdefault(n, []).append(name)
    groups = []
    for n in (0, 1, 7, 8, 15, 16, 21, 100, 200, 231, 232, 255):
        groups.append(("num", sorted(by_num.get(n, []))[:3] + ["color(%d)" % n, C.from_ansi(n), C.parse("color(%d)" % n)]))
    for (r, g, b) in ((175, 0, 255), (0, 0, 0), (255, 255, 255), (1, 2, 3), (170, 0, 0)):
        from rich.color_triplet import ColorTriplet
        groups.append(("rgb", ["#%02x%02x%02x" % (r, g, b), "#%02X%02X%02X" % (r, g, b), "rgb(%d,%d,%d)" % (r, g, b), C.from_rgb(r, g, b),
                               C.from_triplet(ColorTriplet(r, g, b)), C.parse("rgb(%d,%d,%d)" % (r, g, b))]))
    groups.append(("default", ["default", C.default(), C.parse("default")]))
    return groups


def run_pool(env, case):
    """every spelling of one colour as foreground / background, by keyword, by definition, by from_color, alone and with equal
    attributes and link on both sides; ==/hash observed for every pair of one slot"""
    S = env.Style
    kind, spellings = spelling_groups(env)[case["g"]]
    objs, labels = [], []
    for slot in case["slots"]:
        for sp in spellings:
            try:
                if slot == "fg":
                    x = S(color=sp)
                elif slot == "bg":
                    x = S(bgcolor=sp)
                elif slot == "fg+bold+link":
                    x = S(color=sp, bold=True, link="https://example.org/a")
                elif slot == "parse-fg":
                    x = S.parse(sp if isinstance(sp, str) else sp.name)
                elif slot == "parse-bg":
                    x = S.parse("italic on " + (sp if isinstance(sp, str) else sp.name))
                elif slot == "from_color":
                    x = S.from_color(env.Color.parse(sp) if isinstance(sp, str) else sp)
                else:
                    x = S(bold=True) + S(color=sp)
            except Exception:
                continue
            objs.append(x)
            labels.append(slot)
    pairs = [env.pair(objs, i, j) for i, j in itertools.combinations(range(len(objs)), 2) if labels[i] == labels[j] or
             {labels[i], labels[j]} in ({"fg", "parse-fg"}, {"fg", "from_color"}, {"parse-fg", "from_color"})]
    rec = dict(k="pool", objs=[env.proj(x) for x in objs], pairs=pairs, rts=[])
    return rec, dict(labels=labels, colour=kind)


RUN = dict(route=lambda env, c: run_route(env, c["steps"]), triple=run_triple, gram=run_gram, pool=run_pool, **{"class": run_class})


# ---- instantiating TLC's abstract routes ---------------------------------------------------------------
class Binding:
    """a1, a2 -> two real attributes; the model's three colours and two links -> real ones"""

    def __init__(self, env, idx, rng, cpool, wide=False):
        pairs = [(p, q) for p in ATTRS for q in ATTRS if p != q]
        self.idx = idx % len(pairs)
        self.a = dict(zip(("a1", "a2"), pairs[self.idx]))
        cols = rng.sample(cpool, 3)
        self.col = {}          # model colour (as json text) -> spelling
        self.cols = cols
        self.links = {1: rng.choice(URLS), 2: None}
        self.links[2] = rng.choice([u for u in URLS if u != self.links[1]])
        # wide: every seed style of the model also carries a fixed random setting of the other eleven attributes
        self.wide, self.rng, self.extra = wide, rng, {}

    def color(self, mc):
        if not mc:
            return None
        key = json.dumps(mc)
        if key not in self.col:
            self.col[key] = self.cols[len(self.col) % 3]
        return self.col[key]

    def maker(self, st):
        kw = {self.a[k]: (v == "T") for k, v in sorted(st["attrs"].items()) if v != "U"}
        if self.wide and st["attrs"] and any(v != "U" for v in st["attrs"].values()):
            key = json.dumps(st, sort_keys=True)
            if key not in self.extra:
                self.extra[key] = {a: self.rng.random() < 0.5 for a in ATTRS
                                   if a not in self.a.values() and self.rng.random() < 0.25}
            kw = dict(self.extra[key], **kw)
        return dict(kw=kw, color=self.color(st["fg"]), bgcolor=self.color(st["bg"]),
                    link=self.links.get(st["link"]) if st["link"] else None)


def instantiate(env, beh, bind, rng, again=0.0):
    """again: probability that a definition already parsed in this route is parsed again verbatim (lru-cached Style.parse)"""
    steps, defs = [], {}
    for o in beh:
        k = o["k"]
        if k in ("kwargs", "parse", "normparse"):
            m = bind.maker(o["st"])
            st = dict(m, op=k)
            if k == "kwargs":
                st["cv"] = rng.choice(COLOR_HOWS)
            else:
                key = json.dumps(o["st"], sort_keys=True)
                st["d"] = defs[key] if key in defs and rng.random() < again else render_def(m, rng)
                defs[key] = st["d"]
            steps.append(st)
        elif k == "fromcolor":
            f, b = bind.color(o["fg"]), bind.color(o["bg"])
            steps.append(dict(op=k, fgs=f, bgs=b, cv=rng.choice(OBJ_HOWS)))
        elif k == "null":
            steps.append(dict(op=k))
        elif k == "pick":
            steps.append(dict(op=k, i=o["i"], j=o["j"]))
        elif k in ("hash", "addnone", "bgstyle"):
            steps.append(dict(op=k, i=o["i"]))
        elif k == "add":
            steps.append(dict(op=k, i=o["i"], j=o["j"]))
        elif k in ("chain", "combine"):
            steps.append(dict(op=k, ix=list(o["ix"]), **({"gen": True} if k == "combine" and rng.random() < 0.3 else {})))
        elif k == "ulink":
            url = bind.links.get(o["l"]) if o["l"] else None
            steps.append(dict(op=k, i=o["i"], url=url))
        elif k in ("copy", "wc", "str"):
            steps.append(dict(op=k, i=o["i"]))
        else:
            raise ValueError(k)
    return steps


# ---- random styles over the whole domain ---------------------------------------------------------------
def random_plain(rng, cpool, urls, dens=0.25):
    kw = {}
    for a in ATTRS:
        r = rng.random()
        v = True if r < dens else False if r < 2 * dens else None
        if v is not None:
            kw[a] = v
    return dict(kw=kw, color=rng.choice(cpool) if rng.random() < 0.5 else None,
                bgcolor=rng.choice(cpool) if rng.random() < 0.4 else None,
                link=rng.choice(urls) if rng.random() < 0.35 else None)


def derive_via(rng, m, cpool, urls=URLS):
    """choose how the style described by m (kw / color / bgcolor / link) gets constructed: by keywords, from a definition,
    or derived from another style by one of the public routes (so that operands of the laws differ in their cached
    fields and null flags, not only in their values)"""
    plain = dict(kw=dict(m["kw"]), color=m.get("color"), bgcolor=m.get("bgcolor"), link=m.get("link"))
    kwargs = lambda x: dict(x, via="kwargs", cv=rng.choice(COLOR_HOWS))
    text = lambda x: dict(x, via=rng.choice(["parse", "normparse"]), d=render_def(x, rng))
    simple = lambda x: kwargs(x) if rng.random() < 0.6 else text(x)
    has_col = bool(plain["color"] or plain["bgcolor"])
    empty = not (plain["kw"] or has_col or plain["link"])
    r = rng.random()
    if not plain["kw"] and not plain["link"] and rng.random() < 0.5:
        if empty and r < 0.5:
            return dict(plain, via="null")
        if not plain["color"] and r < 0.75:
            other = random_plain(rng, cpool, urls)
            return dict(plain, via="bgstyle", base=simple(dict(other, bgcolor=plain["bgcolor"])))
        return dict(plain, via="fromcolor", cv=rng.choice(OBJ_HOWS))
    if r < 0.30:
        return kwargs(plain)
    if r < 0.54:
        return text(plain)
    if r < 0.66:
        other = rng.choice([None, "", plain["link"]] + [u for u in urls[:3]])
        if not plain["link"]:
            plain["link"] = rng.choice([None, ""])          # update_link(None) / update_link("")
        return dict(plain, via="ulink", base=simple(dict(plain, link=other)))
    if r < 0.76 and not has_col:
        return dict(plain, via="wc", base=simple(dict(plain, color=rng.choice(cpool), bgcolor=rng.choice([None] + cpool))))
    if r < 0.84:
        return dict(plain, via="copy", base=simple(plain))
    if r < 0.94:
        # m = left + right: right specifies a random part of m, left the rest of m and other values where right specifies
        left, right = dict(plain, kw={}), dict(kw={}, color=None, bgcolor=None, link=None)
        for a, v in plain["kw"].items():
            if rng.random() < 0.5:
                right["kw"][a] = v
                if rng.random() < 0.5:
                    left["kw"][a] = rng.random() < 0.5
            else:
                left["kw"][a] = v
        for f, pool in (("color", cpool), ("bgcolor", cpool), ("link", urls)):
            if plain[f] is not None and rng.random() < 0.5:
                right[f] = plain[f]
                left[f] = rng.choice([None, rng.choice(pool)])
        return dict(plain, via="sum", base=simple(left), right=simple(right))
    return kwargs(plain)


def random_maker(rng, cpool, attrs=None, dens=0.25):
    m, r = random_plain(rng, cpool, URLS_E, dens), rng.random()
    if r < 0.06:            # sparse operands: the null style, colours only, background only, link only
        m = dict(kw={}, color=None, bgcolor=None, link=None)
    elif r < 0.14:
        m = dict(kw={}, color=rng.choice([None] + cpool), bgcolor=rng.choice([None] + cpool), link=None)
    elif r < 0.18:
        m = dict(kw={}, color=None, bgcolor=rng.choice(cpool), link=None)
    elif r < 0.22:
        m = dict(kw={}, color=None, bgcolor=None, link=rng.choice(URLS_E))
    return derive_via(rng, m, cpool)


LONG_OPS = ["add", "add", "add", "addnone", "chain", "combine", "combine", "copy", "ulink", "ulink", "wc", "str", "hash",
            "hash", "pick", "bgstyle"]


def random_route(rng, cpool, n):
    """a route of n public calls over full-width styles: leaves (keywords / definitions - now and then one that was parsed
    before / from_color / null) and derivations, preferably of the newest object (without_color after update_link after
    add after parse ...), with str() and hash() taken in between"""
    urls, cols = rng.sample(URLS, 2) + ([""] if rng.random() < 0.35 else []), rng.sample(cpool, 3)
    dens = rng.choice([0.08, 0.2])
    steps, defs = [], []
    while len(steps) < n:
        N = len(steps)
        if N == 0 or rng.random() < (0.5 if N < 2 else 0.2):
            m, r = random_plain(rng, cols, urls, dens), rng.random()
            if r < 0.35:
                steps.append(dict(m, op="kwargs", cv=rng.choice(COLOR_HOWS)))
            elif r < 0.7:
                if defs and rng.random() < 0.4:
                    m, d = rng.choice(defs)
                else:
                    d = render_def(m, rng)
                    defs.append((m, d))
                steps.append(dict(m, op=rng.choice(["parse", "parse", "normparse"]), d=d))
            elif r < 0.9:
                steps.append(dict(op="fromcolor", fgs=rng.choice([None] + cols), bgs=rng.choice([None] + cols), cv=rng.choice(OBJ_HOWS)))
            else:
                steps.append(dict(op="null"))
            continue
        pick = lambda: N if rng.random() < 0.5 else rng.randint(1, N)
        op = rng.choice(LONG_OPS)
        if op in ("add", "pick"):
            steps.append(dict(op=op, i=pick(), j=pick()))
        elif op in ("chain", "combine"):
            st = dict(op=op, ix=[pick() for _ in range(rng.choice([1, 1, 2, 3, 4, 6]))])
            if op == "combine" and rng.random() < 0.3:
                st["gen"] = True
            steps.append(st)
        elif op == "ulink":
            steps.append(dict(op=op, i=pick(), url=rng.choice([None] + urls)))
        else:
            steps.append(dict(op=op, i=pick()))
    return steps


def boundary_routes(cpool):
    """hand-listed routes: rgb() colours spelled with white space inside (keywords / Color.parse, as foreground and background); a hash / str() taken from a derived style before it is derived from again, a definition parsed
    again after its (cached) style was used, every route kind in one route; for every attribute, set and cleared"""
    u1, u2 = URLS[0], URLS[3]
    for k, rgb in enumerate(["rgb(1,2,3)", "rgb(4,5,6)", "rgb(0,0,0)", "rgb(255,255,255)", "rgb(175,0,255)", "rgb(12,200,7)"]):
        for f in ("color", "bgcolor"):
            K = lambda cv, **kw: dict(dict(op="kwargs", kw=kw, color=None, bgcolor=None, link=None, cv=cv), **{f: rgb})
            yield [K("blanks%d" % (k % 3)), K("str"), dict(op="add", i=1, j=2), dict(op="add", i=2, j=1), dict(op="str", i=1), dict(op="copy", i=1),
                   dict(op="ulink", i=1, url=u1), K("objblanks%d" % ((k + 1) % 3), bold=True), dict(op="add", i=8, j=1), dict(op="bgstyle", i=9)]
            yield [dict(op="fromcolor", fgs=rgb if f == "color" else None, bgs=rgb if f == "bgcolor" else None, cv="objblanks%d" % (k % 3)),
                   dict(op="fromcolor", fgs=rgb if f == "color" else None, bgs=rgb if f == "bgcolor" else None, cv="obj"),
                   K("blanks%d" % ((k + 2) % 3), italic=False), dict(op="add", i=3, j=1), dict(op="combine", ix=[2, 3, 1])]
    for n, a in enumerate(ATTRS):      # the empty link: Style(link="") / update_link(""), alone and beside every attribute
        K = lambda link, **kw: dict(op="kwargs", kw=kw, color=None, bgcolor=None, link=link, cv="str")
        yield [K(""), dict(op="null"), K(None), dict(op="add", i=1, j=2), K(u1, **{a: True}), dict(op="add", i=5, j=1), dict(op="add", i=1, j=5),
               dict(op="ulink", i=5, url=""), dict(op="hash", i=8), dict(op="ulink", i=8, url=u1), dict(op="str", i=1), dict(op="copy", i=1)]
        yield [K("", **{a: n % 2 == 0}), K(None, **{a: n % 2 == 0}), dict(op="hash", i=1), dict(op="ulink", i=1, url=""), dict(op="wc", i=4),
               dict(op="combine", ix=[2, 1, 4]), K(u2), dict(op="ulink", i=7, url=""), dict(op="add", i=7, j=8), dict(op="bgstyle", i=1)]
    for n, a in enumerate(ATTRS):
        for v in (True, False):
            b = ATTRS[(n + 5) % 13]
            c1, c2 = cpool[(2 * n + v) % len(cpool)], cpool[(2 * n + v + 7) % len(cpool)]
            A = dict(op="kwargs", kw={a: v}, color=None, bgcolor=None, link=None, cv="str")
            B = dict(op="kwargs", kw={b: not v}, color=c1, bgcolor=None, link=None, cv="str")
            L = dict(op="kwargs", kw={a: v}, color=None, bgcolor=c2, link=u1, cv="obj")
            d = ("%s on %s" if v else "not %s on %s") % (a, c2)
            P = dict(op="parse", kw={a: v}, color=None, bgcolor=c2, link=None, d=d)
            tails = dict(ulink=lambda k: dict(op="ulink", i=k, url=u2), unlink=lambda k: dict(op="ulink", i=k, url=None),
                         wc=lambda k: dict(op="wc", i=k), copy=lambda k: dict(op="copy", i=k), add=lambda k: dict(op="add", i=k, j=1),
                         bgstyle=lambda k: dict(op="bgstyle", i=k))
            for tail in (["ulink"], ["wc"], ["copy"], ["add"], ["bgstyle"], ["unlink", "wc"], ["ulink", "copy", "wc"]):
                for mid in (["hash"], ["str"], ["hash", "str"]):
                    steps = [A, B, dict(op="add", i=1, j=2)] + [dict(op=o, i=3) for o in mid]
                    k = 3
                    for t in tail:
                        steps.append(tails[t](k))
                        k = len(steps)
                    yield steps
            yield [L, dict(op="hash", i=1), dict(op="ulink", i=1, url=None), dict(op="wc", i=3), dict(op="hash", i=4), dict(op="ulink", i=4, url=u1)]
            yield [dict(op="fromcolor", fgs=c1, bgs=None, cv="obj"), dict(op="hash", i=1), dict(op="ulink", i=1, url=u1), A,
                   dict(op="add", i=1, j=4), dict(op="hash", i=5), dict(op="wc", i=5)]
            yield [P, dict(op="ulink", i=1, url=u1), dict(P), dict(op="add", i=3, j=2), dict(op="str", i=1), dict(P, op="normparse"),
                   dict(op="wc", i=6), dict(P)]
            yield [dict(op="null"), A, dict(op="add", i=1, j=2), dict(op="add", i=2, j=1), dict(op="addnone", i=2),
                   dict(op="combine", ix=[2]), dict(op="chain", ix=[2]), dict(op="combine", ix=[1, 1, 2, 1], gen=True), dict(op="pick", i=2, j=1)]
            yield [P, B, dict(op="add", i=1, j=2), dict(op="ulink", i=3, url=u1), dict(op="wc", i=4), dict(op="copy", i=5),
                   dict(op="hash", i=6), dict(op="str", i=6), dict(op="bgstyle", i=3), dict(op="combine", ix=[6, 9, 2, 1], gen=True),
                   dict(op="chain", ix=[10, 7, 7]), dict(op="ulink", i=11, url=u1)]


GRAM_WORDS = ([w for ws in SPELL.values() for w in ws] + list(KEYWORDS) + [
    "default", "red", "bright_white", "grey0", "color(0)", "color(15)", "color(16)", "color(255)", "color(256)",
    "#000000", "#ffffff", "#af00ff", "rgb(175,0,255)", "rgb(0,0,0)", "rgb(255,255,255)", "rgb(256,0,0)",
    "foo", "bold2", "#12345", "rgb(1,2)", "https://example.org/a", "x",
    "BOLD", "Red", "#AF00FF", "NOT"])
# further case variants (the documentation is silent on case: they are judged by the implementation-shaped part only)
CASE_WORDS = ["ON", "Link", "NONE", "None", "Default", "COLOR(1)", "Rgb(1,2,3)", "UU", "B", "Bright_White"]
GRAM_BOUNDARY = ["default", "on default", "default on default", "none", " none", "none ", "\tnone\n", " ", "\t", "\n",
                 "none none", "not none", "on none", "link none", "link link", "link on", "link not", "link bold", "link red",
                 "link default", "on on", "not not", "not on", "on not bold", "bold link", "red on", "not", "on", "link"]
SEPS = [" ", " ", "  ", "\t", "\n", " \t ", "\r\n"]


def gram_shape(env, d):
    out = []
    for w in d.split()[:5]:
        t = env.lex_word(w)
        if t["t"] == "color":
            out.append(["default", "named", "num", "hex", "rgb"][t["c"][0]])
        elif t["t"] == "word":
            out.append("word")
        else:
            out.append(w.lower() if not t["up"] else w.lower() + "^")
    return ",".join(out)


# ---- the check -------------------------------------------------------------------------------------------
def run(chk: Check):
    env = Env()
    rng = chk.rng
    chk.rule = ("a case is one real execution judged by TLC: a triple of styles with all its sums; a construction "
                "route (every route of <= 3 public calls; simulated / hand-listed / random routes of 4..12 calls over "
                "every route kind incl. hash() and str() taken mid-route, + None, pick_first, background_style, combine of one / many) under one binding of the model's attributes/colours/links to real "
                "ones; a class of routes with the same model value; a style definition.  Non-trivial = triple with "
                ">= 2 non-null operands / route with a non-leaf constructor / class with >= 2 members / definition "
                "with >= 2 words; de-duplicated on the concrete input")
    chk.trusted = ["drivers/c06.py:Env.lex_word/color_word (lexer for definitions and str() output, own regexes)",
                   "drivers/c06.py:Env.proj (Style -> attrs/colour/link via the public getters; Color -> type/number/triplet + spelling class of .name)",
                   "drivers/c06.py:Binding/instantiate (substitutes real attributes, colours, urls for the model's)",
                   "== and hash() are evaluated by Python and passed to TLC as booleans"]
    chk.assumptions = ["links contain no whitespace (the empty link, which is no link, is handed over by keyword / update_link only); colours are default / a table name / color(n) / #rrggbb / rgb(r,g,b) "
                       "in canonical decimal form (as strings also upper case / blank padded, rgb() also with white space inside the parentheses) or Color objects made by Color.parse/from_ansi/from_rgb/from_triplet/default",
                       "the colour-name table (ANSI_COLOR_NAMES) is data of the tree under test",
                       "lru caches of Style.parse/normalize and Color.parse are cleared before each case (isolation, replayability)",
                       "the value of copy/update_link/without_color/from_color/keywords is pinned by the implementation-shaped part only (DRIFT); "
                       "the statement fixes +, combine/chain, parse, str/normalize round trips and eq=>hash"]
    counts = {}
    if env.digest != COLOR_TABLE_DIGEST:
        chk.drift_note("ANSI_COLOR_NAMES differs from the pinned 9.10.0 table (digest %s); spellings are checked against the edited table" % env.digest[:10])

    if chk.replay_only:
        c = chk.replay_only["case"]
        stream = iter([(c["kind"], c)])
    else:
        stream = generate(chk, env)

    # ---- execute on the real code and let TLC judge, batch by batch ---------------------------------------
    rejections, drifts, by_kind, shown = [], {}, {}, set()
    t_exec = t_judge = 0.0
    while True:
        batch = list(itertools.islice(stream, BATCH))
        if not batch:
            break
        t0 = time.time()
        recs, metas = [], []
        for kind, c in batch:
            rec, meta = RUN[kind](env, c)
            recs.append(rec)
            metas.append(meta)
            chk.case((kind, c), _nontrivial(kind, c))
            by_kind[kind] = by_kind.get(kind, 0) + 1
            if kind not in shown:
                shown.add(kind)
                chk.sample(dict(kind=kind, case=_brief(kind, c), observed=_obs(rec)))
        t1 = time.time()
        verdicts, st = tlc.judge("Trace_Style", recs, cfg="Trace_Style")
        t_exec, t_judge = t_exec + t1 - t0, t_judge + time.time() - t1
        chk.add_tlc(st, "M3")
        chk.traces += len(recs)
        for (kind, c), rec, meta, v in zip(batch, recs, metas, verdicts):
            if v == "ok":
                continue
            if v == "no-verdict":
                raise tlc.TLCFailure("Trace_Style gave no verdict for a %s record: %s" % (kind, json.dumps(c)[:400]))
            if v.startswith("drift "):
                sig = "%s %s" % (kind, re.sub(r"\d+", "n", v[6:]))
                drifts.setdefault(sig, (v, kind, c))
                continue
            for clause in v.split(" ; "):
                for sig in signatures(env, kind, c, rec, meta, clause):
                    rejections.append((sig, KIND_ORDER[kind] * 10 ** 6 + len(json.dumps(c)), clause, c))
        # keep only the smallest witnesses of each signature between batches (all are counted)
        rejections.sort(key=lambda r: (r[0], r[1]))
        kept, n = [], {}
        for r in rejections:
            n[r[0]] = n.get(r[0], 0) + 1
            if n[r[0]] <= 25:
                kept.append(r)
            else:
                counts[r[0]] = counts.get(r[0], 0) + 1
        rejections = kept
    chk.notes["records_by_kind"] = by_kind
    chk.notes["phase_wall_s"] = dict(chk.notes.get("phase_wall_s", {}), execute=round(t_exec, 1), judge=round(t_judge, 1))
    for sig, (v, kind, c) in sorted(drifts.items())[:12]:
        chk.drift_note("%s; e.g. %s" % (sig, json.dumps(_brief(kind, c))[:300]))
    for sig, _, v, c in rejections:
        counts[sig] = counts.get(sig, 0) + 1
        chk.reject(sig, "%s | witness: %s" % (v, json.dumps(_brief(c["kind"], c))[:420]), c)
    if counts:
        chk.notes["rejected_cases_by_signature"] = counts


def _nontrivial(kind, c):
    if kind == "triple":
        return sum(1 for m in c["abc"] if m["kw"] or m.get("color") or m.get("bgcolor") or m.get("link")) >= 2
    if kind == "route":
        return any(s["op"] not in ("kwargs", "parse", "normparse", "fromcolor", "null") for s in c["steps"])
    if kind == "class":
        return len(c["members"]) >= 2
    if kind == "pool":
        return True
    return len(c["d"].split()) >= 2


def _brief(kind, c):
    def step(s):
        op = s["op"]
        if op == "kwargs":
            return "Style(%s)" % ", ".join("%s=%r" % (k, v) for k, v in list(s["kw"].items()) + [
                (k, s.get(k)) for k in ("color", "bgcolor", "link") if s.get(k) is not None]) + ("" if s.get("cv", "str") == "str" else "[colour as %s]" % s["cv"])
        if op == "parse":
            return "parse(%r)" % s["d"]
        if op == "normparse":
            return "parse(normalize(%r))" % s["d"]
        if op == "fromcolor":
            return "from_color(%s, %s)" % ((s["fgs"], s["bgs"]) if "fgs" in s else (s.get("color"), s.get("bgcolor")))
        if op == "null":
            return "Style.null()"
        if op in ("wc", "copy", "bgstyle", "sum") and "base" in s:        # a derived operand of a triple
            base = step(dict(s["base"], op=s["base"]["via"]))
            if op == "sum":
                return "(" + base + " + " + step(dict(s["right"], op=s["right"]["via"])) + ")"
            return base + {"wc": ".without_color", "copy": ".copy()", "bgstyle": ".background_style"}[op]
        if op == "ulink" and "base" in s:
            return "%s.update_link(%r)" % (step(dict(s["base"], op=s["base"]["via"])), s.get("link"))
        if op == "addnone":
            return "#%d + None" % s["i"]
        if op == "pick":
            return "pick_first(None, #%d, #%d)" % (s["i"], s["j"])
        if op == "add":
            return "#%d + #%d" % (s["i"], s["j"])
        if op in ("chain", "combine"):
            return "%s(%s)" % (op, ",".join("#%d" % i for i in s["ix"]))
        if op == "ulink":
            return "#%d.update_link(%r)" % (s["i"], s["url"])
        return {"copy": "#%d.copy()", "wc": "#%d.without_color", "str": "str(#%d)", "hash": "hash(#%d)",
                "bgstyle": "#%d.background_style"}[op] % s["i"]
    if kind == "route":
        return [step(s) for s in c["steps"]]
    if kind == "class":
        return [[step(s) for s in m] for m in c["members"][:4]]
    if kind == "triple":
        return [step(dict(m, op=m.get("via", "kwargs"))) for m in c["abc"]] + (["pre=" + c["pre"]] if c.get("pre", "none") != "none" else [])
    if kind == "pool":
        return "spellings of one colour (group %d) in slots %s" % (c["g"], ",".join(c["slots"]))
    return c["d"]


def _obs(rec):
    if rec["k"] == "route":
        return [s["out"] for s in rec["steps"]]
    if rec["k"] == "triple":
        return dict(ab_c=rec["ab_c"], a_bc=rec["a_bc"])
    if rec["k"] == "gram":
        return rec["out"]
    return rec["objs"][:2]


def _field(parts):
    """'attribute 4' -> ' attribute=underline';  'color 2' -> ' color=num'"""
    if not parts:
        return ""
    if parts[0] == "attribute" and len(parts) > 1:
        return " attribute=" + ATTRS[int(parts[1]) - 1]
    if parts[0] in ("color", "bgcolor") and len(parts) > 1:
        return " %s=%s" % (parts[0], {"0": "default", "1": "named", "2": "num", "3": "hex", "4": "rgb"}.get(parts[1], parts[1]))
    return " " + parts[0]


def signatures(env, kind, c, rec, meta, v):
    """narrow, stable labels for a property-part rejection (clause + operation + argument shape)"""
    kind = rec.get("k", kind)          # a triple whose operand could not be built is judged as a one-step route
    if v.startswith("hash-differs"):
        sigs = set()
        for pr in v.split()[1:]:
            i, j = (int(x) - 1 for x in pr.split("-"))
            if kind == "route":
                lab = meta["culprit"] if meta["culprit"] != "none" else "pair"
            elif kind == "class":
                labs = [l for l in (meta["labels"][i], meta["labels"][j]) if l != "none"]
                lab = labs[0] if labs else "pair"
            elif kind == "pool":
                lab = "same-colour-other-spelling colour=%s slot=%s" % (meta["colour"], meta["labels"][i])
            elif kind == "triple":
                labs = [l for l in (meta["labels"][i], meta["labels"][j]) if l != "kwargs"]
                lab = labs[0] if labs else "kwargs"
            else:
                lab = "parse"
            sigs.add("hash-differs op=%s" % lab)
        return sorted(sigs)
    if v.startswith("roundtrip-"):
        parts = v.split()
        clause, i = parts[0] + _field(parts[2:]), int(parts[1]) - 1
        if rgb_with_whitespace(c):
            clause += " rgb-with-whitespace"
        if empty_link(c):
            clause += " empty-link"
        if kind == "route":
            return ["%s op=%s" % (clause, meta["producer"][i])]
        if kind == "triple":
            return ["%s op=%s" % (clause, meta["labels"][i])]
        return ["%s op=parse" % clause]
    if kind == "gram":
        parts = v.split()
        return ["%s%s op=parse" % (parts[0], _field(parts[1:]))]
    if kind == "route":
        m = re.match(r"step (\d+) (\w+) (.*)", v)
        if not m:
            return [v]
        return ["%s op=%s" % (m.group(3), _shape(c["steps"][int(m.group(1)) - 1]) if "steps" in c else m.group(2))]
    return [v]


# ---- generation --------------------------------------------------------------------------------------------
CFG = ("CONSTANTS\n  AttrSeq <- MCAttrSeq\n  NCol = %d\n  NLink = 2\n  NSeed = %d\n  GenDepth = %d\n  HashDesign = \"%s\"\n")
LAW_INV = ["AssocAll", "IdentityAll", "RightBiasAll", "CombineAll", "DesignAddAll", "RoundTripAll", "ColorsSpelled", "UnaryAll"]
ROUTE_INV = ["TypeOK", "Refines", "NullFlagSound", "MasksSound", "RouteRoundTrip", "HashConsistent", "HashExact"]
ROUTE_ACTIONS = ["FromKwargs", "ParseDef", "NormParse", "FromColorOp", "AddOp", "ChainOp", "CombineOp", "CopyOp",
                 "UpdateLinkOp", "WithoutColorOp", "StrOp",
                 "NullOp", "HashOp", "AddNoneOp", "PickFirstOp", "BgStyleOp", "ChainIxOp", "CombineIxOp"]
LONG_DEPTH = 7


def generate(chk, env):
    rng = chk.rng
    t_gen = time.time()
    ncol, nseed, depth = chk.pick(2, 3), chk.pick(6, 9), 3
    law_cfg = CFG % (ncol, nseed, depth, "derived") + "INIT LawInit\nNEXT LawNext\n" + "".join(
        "INVARIANT %s\n" % i for i in LAW_INV) + "CHECK_DEADLOCK FALSE\n"
    route_cfg = lambda design: CFG % (3, nseed, depth, design) + "SPECIFICATION RouteSpecAll\nVIEW View\n" + "".join(
        "INVARIANT %s\n" % i for i in ROUTE_INV) + "CHECK_DEADLOCK FALSE\n"
    gen_cfg = CFG % (3, nseed, depth, "derived") + "SPECIFICATION RouteSpec\nCONSTRAINT Emit\nCHECK_DEADLOCK FALSE\n"
    long_cfg = CFG % (3, 10, LONG_DEPTH, "derived") + "SPECIFICATION RouteSpecAll\nCONSTRAINT EmitFull\nCHECK_DEADLOCK FALSE\n"
    with ThreadPoolExecutor(5) as ex:
        f_law = ex.submit(tlc.model_check, "MC_Style", cfg_text=law_cfg, coverage=False, tag="mc-law")
        f_rt = ex.submit(tlc.model_check, "MC_Style", cfg_text=route_cfg("derived"), workers=4, require_actions=ROUTE_ACTIONS, tag="mc-routes")
        f_st = ex.submit(tlc.model_check, "MC_Style", cfg_text=route_cfg("stored"), workers=2, coverage=False, tag="mc-stored")
        f_gen = ex.submit(tlc.behaviours, "MC_Style", cfg_text=gen_cfg, tag="gen-routes")
        f_long = ex.submit(tlc.behaviours, "MC_Style", cfg_text=long_cfg, simulate="num=%d" % chk.pick(1200, 6000),
                           depth=LONG_DEPTH + 2, seed=chk.seed + 1, tag="gen-long-routes")
        r_law, _, _ = f_law.result()
        r_rt, cov, missing = f_rt.result()
        r_st, _, _ = f_st.result()
        behs, r_gen = f_gen.result()
        longs, r_long = f_long.result()
    # M1: laws over all triples
    nsty = 9 * (ncol + 1) ** 2 * 3
    chk.add_tlc(r_law, "M1-laws")
    if r_law.violated or not r_law.finished or r_law.distinct != 1 + nsty + nsty * nsty:
        raise tlc.TLCFailure("MC_Style laws: violated=%s distinct=%d (expected %d)\n%s" % (
            r_law.violated, r_law.distinct, 1 + nsty + nsty * nsty, r_law.out[-2500:]))
    chk.notes["m1_laws"] = dict(styles=nsty, triples=nsty ** 3, invariants=LAW_INV, wall_s=round(r_law.wall, 1))
    # M1: routes machine, repaired hash design (non-vacuity of eq=>hash) ...
    chk.add_tlc(r_rt, "M1-routes")
    if r_rt.violated or missing or not r_rt.finished:
        raise tlc.TLCFailure("MC_Style routes: violated=%s never-fired=%s\n%s" % (r_rt.violated, missing, r_rt.out[-2500:]))
    chk.notes["m1_routes_action_coverage"] = {k: v[1] for k, v in cov.items() if k in ROUTE_ACTIONS}
    # ... and the transcription of the stored hash of 9.10.0: informational (TLC refutes HashConsistent)
    chk.add_tlc(r_st, "M1-stored-design")
    chk.notes["m1_stored_hash_design"] = ("TLC refutes %s at depth %d for the stored-hash transcription of 9.10.0 "
                                          "(informational; the conformance records decide)" % (r_st.violated, r_st.diameter)
                                          if r_st.violated else "not refuted")
    # M2
    chk.add_tlc(r_gen, "M2")
    if not behs:
        raise tlc.TLCFailure("no routes generated\n" + r_gen.out[-2000:])
    chk.add_tlc(r_long, "M2-simulate-depth-%d" % LONG_DEPTH)
    if not longs:
        raise tlc.TLCFailure("no long routes generated\n" + r_long.out[-2000:])
    chk.notes["tlc_generated_routes"] = dict(exhaustive_depth_3=len(behs), simulated_depth_4_to_7=len(longs))

    chk.notes["phase_wall_s"] = dict(tlc_m1_m2=round(time.time() - t_gen, 1))
    cpool = color_pool(env, rng, chk.pick(20, 200))
    # ---- routes and classes
    classes = {}
    for b in behs:
        classes.setdefault(json.dumps(b["val"], sort_keys=True), []).append(b["beh"])
    K, reps = max(chk.pick(5, 13), -(-156 // len(classes))), chk.pick(1, 2)      # classes * K >= 156: every ordered attribute pair is bound
    bindings = {}
    groups = {}
    for ci, (val, routes) in enumerate(sorted(classes.items())):
        routes.sort(key=lambda r: json.dumps(r, sort_keys=True))
        for ri, beh in enumerate(routes):
            for t in range(reps):
                bi = (ci * K + (ri + t) % K) % 156
                bind = bindings.get(bi) or bindings.setdefault(bi, Binding(env, bi, rng, cpool))
                steps = instantiate(env, beh, bind, rng, again=0.5)
                yield "route", dict(kind="route", steps=steps)
                groups.setdefault((val, bi), []).append((tuple(o["k"] for o in beh), steps, bind))
    chk.notes["route_classes"] = len(classes)
    chk.notes["attribute_pairs_bound"] = len(bindings)
    for (val, bi), members in sorted(groups.items(), key=lambda kv: (kv[0][0], kv[0][1])):
        by_shape = {}
        for shape, steps, bind in members:
            by_shape.setdefault(shape, steps)
        reps_ = [by_shape[s] for s in sorted(by_shape)]
        bind = members[0][2]
        canon = [dict(bind.maker(json.loads(val)), op="kwargs", cv="str")]
        for i in range(0, len(reps_), 7):
            yield "class", dict(kind="class", members=[canon] + reps_[i:i + 7])
    # ---- one terminal colour in every documented spelling (names of one number, color(n), #hex in both cases, rgb(), Color objects)
    SLOTS = ["fg", "bg", "fg+bold+link", "parse-fg", "parse-bg", "from_color", "sum"]
    for g in range(len(spelling_groups(env))):
        yield "pool", dict(kind="pool", g=g, slots=SLOTS[:3])
        yield "pool", dict(kind="pool", g=g, slots=SLOTS[3:])
    # ---- long routes: TLC-simulated over every route kind (cut to 4..7 calls, every seed style widened to all thirteen
    # attributes), hand-listed boundary routes, seeded random routes of 4..8 calls over full-width styles
    ops_seen = {}
    for n, b in enumerate(longs):
        beh = b["beh"][:rng.randint(4, LONG_DEPTH)]
        steps = instantiate(env, beh, Binding(env, rng.randrange(156), rng, cpool, wide=True), rng, again=0.5)
        for st in steps:
            ops_seen[st["op"]] = ops_seen.get(st["op"], 0) + 1
        yield "route", dict(kind="route", steps=steps)
    for steps in boundary_routes(cpool):
        yield "route", dict(kind="route", steps=steps)
    for _ in range(chk.pick(1500, 25000)):
        steps = random_route(rng, cpool, rng.randint(4, 8))
        for st in steps:
            ops_seen[st["op"]] = ops_seen.get(st["op"], 0) + 1
        yield "route", dict(kind="route", steps=steps)
    chk.notes["long_route_calls_by_kind"] = ops_seen
    # ---- triples: every ordered pair of real attributes over the model's small domain, plus random full styles
    small = [None, "red", "#010203", "default"]
    per_pair = chk.pick(30, 729)
    pairs = [(p, q) for p in ATTRS for q in ATTRS if p != q]
    tri = [None, True, False]
    for (p, q) in pairs:
        combos = list(itertools.product(tri, repeat=6))
        chosen = combos if per_pair >= len(combos) else rng.sample(combos, per_pair)
        for vs in chosen:
            abc = []
            for k in range(3):
                kw = {a: v for a, v in ((p, vs[2 * k]), (q, vs[2 * k + 1])) if v is not None}
                m = dict(kw=kw, color=rng.choice(small), bgcolor=rng.choice(small),
                         link=rng.choice([None, None, URLS[0], URLS[1], ""]))
                abc.append(derive_via(rng, m, small[1:], URLS0))
            yield "triple", dict(kind="triple", abc=abc, pre=rng.choice(PRE))
    for _ in range(chk.pick(2500, 40000)):
        dens = rng.choice([0.08, 0.2, 0.33])
        yield "triple", dict(kind="triple", abc=[random_maker(rng, cpool, dens=dens) for _ in range(3)], pre=rng.choice(PRE))
    # ---- grammar: all definitions of <= 2 (quick) / 3 (thorough) words, random longer ones
    words = GRAM_WORDS
    chk.notes["grammar_vocabulary"] = len(words)
    yield "gram", dict(kind="gram", d="")
    for n in range(1, chk.pick(2, 3) + 1):
        for ws in itertools.product(words, repeat=n):
            yield "gram", dict(kind="gram", d=" ".join(ws))
    for d in GRAM_BOUNDARY:
        yield "gram", dict(kind="gram", d=d)
    for u in URLS:                                    # definitions parsed after their own upper / lower / swapped-case spellings
        for head in ("", "bold ", "red on blue ", "not italic #0a0B0c "):
            yield "gram", dict(kind="gram", d=head + "link " + u, pre=True)
            yield "gram", dict(kind="gram", d="link " + u + " " + head.strip(), pre=True)
    for w in CASE_WORDS:                              # each with every word of the vocabulary, both ways round
        yield "gram", dict(kind="gram", d=w)
        for v in words + CASE_WORDS:
            yield "gram", dict(kind="gram", d=w + " " + v)
            yield "gram", dict(kind="gram", d=v + " " + w)
    # every documented spelling of a colour: each name of the table and each number, as foreground and as background
    names = list(env.table)
    for i, nm in enumerate(names):
        yield "gram", dict(kind="gram", d=nm)
        yield "gram", dict(kind="gram", d="on " + nm)
        yield "gram", dict(kind="gram", d="%s on %s" % (names[(i * 7 + 3) % len(names)], nm))
    for n in range(256):
        yield "gram", dict(kind="gram", d="color(%d)" % n)
        yield "gram", dict(kind="gram", d="%s on color(%d)" % (rng.choice(SPELL[ATTRS[n % 13]]), n))
    chk.notes["colour_names_each_as_fg_and_bg"] = len(names)
    for _ in range(chk.pick(6000, 80000)):
        n = rng.randint(3, 6)
        ws = []
        while len(ws) < n:
            r = rng.random()
            w = rng.choice(words)
            if r < 0.25:
                ws += ["not", rng.choice(list(WORD_ATTR))]
            elif r < 0.4:
                ws += ["on", rng.choice(cpool)]
            elif r < 0.5:
                ws += ["link", rng.choice(URLS)]
            elif r < 0.7:
                ws.append(rng.choice(cpool))
            else:
                ws.append(w)
        if rng.random() < 0.5:
            d = " ".join(ws)
        else:          # words are separated by any white space; white space around the definition is no word
            d = rng.choice(["", "", " ", "\t", "\n"]) + "".join(
                w + (rng.choice(SEPS) if i + 1 < len(ws) else "") for i, w in enumerate(ws)) + rng.choice(["", "", " ", "\n"])
        yield "gram", dict(kind="gram", d=d)
