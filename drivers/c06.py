"""C06 - styles: algebra, string round trip, eq/hash consistency.

M1  MC_Style (laws over all triples of a small domain; construction-routes machine, design refinement)
M2  MC_Style with CONSTRAINT Emit prints every construction route of GenDepth steps as JSON
M3  Trace_Style judges records of what the real rich.style.Style did:
      triple  a, b, c and every sum of them (right bias, associativity, identity, combine/chain)
      route   a TLC-generated route rebuilt with real constructors, step by step
      class   the end results of several routes that the model sends to the same abstract style
      gram    a style definition (token sequence) and what Style.parse made of it
    every record also carries ==/hash() observations for pairs of its objects and str()/normalize()
    round trips.  Python only drives, lexes and projects; TLC gives the verdicts.
"""
import hashlib
import itertools
import json
import re
import time
from concurrent.futures import ThreadPoolExecutor

from engine import tlc
from engine.harness import Check

# ---- the documented vocabulary (docs/source/style.rst + the statement of C06) ----------------
ATTRS = ["bold", "dim", "italic", "underline", "blink", "blink2", "reverse", "conceal", "strike",
         "underline2", "frame", "encircle", "overline"]            # str() order; spec attribute = index + 1
SPELL = {"bold": ["bold", "b"], "dim": ["dim", "d"], "italic": ["italic", "i"], "underline": ["underline", "u"],
         "blink": ["blink"], "blink2": ["blink2"], "reverse": ["reverse", "r"], "conceal": ["conceal", "c"],
         "strike": ["strike", "s"], "underline2": ["underline2", "uu"], "frame": ["frame"],
         "encircle": ["encircle"], "overline": ["overline", "o"]}
WORD_ATTR = {w: ATTRS.index(a) + 1 for a, ws in SPELL.items() for w in ws}
KEYWORDS = ("not", "on", "link", "none")
COLOR_TABLE_DIGEST = "b09f0f15e2be1c11131c0cdf57bde62ad4c2703b"    # ANSI_COLOR_NAMES of 9.10.0 (pin -> DRIFT)
URLS = ["https://example.org/a", "http://x.y/?q=1#f", "bold", "file:///tmp/R%20ich"]
NULLP = dict(attrs=["U"] * 13, fg=[], bg=[], link=0)

RE_NUM = re.compile(r"color\((0|[1-9][0-9]{0,2})\)")
RE_HEX = re.compile(r"#([0-9a-f]{2})([0-9a-f]{2})([0-9a-f]{2})")
RE_RGB = re.compile(r"rgb\((0|[1-9][0-9]{0,3}),(0|[1-9][0-9]{0,3}),(0|[1-9][0-9]{0,3})\)")


class Env:
    """The tree under test plus the lexer state (word ids)."""

    def __init__(self):
        from rich.style import Style
        from rich.color import Color, ANSI_COLOR_NAMES
        from rich import errors
        self.Style, self.Color, self.errors = Style, Color, errors
        self.table = dict(ANSI_COLOR_NAMES)
        self.name_idx = {n: i + 1 for i, n in enumerate(ANSI_COLOR_NAMES)}
        self.digest = hashlib.sha1(json.dumps(list(ANSI_COLOR_NAMES.items())).encode()).hexdigest()
        self.ids = {}
        try:
            str(Style.null())      # the shared null style always has its definition cached (steady state of any program)
        except Exception:
            pass

    # -- lexer (independent of rich's parser) ---------------------------------------------------
    def wid(self, s):
        return self.ids.setdefault(s, len(self.ids) + 1)

    def color_word(self, name):
        """exact colour word -> <<sp, k, n, r, g, b>> or None"""
        if name == "default":
            return [0, 0, -1, -1, -1, -1]
        if name in self.table:
            return [1, self.name_idx[name], self.table[name], -1, -1, -1]
        m = RE_NUM.fullmatch(name)
        if m:
            return [2, 0, int(m.group(1)), -1, -1, -1]
        m = RE_HEX.fullmatch(name)
        if m:
            return [3, 0, -1] + [int(g, 16) for g in m.groups()]
        m = RE_RGB.fullmatch(name)
        if m:
            return [4, 0, -1] + [int(g) for g in m.groups()]
        return None

    def lex_word(self, w):
        low = w.lower()
        tok = dict(w=self.wid(w), up=(low != w))
        if low in KEYWORDS:
            tok["t"] = low
        elif low in WORD_ATTR:
            tok["t"], tok["a"] = "attr", WORD_ATTR[low]
        else:
            c = self.color_word(low)
            if c is not None:
                tok["t"], tok["c"] = "color", c
            else:
                tok["t"] = "word"
        return tok

    def lex(self, definition):
        return [self.lex_word(w) for w in definition.split()]

    # -- projection of real objects (public getters only) -----------------------------------------
    def proj_color(self, c):
        if c is None:
            return []
        t = c.triplet
        w = self.color_word(c.name) if isinstance(c.name, str) else None
        sp, k = (w[0], w[1]) if w else (9, self.wid(str(c.name)))
        return [int(c.type), -1 if c.number is None else int(c.number)] + (
            [int(t[0]), int(t[1]), int(t[2])] if t is not None else [-1, -1, -1]) + [sp, k]

    def proj(self, s):
        tri = {None: "U", True: "T", False: "F"}
        return dict(attrs=[tri.get(getattr(s, a), "T" if getattr(s, a) else "F") for a in ATTRS],
                    fg=self.proj_color(s.color), bg=self.proj_color(s.bgcolor),
                    link=0 if s.link is None else self.wid(s.link))

    def out(self, fn):
        try:
            x = fn()
        except Exception as e:            # a crash inside Rich is an observation
            return None, dict(ok=False, st=NULLP, err=type(e).__name__)
        try:
            return x, dict(ok=True, st=self.proj(x), err="none")
        except Exception as e:
            return None, dict(ok=False, st=NULLP, err="proj:" + type(e).__name__)

    def clear_caches(self):
        for f in (self.Style.parse, self.Style.normalize, self.Color.parse):
            if hasattr(f, "cache_clear"):
                f.cache_clear()

    # -- helpers on real styles -----------------------------------------------------------------
    def canon(self, x):
        """the same style built from keywords out of x's public fields"""
        return self.Style(color=x.color, bgcolor=x.bgcolor, link=x.link, **{a: getattr(x, a) for a in ATTRS})

    def pair(self, objs, i, j):
        try:
            eq = bool(objs[i] == objs[j])
        except Exception:
            eq = False
        try:
            heq = hash(objs[i]) == hash(objs[j])
        except Exception:
            heq = False
        return dict(i=i + 1, j=j + 1, eq=eq, heq=heq)

    def roundtrip(self, x, i, definition=None):
        """str()/normalize() round trip of x (= objs[i]); definition: the text x was parsed from."""
        S = self.Style
        try:
            text = str(x)
        except Exception as e:
            return dict(i=i + 1, str=[], back=dict(ok=False, st=NULLP, err="str:" + type(e).__name__),
                        eq=False, nback=dict(ok=False, st=NULLP, err="none"), neq=False)
        back, bo = self.out(lambda: S.parse(text))
        d = text if definition is None else definition
        nb, no = self.out(lambda: S.parse(S.normalize(d)))
        ref = back if definition is None else x
        return dict(i=i + 1, str=self.lex(text), back=bo, eq=bool(back is not None and back == x),
                    nback=no, neq=bool(nb is not None and ref is not None and nb == ref))


def word_color(w):
    """Python rendition of Style!WordColor, used only to write down the style a keyword call names."""
    sp, k, n, r, g, b = w
    if sp == 0:
        return [0, -1, -1, -1, -1, 0, 0]
    if sp in (1, 2):
        return [1 if n < 16 else 2, n, -1, -1, -1, sp, k if sp == 1 else 0]
    return [3, -1, r, g, b, sp, 0]


# ---- real colours ---------------------------------------------------------------------------------
def color_pool(env, rng, n_extra):
    names = list(env.table)
    pool = ["default", "red", "bright_white", "black", "grey0", "grey93", "navy_blue",
            "color(0)", "color(7)", "color(8)", "color(15)", "color(16)", "color(255)",
            "#000000", "#ffffff", "#af00ff", "rgb(175,0,255)", "rgb(0,0,0)", "rgb(255,255,255)", "rgb(1,2,3)", "#010203"]
    pool = [p for p in pool if env.color_word(p)]
    for _ in range(n_extra):
        k = rng.randrange(4)
        if k == 0:
            pool.append(rng.choice(names))
        elif k == 1:
            pool.append("color(%d)" % rng.randrange(256))
        elif k == 2:
            pool.append("#%02x%02x%02x" % tuple(rng.randrange(256) for _ in range(3)))
        else:
            pool.append("rgb(%d,%d,%d)" % tuple(rng.randrange(256) for _ in range(3)))
    return pool


def color_arg(env, spelling, how):
    """how a colour is handed to a constructor: the spelling, a parsed Color, or a Color factory"""
    C = env.Color
    if spelling is None:
        return None
    if how == "str":
        return spelling
    w = env.color_word(spelling)
    if how == "ctor":
        if w[0] == 0:
            return C.default()
        if w[0] == 2:
            return C.from_ansi(w[2])
        if w[0] == 3:
            return C.from_rgb(w[3], w[4], w[5])
    return C.parse(spelling)


def color_val(env, spelling, how="str"):
    if spelling is None:
        return []
    return word_color(env.color_word(spelling))


# ---- concrete cases ----------------------------------------------------------------------------------
# A concrete style description ("maker"): dict(kw={attr: bool}, color, bgcolor, link, via, cv, d)
def maker_abs(env, m):
    attrs = ["U"] * 13
    for a, v in m["kw"].items():
        attrs[ATTRS.index(a)] = "T" if v else "F"
    return dict(attrs=attrs, fg=color_val(env, m.get("color")), bg=color_val(env, m.get("bgcolor")),
                link=0 if m.get("link") is None else env.wid(m["link"]))


def render_def(m, rng):
    """a definition string for a maker, groups in random order, spellings chosen at random"""
    groups = []
    for a, v in m["kw"].items():
        w = rng.choice(SPELL[a])
        groups.append([w] if v else ["not", w])
    if m.get("color") is not None:
        groups.append([m["color"]])
    if m.get("bgcolor") is not None:
        groups.append(["on", m["bgcolor"]])
    if m.get("link") is not None:
        groups.append(["link", m["link"]])
    rng.shuffle(groups)
    words = [w for g in groups for w in g]
    if not words:
        return rng.choice(["none", "none", " none "])
    return rng.choice([" ", " ", "  "]).join(words)


def make_real(env, m):
    S = env.Style
    via = m.get("via", "kwargs")
    if via == "parse":
        return S.parse(m["d"])
    if via == "normparse":
        return S.parse(S.normalize(m["d"]))
    how = m.get("cv", "str")
    return S(color=color_arg(env, m.get("color"), how), bgcolor=color_arg(env, m.get("bgcolor"), how),
             link=m.get("link"), **m["kw"])


BATCH = 40000
KIND_ORDER = dict(route=0, gram=1, triple=2)
KIND_ORDER["class"] = 3
REAL_ONLY = ("kw", "color", "bgcolor", "link", "via", "cv", "d", "fgs", "bgs", "url")


def run_route(env, steps):
    """steps: concrete steps.  Returns (record for TLC, meta for signatures)."""
    S = env.Style
    env.clear_caches()
    pool, recs = [], []
    for st in steps:
        op = st["op"]
        if op in ("kwargs", "parse", "normparse"):
            fn = lambda: make_real(env, dict(st, via=op))
        elif op == "fromcolor":
            fn = lambda: S.from_color(color_arg(env, st["fgs"], "obj"), color_arg(env, st["bgs"], "obj"))
        elif op == "add":
            fn = lambda: pool[st["i"] - 1] + pool[st["j"] - 1]
        elif op == "chain":
            fn = lambda: S.chain(*[pool[i - 1] for i in st["ix"]])
        elif op == "combine":
            fn = lambda: S.combine([pool[i - 1] for i in st["ix"]])
        elif op == "copy":
            fn = lambda: pool[st["i"] - 1].copy()
        elif op == "ulink":
            fn = lambda: pool[st["i"] - 1].update_link(st["url"])
        elif op == "wc":
            fn = lambda: pool[st["i"] - 1].without_color
        elif op == "str":
            def fn():
                str(pool[st["i"] - 1])
                return pool[st["i"] - 1]
        else:
            raise ValueError(op)
        x, o = env.out(fn)
        e = {k: v for k, v in st.items() if k not in REAL_ONLY}
        # the spec-side description of the call (word ids are per process, so it is derived here)
        if op in ("kwargs", "parse", "normparse"):
            e["st"] = maker_abs(env, st)
        if op in ("parse", "normparse"):
            e["toks"] = env.lex(st["d"])
        if op == "fromcolor":
            e["fg"], e["bg"] = color_val(env, st["fgs"]), color_val(env, st["bgs"])
        if op == "ulink":
            e["l"] = 0 if st["url"] is None else env.wid(st["url"])
        e["out"] = o
        recs.append(e)
        if x is None:
            break
        pool.append(x)
    n = len(pool)
    objs = list(pool)
    canon_ok = []
    for x in pool:
        try:
            objs.append(env.canon(x))
            canon_ok.append(True)
        except Exception:
            objs.append(x)
            canon_ok.append(False)
    pairs = [env.pair(objs, i, j) for i, j in itertools.combinations(range(len(objs)), 2)]
    rts, seen = [], set()
    for i, x in enumerate(pool):
        if id(x) not in seen:
            seen.add(id(x))
            rts.append(env.roundtrip(x, i))
    rec = dict(k="route", steps=recs, objs=[env.proj(x) for x in objs], pairs=pairs, rts=rts)
    # labelling (not a verdict): the first step whose own result disagrees in hash with its keyword twin
    culprit = "none"
    for l in range(n):
        p = env.pair(objs, l, n + l)
        if p["eq"] and not p["heq"]:
            culprit = _shape(steps[l])
            break
    producer = []
    for l in range(n):
        st = steps[l]
        producer.append(producer[st["i"] - 1] if st["op"] == "str" else _shape(st))
    return rec, dict(culprit=culprit, producer=producer + ["kwargs"] * n, final=pool[-1] if n == len(steps) and pool else None)


def _shape(st):
    op = st["op"]
    if op == "ulink":
        return "ulink url=%s" % ("None" if st["url"] is None else "str")
    if op == "fromcolor":
        return "fromcolor"
    return op


def run_triple(env, case):
    S = env.Style
    env.clear_caches()
    ms = case["abc"]
    made = []
    for m in ms:
        x, o = env.out(lambda: make_real(env, m))
        if x is None:      # an operand could not even be built: judge that call on its own
            return run_route(env, [dict(m, op=m.get("via", "kwargs"))])
        made.append(x)
    a, b, c = made
    ab, o_ab = env.out(lambda: a + b)
    bc, o_bc = env.out(lambda: b + c)
    ab_c, o_ab_c = env.out(lambda: (a + b) + c)
    a_bc, o_a_bc = env.out(lambda: a + (b + c))
    an, o_an = env.out(lambda: a + S.null())
    na, o_na = env.out(lambda: S.null() + a)
    comb, o_comb = env.out(lambda: S.combine([a, b, c]))
    chain, o_chain = env.out(lambda: S.chain(a, b, c))

    def eq(x, y):
        try:
            return bool(x is not None and y is not None and x == y)
        except Exception:
            return False
    objs, labels, pairs, rts, at = [], [], [], [], {}
    for name, x, label in (("ab_c", ab_c, "add"), ("a_bc", a_bc, "add"), ("ab", ab, "add"), ("bc", bc, "add"),
                           ("comb", comb, "combine"), ("chain", chain, "chain"), ("a", a, ms[0].get("via", "kwargs")),
                           ("an", an, "add-null"), ("na", na, "null-add")):
        if x is None:
            continue
        at[name] = len(objs)
        objs.append(x)
        labels.append(label)
        try:
            objs.append(env.canon(x))
            labels.append("kwargs")
            pairs.append(env.pair(objs, at[name], at[name] + 1))
        except Exception:
            pass
    if "ab_c" in at and "a_bc" in at:
        pairs.append(env.pair(objs, at["ab_c"], at["a_bc"]))
    for name in ("ab_c", "ab", "a"):
        if name in at:
            rts.append(env.roundtrip(objs[at[name]], at[name]))
    rec = dict(k="triple", a=env.proj(a), b=env.proj(b), c=env.proj(c), ab=o_ab, bc=o_bc, ab_c=o_ab_c, a_bc=o_a_bc,
               an=o_an, na=o_na, comb=o_comb, chain=o_chain,
               eq_assoc=eq(ab_c, a_bc), eq_an=eq(an, a), eq_na=eq(na, a),
               objs=[env.proj(x) for x in objs], pairs=pairs, rts=rts)
    return rec, dict(labels=labels)


def run_gram(env, case):
    S = env.Style
    env.clear_caches()
    d = case["d"]
    x, o = env.out(lambda: S.parse(d))
    rec = dict(k="gram", toks=env.lex(d), out=o, objs=[], pairs=[], rts=[])
    if x is not None:
        objs = [x]
        try:
            objs.append(env.canon(x))
            rec["pairs"].append(env.pair(objs, 0, 1))
        except Exception:
            pass
        rec["objs"] = [env.proj(y) for y in objs]
        rec["rts"].append(env.roundtrip(x, 0, definition=d))
    return rec, {}


def run_class(env, case):
    """members: concrete routes that the model sends to the same abstract style"""
    finals, labels = [], []
    for steps in case["members"]:
        rec, meta = run_route(env, steps)
        if meta["final"] is not None:
            finals.append(meta["final"])
            labels.append(meta["culprit"])
    pairs = [env.pair(finals, i, j) for i, j in itertools.combinations(range(len(finals)), 2)]
    rec = dict(k="class", val=maker_abs(env, case["members"][0][0]), objs=[env.proj(x) for x in finals], pairs=pairs, rts=[])
    return rec, dict(labels=labels)


RUN = dict(route=lambda env, c: run_route(env, c["steps"]), triple=run_triple, gram=run_gram, **{"class": run_class})


# ---- instantiating TLC's abstract routes ---------------------------------------------------------------
class Binding:
    """a1, a2 -> two real attributes; the model's three colours and two links -> real ones"""

    def __init__(self, env, idx, rng, cpool):
        pairs = [(p, q) for p in ATTRS for q in ATTRS if p != q]
        self.idx = idx % len(pairs)
        self.a = dict(zip(("a1", "a2"), pairs[self.idx]))
        cols = rng.sample(cpool, 3)
        self.col = {}          # model colour (as json text) -> spelling
        self.cols = cols
        self.links = {1: rng.choice(URLS), 2: None}
        self.links[2] = rng.choice([u for u in URLS if u != self.links[1]])

    def color(self, mc):
        if not mc:
            return None
        key = json.dumps(mc)
        if key not in self.col:
            self.col[key] = self.cols[len(self.col) % 3]
        return self.col[key]

    def maker(self, st):
        kw = {self.a[k]: (v == "T") for k, v in sorted(st["attrs"].items()) if v != "U"}
        return dict(kw=kw, color=self.color(st["fg"]), bgcolor=self.color(st["bg"]),
                    link=self.links.get(st["link"]) if st["link"] else None)


def instantiate(env, beh, bind, rng):
    steps = []
    for o in beh:
        k = o["k"]
        if k in ("kwargs", "parse", "normparse"):
            m = bind.maker(o["st"])
            st = dict(m, op=k)
            if k == "kwargs":
                st["cv"] = rng.choice(["str", "str", "obj", "ctor"])
            else:
                st["d"] = render_def(m, rng)
            steps.append(st)
        elif k == "fromcolor":
            f, b = bind.color(o["fg"]), bind.color(o["bg"])
            steps.append(dict(op=k, fgs=f, bgs=b))
        elif k == "add":
            steps.append(dict(op=k, i=o["i"], j=o["j"]))
        elif k in ("chain", "combine"):
            steps.append(dict(op=k, ix=list(o["ix"])))
        elif k == "ulink":
            url = bind.links.get(o["l"]) if o["l"] else None
            steps.append(dict(op=k, i=o["i"], url=url))
        elif k in ("copy", "wc", "str"):
            steps.append(dict(op=k, i=o["i"]))
        else:
            raise ValueError(k)
    return steps


# ---- random styles over the whole domain ---------------------------------------------------------------
def random_maker(rng, cpool, attrs=None, dens=0.25):
    kw = {}
    for a in (attrs or ATTRS):
        r = rng.random()
        if attrs is not None:
            v = rng.choice([None, True, False])
        else:
            v = True if r < dens else False if r < 2 * dens else None
        if v is not None:
            kw[a] = v
    m = dict(kw=kw, color=rng.choice(cpool) if rng.random() < 0.5 else None,
             bgcolor=rng.choice(cpool) if rng.random() < 0.4 else None,
             link=rng.choice(URLS) if rng.random() < 0.35 else None)
    m["via"] = rng.choice(["kwargs", "kwargs", "parse", "normparse"])
    if m["via"] == "kwargs":
        m["cv"] = rng.choice(["str", "obj", "ctor"])
    else:
        m["d"] = render_def(m, rng)
    return m


GRAM_WORDS = ([w for ws in SPELL.values() for w in ws] + list(KEYWORDS) + [
    "default", "red", "bright_white", "grey0", "color(0)", "color(15)", "color(16)", "color(255)", "color(256)",
    "#000000", "#ffffff", "#af00ff", "rgb(175,0,255)", "rgb(0,0,0)", "rgb(255,255,255)", "rgb(256,0,0)",
    "foo", "bold2", "#12345", "rgb(1,2)", "https://example.org/a", "x",
    "BOLD", "Red", "#AF00FF", "NOT"])


def gram_shape(env, d):
    out = []
    for w in d.split()[:5]:
        t = env.lex_word(w)
        if t["t"] == "color":
            out.append(["default", "named", "num", "hex", "rgb"][t["c"][0]])
        elif t["t"] == "word":
            out.append("word")
        else:
            out.append(w.lower() if not t["up"] else w.lower() + "^")
    return ",".join(out)


# ---- the check -------------------------------------------------------------------------------------------
def run(chk: Check):
    env = Env()
    rng = chk.rng
    chk.rule = ("a case is one real execution judged by TLC: a triple of styles with all its sums; a construction "
                "route (<= 3 constructor calls) under one binding of the model's attributes/colours/links to real "
                "ones; a class of routes with the same model value; a style definition.  Non-trivial = triple with "
                ">= 2 non-null operands / route with a non-leaf constructor / class with >= 2 members / definition "
                "with >= 2 words; de-duplicated on the concrete input")
    chk.trusted = ["drivers/c06.py:Env.lex_word/color_word (lexer for definitions and str() output, own regexes)",
                   "drivers/c06.py:Env.proj (Style -> attrs/colour/link via the public getters; Color -> type/number/triplet + spelling class of .name)",
                   "drivers/c06.py:Binding/instantiate (substitutes real attributes, colours, urls for the model's)",
                   "== and hash() are evaluated by Python and passed to TLC as booleans"]
    chk.assumptions = ["links are non-empty and contain no whitespace; colours are default / a table name / color(n) / #rrggbb / rgb(r,g,b) "
                       "in canonical decimal form or Color objects made by Color.parse/from_ansi/from_rgb/default",
                       "the colour-name table (ANSI_COLOR_NAMES) is data of the tree under test",
                       "lru caches of Style.parse/normalize and Color.parse are cleared before each case (isolation, replayability)",
                       "the value of copy/update_link/without_color/from_color/keywords is pinned by the implementation-shaped part only (DRIFT); "
                       "the statement fixes +, combine/chain, parse, str/normalize round trips and eq=>hash"]
    counts = {}
    if env.digest != COLOR_TABLE_DIGEST:
        chk.drift_note("ANSI_COLOR_NAMES differs from the pinned 9.10.0 table (digest %s); spellings are checked against the edited table" % env.digest[:10])

    if chk.replay_only:
        c = chk.replay_only["case"]
        stream = iter([(c["kind"], c)])
    else:
        stream = generate(chk, env)

    # ---- execute on the real code and let TLC judge, batch by batch ---------------------------------------
    rejections, drifts, by_kind, shown = [], {}, {}, set()
    t_exec = t_judge = 0.0
    while True:
        batch = list(itertools.islice(stream, BATCH))
        if not batch:
            break
        t0 = time.time()
        recs, metas = [], []
        for kind, c in batch:
            rec, meta = RUN[kind](env, c)
            recs.append(rec)
            metas.append(meta)
            chk.case((kind, c), _nontrivial(kind, c))
            by_kind[kind] = by_kind.get(kind, 0) + 1
            if kind not in shown:
                shown.add(kind)
                chk.sample(dict(kind=kind, case=_brief(kind, c), observed=_obs(rec)))
        t1 = time.time()
        verdicts, st = tlc.judge("Trace_Style", recs, cfg="Trace_Style")
        t_exec, t_judge = t_exec + t1 - t0, t_judge + time.time() - t1
        chk.add_tlc(st, "M3")
        chk.traces += len(recs)
        for (kind, c), rec, meta, v in zip(batch, recs, metas, verdicts):
            if v == "ok":
                continue
            if v == "no-verdict":
                raise tlc.TLCFailure("Trace_Style gave no verdict for a %s record: %s" % (kind, json.dumps(c)[:400]))
            if v.startswith("drift "):
                sig = "%s %s" % (kind, re.sub(r"\d+", "n", v[6:]))
                drifts.setdefault(sig, (v, kind, c))
                continue
            for clause in v.split(" ; "):
                for sig in signatures(env, kind, c, rec, meta, clause):
                    rejections.append((sig, KIND_ORDER[kind] * 10 ** 6 + len(json.dumps(c)), clause, c))
        # keep only the smallest witnesses of each signature between batches (all are counted)
        rejections.sort(key=lambda r: (r[0], r[1]))
        kept, n = [], {}
        for r in rejections:
            n[r[0]] = n.get(r[0], 0) + 1
            if n[r[0]] <= 25:
                kept.append(r)
            else:
                counts[r[0]] = counts.get(r[0], 0) + 1
        rejections = kept
    chk.notes["records_by_kind"] = by_kind
    chk.notes["phase_wall_s"] = dict(chk.notes.get("phase_wall_s", {}), execute=round(t_exec, 1), judge=round(t_judge, 1))
    for sig, (v, kind, c) in sorted(drifts.items())[:12]:
        chk.drift_note("%s; e.g. %s" % (sig, json.dumps(_brief(kind, c))[:300]))
    for sig, _, v, c in rejections:
        counts[sig] = counts.get(sig, 0) + 1
        chk.reject(sig, "%s | witness: %s" % (v, json.dumps(_brief(c["kind"], c))[:420]), c)
    if counts:
        chk.notes["rejected_cases_by_signature"] = counts


def _nontrivial(kind, c):
    if kind == "triple":
        return sum(1 for m in c["abc"] if m["kw"] or m.get("color") or m.get("bgcolor") or m.get("link")) >= 2
    if kind == "route":
        return any(s["op"] not in ("kwargs", "parse", "normparse", "fromcolor") for s in c["steps"])
    if kind == "class":
        return len(c["members"]) >= 2
    return len(c["d"].split()) >= 2


def _brief(kind, c):
    def step(s):
        op = s["op"]
        if op == "kwargs":
            return "Style(%s)" % ", ".join("%s=%r" % (k, v) for k, v in list(s["kw"].items()) + [
                (k, s.get(k)) for k in ("color", "bgcolor", "link") if s.get(k) is not None]) + ("" if s.get("cv", "str") == "str" else "[colour as %s]" % s["cv"])
        if op == "parse":
            return "parse(%r)" % s["d"]
        if op == "normparse":
            return "parse(normalize(%r))" % s["d"]
        if op == "fromcolor":
            return "from_color(%s, %s)" % (s["fgs"], s["bgs"])
        if op == "add":
            return "#%d + #%d" % (s["i"], s["j"])
        if op in ("chain", "combine"):
            return "%s(%s)" % (op, ",".join("#%d" % i for i in s["ix"]))
        if op == "ulink":
            return "#%d.update_link(%r)" % (s["i"], s["url"])
        return {"copy": "#%d.copy()", "wc": "#%d.without_color", "str": "str(#%d)"}[op] % s["i"]
    if kind == "route":
        return [step(s) for s in c["steps"]]
    if kind == "class":
        return [[step(s) for s in m] for m in c["members"][:4]]
    if kind == "triple":
        return [step(dict(m, op=m.get("via", "kwargs"))) for m in c["abc"]]
    return c["d"]


def _obs(rec):
    if rec["k"] == "route":
        return [s["out"] for s in rec["steps"]]
    if rec["k"] == "triple":
        return dict(ab_c=rec["ab_c"], a_bc=rec["a_bc"])
    if rec["k"] == "gram":
        return rec["out"]
    return rec["objs"][:2]


def _field(parts):
    """'attribute 4' -> ' attribute=underline';  'color 2' -> ' color=num'"""
    if not parts:
        return ""
    if parts[0] == "attribute" and len(parts) > 1:
        return " attribute=" + ATTRS[int(parts[1]) - 1]
    if parts[0] in ("color", "bgcolor") and len(parts) > 1:
        return " %s=%s" % (parts[0], {"0": "default", "1": "named", "2": "num", "3": "hex", "4": "rgb"}.get(parts[1], parts[1]))
    return " " + parts[0]


def signatures(env, kind, c, rec, meta, v):
    """narrow, stable labels for a property-part rejection (clause + operation + argument shape)"""
    kind = rec.get("k", kind)          # a triple whose operand could not be built is judged as a one-step route
    if v.startswith("hash-differs"):
        sigs = set()
        for pr in v.split()[1:]:
            i, j = (int(x) - 1 for x in pr.split("-"))
            if kind == "route":
                lab = meta["culprit"] if meta["culprit"] != "none" else "pair"
            elif kind == "class":
                labs = [l for l in (meta["labels"][i], meta["labels"][j]) if l != "none"]
                lab = labs[0] if labs else "pair"
            elif kind == "triple":
                labs = [l for l in (meta["labels"][i], meta["labels"][j]) if l != "kwargs"]
                lab = labs[0] if labs else "kwargs"
            else:
                lab = "parse"
            sigs.add("hash-differs op=%s" % lab)
        return sorted(sigs)
    if v.startswith("roundtrip-"):
        parts = v.split()
        clause, i = parts[0] + _field(parts[2:]), int(parts[1]) - 1
        if kind == "route":
            return ["%s op=%s" % (clause, meta["producer"][i])]
        if kind == "triple":
            return ["%s op=%s" % (clause, meta["labels"][i])]
        return ["%s op=parse" % clause]
    if kind == "gram":
        parts = v.split()
        return ["%s%s op=parse" % (parts[0], _field(parts[1:]))]
    if kind == "route":
        m = re.match(r"step (\d+) (\w+) (.*)", v)
        if not m:
            return [v]
        return ["%s op=%s" % (m.group(3), _shape(c["steps"][int(m.group(1)) - 1]) if "steps" in c else m.group(2))]
    return [v]


# ---- generation --------------------------------------------------------------------------------------------
CFG = ("CONSTANTS\n  AttrSeq <- MCAttrSeq\n  NCol = %d\n  NLink = 2\n  NSeed = %d\n  GenDepth = %d\n  HashDesign = \"%s\"\n")
LAW_INV = ["AssocAll", "IdentityAll", "RightBiasAll", "CombineAll", "DesignAddAll", "RoundTripAll", "ColorsSpelled", "UnaryAll"]
ROUTE_INV = ["TypeOK", "Refines", "NullFlagSound", "MasksSound", "RouteRoundTrip", "HashConsistent", "HashExact"]
ROUTE_ACTIONS = ["FromKwargs", "ParseDef", "NormParse", "FromColorOp", "AddOp", "ChainOp", "CombineOp", "CopyOp",
                 "UpdateLinkOp", "WithoutColorOp", "StrOp"]


def generate(chk, env):
    rng = chk.rng
    t_gen = time.time()
    ncol, nseed, depth = chk.pick(2, 3), chk.pick(6, 9), 3
    law_cfg = CFG % (ncol, nseed, depth, "derived") + "INIT LawInit\nNEXT LawNext\n" + "".join(
        "INVARIANT %s\n" % i for i in LAW_INV) + "CHECK_DEADLOCK FALSE\n"
    route_cfg = lambda design: CFG % (3, nseed, depth, design) + "SPECIFICATION RouteSpec\nVIEW View\n" + "".join(
        "INVARIANT %s\n" % i for i in ROUTE_INV) + "CHECK_DEADLOCK FALSE\n"
    gen_cfg = CFG % (3, nseed, depth, "derived") + "SPECIFICATION RouteSpec\nCONSTRAINT Emit\nCHECK_DEADLOCK FALSE\n"
    with ThreadPoolExecutor(4) as ex:
        f_law = ex.submit(tlc.model_check, "MC_Style", cfg_text=law_cfg, coverage=False, tag="mc-law")
        f_rt = ex.submit(tlc.model_check, "MC_Style", cfg_text=route_cfg("derived"), workers=4, require_actions=ROUTE_ACTIONS, tag="mc-routes")
        f_st = ex.submit(tlc.model_check, "MC_Style", cfg_text=route_cfg("stored"), workers=2, coverage=False, tag="mc-stored")
        f_gen = ex.submit(tlc.behaviours, "MC_Style", cfg_text=gen_cfg, tag="gen-routes")
        r_law, _, _ = f_law.result()
        r_rt, cov, missing = f_rt.result()
        r_st, _, _ = f_st.result()
        behs, r_gen = f_gen.result()
    # M1: laws over all triples
    nsty = 9 * (ncol + 1) ** 2 * 3
    chk.add_tlc(r_law, "M1-laws")
    if r_law.violated or not r_law.finished or r_law.distinct != 1 + nsty + nsty * nsty:
        raise tlc.TLCFailure("MC_Style laws: violated=%s distinct=%d (expected %d)\n%s" % (
            r_law.violated, r_law.distinct, 1 + nsty + nsty * nsty, r_law.out[-2500:]))
    chk.notes["m1_laws"] = dict(styles=nsty, triples=nsty ** 3, invariants=LAW_INV, wall_s=round(r_law.wall, 1))
    # M1: routes machine, repaired hash design (non-vacuity of eq=>hash) ...
    chk.add_tlc(r_rt, "M1-routes")
    if r_rt.violated or missing or not r_rt.finished:
        raise tlc.TLCFailure("MC_Style routes: violated=%s never-fired=%s\n%s" % (r_rt.violated, missing, r_rt.out[-2500:]))
    chk.notes["m1_routes_action_coverage"] = {k: v[1] for k, v in cov.items() if k in ROUTE_ACTIONS}
    # ... and the transcription of the stored hash of 9.10.0: informational (TLC refutes HashConsistent)
    chk.add_tlc(r_st, "M1-stored-design")
    chk.notes["m1_stored_hash_design"] = ("TLC refutes %s at depth %d for the stored-hash transcription of 9.10.0 "
                                          "(informational; the conformance records decide)" % (r_st.violated, r_st.diameter)
                                          if r_st.violated else "not refuted")
    # M2
    chk.add_tlc(r_gen, "M2")
    if not behs:
        raise tlc.TLCFailure("no routes generated\n" + r_gen.out[-2000:])
    chk.notes["tlc_generated_routes"] = len(behs)

    chk.notes["phase_wall_s"] = dict(tlc_m1_m2=round(time.time() - t_gen, 1))
    cpool = color_pool(env, rng, chk.pick(20, 200))
    # ---- routes and classes
    classes = {}
    for b in behs:
        classes.setdefault(json.dumps(b["val"], sort_keys=True), []).append(b["beh"])
    K, reps = max(chk.pick(5, 13), -(-156 // len(classes))), chk.pick(1, 2)      # classes * K >= 156: every ordered attribute pair is bound
    bindings = {}
    groups = {}
    for ci, (val, routes) in enumerate(sorted(classes.items())):
        routes.sort(key=lambda r: json.dumps(r, sort_keys=True))
        for ri, beh in enumerate(routes):
            for t in range(reps):
                bi = (ci * K + (ri + t) % K) % 156
                bind = bindings.get(bi) or bindings.setdefault(bi, Binding(env, bi, rng, cpool))
                steps = instantiate(env, beh, bind, rng)
                yield "route", dict(kind="route", steps=steps)
                groups.setdefault((val, bi), []).append((tuple(o["k"] for o in beh), steps, bind))
    chk.notes["route_classes"] = len(classes)
    chk.notes["attribute_pairs_bound"] = len(bindings)
    for (val, bi), members in sorted(groups.items(), key=lambda kv: (kv[0][0], kv[0][1])):
        by_shape = {}
        for shape, steps, bind in members:
            by_shape.setdefault(shape, steps)
        reps_ = [by_shape[s] for s in sorted(by_shape)]
        bind = members[0][2]
        canon = [dict(bind.maker(json.loads(val)), op="kwargs", cv="str")]
        for i in range(0, len(reps_), 7):
            yield "class", dict(kind="class", members=[canon] + reps_[i:i + 7])
    # ---- triples: every ordered pair of real attributes over the model's small domain, plus random full styles
    small = [None, "red", "#010203", "default"]
    per_pair = chk.pick(30, 729)
    pairs = [(p, q) for p in ATTRS for q in ATTRS if p != q]
    tri = [None, True, False]
    for (p, q) in pairs:
        combos = list(itertools.product(tri, repeat=6))
        chosen = combos if per_pair >= len(combos) else rng.sample(combos, per_pair)
        for vs in chosen:
            abc = []
            for k in range(3):
                kw = {a: v for a, v in ((p, vs[2 * k]), (q, vs[2 * k + 1])) if v is not None}
                m = dict(kw=kw, color=rng.choice(small), bgcolor=rng.choice(small),
                         link=rng.choice([None, None, URLS[0], URLS[1]]), via="kwargs", cv=rng.choice(["str", "obj", "ctor"]))
                if rng.random() < 0.3:
                    m["via"] = "parse"
                    m["d"] = render_def(m, rng)
                abc.append(m)
            yield "triple", dict(kind="triple", abc=abc)
    for _ in range(chk.pick(2500, 40000)):
        dens = rng.choice([0.08, 0.2, 0.33])
        yield "triple", dict(kind="triple", abc=[random_maker(rng, cpool, dens=dens) for _ in range(3)])
    # ---- grammar: all definitions of <= 2 (quick) / 3 (thorough) words, random longer ones
    words = GRAM_WORDS
    chk.notes["grammar_vocabulary"] = len(words)
    yield "gram", dict(kind="gram", d="")
    for n in range(1, chk.pick(2, 3) + 1):
        for ws in itertools.product(words, repeat=n):
            yield "gram", dict(kind="gram", d=" ".join(ws))
    for _ in range(chk.pick(6000, 80000)):
        n = rng.randint(3, 6)
        ws = []
        while len(ws) < n:
            r = rng.random()
            w = rng.choice(words)
            if r < 0.25:
                ws += ["not", rng.choice(list(WORD_ATTR))]
            elif r < 0.4:
                ws += ["on", rng.choice(cpool)]
            elif r < 0.5:
                ws += ["link", rng.choice(URLS)]
            elif r < 0.7:
                ws.append(rng.choice(cpool))
            else:
                ws.append(w)
        yield "gram", dict(kind="gram", d=" ".join(ws))
