"""C09 - measurements are sound bounds on what rendering produces.

The trees of C01 (TLC-generated builder histories + seeded random trees, incl. renderables without __rich_measure__ and
objects cast via __rich__) and every one of their sub-trees are measured with Measurement.get(console, renderable, avail)
for avail sampled over 0..200 (0..5, around the structural minimum, a ladder, random points); the renderable is then
rendered with exactly the reported maximum and the reported minimum available.  TLC (Trace_Layout) judges
0 <= min <= max <= avail, Fits at max / at min when the value is >= MinW, and for text leaves without tabs
min = widest word, max = widest line (computed by TLC from per-character classes / widths) and "not wrapped at max"."""
from engine import tlc
from engine.harness import Check


def sig_extra(word, kv):
    if word == "max-overflow":
        return "max-m=%d" % (kv.get("max", 0) - kv.get("m", 0))
    if word == "min-overflow":
        return "min-m=%d" % (kv.get("min", 0) - kv.get("m", 0))
    return ""


def run(chk: Check):
    from drivers import layout_gen as G
    chk.rule = ("the abstract renderable trees of C01 (TLC-enumerated builder histories + seeded random trees, nesting <= 4, all "
                "layout options, contents over ASCII / CJK / emoji / combining / zero-width / newline / tab) and every sub-tree of "
                "them; Measurement.get at avail in {0..5, MinW-1..MinW+6, x1.6 ladder to 200, 4 random points} (sub-trees: 10 "
                "points), then Console.render with exactly max and exactly min cells.  evaluation = one record (renderable, all its "
                "(avail, min, max, lines at max, lines at min)); non-trivial = a render at max or min >= MinW was judged, or a "
                "text-exactness clause applied")
    chk.trusted = ["drivers/layout_gen.py:line_widths (segments -> lines -> rich.cells.cell_len of the tree under test)",
                   "drivers/layout_gen.py:project_text (character -> class {char, space, newline, tab, other} and cell width)",
                   "drivers/layout_gen.py:build (abstract tree -> constructor calls)"]
    chk.assumptions = ["default console: Console(color_system=None, legacy_windows=False, utf-8); half of the random trees are measured and rendered "
                       "under a non-default environment (layout_gen.gen_env: options.update(width= | max_width=) on a wider console, ascii-only, "
                       "legacy_windows, safe_box off, colour systems, justify / overflow / no_wrap through the options, tab size, highlighting off)",
                       "MinW as documented in specs/Layout.tla; trees outside C01's quantifier are judged on the bounds and text clauses only",
                       "the statement is silent on the minimum of a text without any word: not judged",
                       "a rejected record that has a rejected proper sub-tree is attributed to the sub-tree"]
    if chk.replay_only:
        trees = [chk.replay_only["case"]["tree"]]
    else:
        trees = G.model_part(chk, tlc)
        n_tlc = len(trees)
        if not chk.thorough and n_tlc > 300:
            keep = sorted(chk.rng.sample(range(n_tlc), 300))
            trees = [trees[i] for i in keep]
        n_used = len(trees)
        for _ in range(chk.pick(300, 4000)):
            trees.append(G.gen(chk.rng, 4))
        # text leaves on their own: the exactness clauses
        for _ in range(chk.pick(600, 6000)):
            trees.append(G.mk_txt(chk.rng, False, chk.rng.choice([4, 8, 12, 20]), hist_p=0.2))      # a fifth: reused objects (measured, edited in place, measured again)
        n_rand = len(trees) - n_used
        trees += G.boundary_trees()         # every kind of renderable x every environment preset (hand-listed, deterministic)
        chk.notes["trees"] = dict(tlc_generated=n_tlc, tlc_used=n_used, random=n_rand, boundary=len(trees) - n_used - n_rand)
    prod = G.produce("C09", trees, subs=True, seed=chk.seed)
    items = [it for p in prod for it in p]
    chk.mark("measure+render")
    excs = {}
    for it in items:
        for k, n in it[3].items():
            excs[k] = excs.get(k, 0) + n
    if excs:
        chk.notes["exceptions_while_measuring_or_rendering_(C14's subject)"] = excs
    verdicts = G.judge(chk, tlc, "C09", items)
    chk.mark("judge")
    ntext = 0
    for (origin, tree, rec, _e), v in zip(items, verdicts):
        word, kv = G.parse_verdict(v)
        istext = tree["k"] == "txt"
        ntext += istext
        chk.case(rec, word not in ("ok", "oos") or kv.get("j", 0) > 0 or istext)
    chk.notes["records"] = dict(top=sum(1 for it in items if it[0] == "top"), sub_trees=sum(1 for it in items if it[0] != "top"),
                                text_leaves=ntext, measurements=sum(len(it[2]["ms"]) for it in items))
    G.handle(chk, tlc, "C09", items, verdicts, sig_extra, cap=chk.pick(24, 80))
    chk.mark("minimise")
    for it, v in list(zip(items, verdicts))[:2] + list(zip(items, verdicts))[-2:]:
        chk.sample(dict(origin=it[0], shape=G.shape(it[1])[:300], measurements=it[2]["ms"][:3], verdict=v))
