"""X02 (beyond the listed properties, DESIGN.md §14): the time column of Console.log against specs/LogRender.tla.
M1 MC_LogRender, M2 TLC-emitted histories + seeded random ones run on a real Console with a caller-supplied clock,
M3 Trace_LogRender judges the observed rows.  Not registered in MANIFEST.json; evidence in evidence_extra/X02.json."""
import datetime, io, os, re
from engine import tlc

WIDTH = 60
FORMATS = ["[%X]", "%H:%M:%S", "[%H:%M]", "%S"]


def run_hist(ops, fmt, path, markup_time):
    """ops: [dict(k="log"|"print", t=id, h=rows)] -> rows as the user sees them (lexical projection)."""
    from rich.console import Console
    base = datetime.datetime(2020, 1, 2, 10, 11, 12)
    times = {t: base + datetime.timedelta(minutes=7 * t, seconds=13 * t) for t in range(0, 8)}
    texts = {t: times[t].strftime(fmt) for t in times}
    if len(set(texts.values())) != len(texts):
        raise RuntimeError("x02: time ids are not distinct under %r" % fmt)
    cur = [0]
    console = Console(file=io.StringIO(), width=WIDTH, color_system=None, force_terminal=False, log_time_format=fmt,
                      log_path=path, get_datetime=lambda: times[cur[0]], legacy_windows=False)
    exc, n = "none", 0
    try:
        for o in ops:
            n += 1
            label = "\n".join("m%dr%d" % (n, i) for i in range(o["h"]))
            if o["k"] == "log":
                cur[0] = o["t"]
                console.log(label)
            else:
                console.print(label)
    except Exception as e:          # an observation for TLC
        exc = type(e).__name__
    rows = []
    tw = len(texts[1])
    by_text = {v: k for k, v in texts.items()}
    for line in console.file.getvalue().split("\n")[:-1]:
        m = re.search(r"m(\d+)r(\d+)", line)
        head = line[:tw]
        first = bool(m) and m.group(2) == "0" and ops[int(m.group(1)) - 1]["k"] == "log"
        if head in by_text and (m is None or m.start() >= tw):
            t = by_text[head]
        elif head.strip() == "" or (m is not None and m.start() < tw):      # blank time cell, or a print row (no time column)
            t = 0
        else:
            t = -1
        rows.append(dict(t=t, own=ops[int(m.group(1)) - 1]["t"] if first else 0, first=first))
    return dict(ops=ops, rows=rows, exc=exc, fmt=fmt)


def run(chk):
    r, cov, missing = tlc.model_check("MC_LogRender", cfg="MC_LogRender", require_actions=["LogA", "PrintA"])
    chk.add_tlc(r, "M1")
    if r.violated:
        raise tlc.TLCFailure("MC_LogRender: the design violates its own property part:\n" + r.out[-1500:])
    cfg_text = open(os.path.join(tlc.SPECS, "MC_LogRender.cfg")).read().replace("GenDepth = 0", "GenDepth = 4").replace("MaxOps = 5", "MaxOps = 4").replace("VIEW View\n", "")
    behs, r2 = tlc.behaviours("MC_LogRender", cfg_text=cfg_text, workers=4)
    chk.add_tlc(r2, "M2")
    cases = [dict(ops=b["beh"], fmt="[%X]", path=False) for b in behs]
    chk.notes["tlc_generated_histories"] = len(cases)
    rng = chk.rng
    for _ in range(chk.pick(1500, 15000)):
        ops = []
        for _ in range(rng.randint(1, 12)):
            if rng.random() < 0.75:
                ops.append(dict(k="log", t=rng.choice([1, 1, 2, 2, 3, 4, 5]), h=rng.choice([1, 1, 2, 3])))
            else:
                ops.append(dict(k="print", t=0, h=rng.choice([1, 2])))
        cases.append(dict(ops=ops, fmt=rng.choice(FORMATS), path=rng.random() < 0.5))
    if chk.replay_only:
        cases = [chk.replay_only["case"]]
    recs = [run_hist(c["ops"], c["fmt"], c["path"], False) for c in cases]
    verdicts, stats = tlc.judge("Trace_LogRender", recs)
    chk.add_tlc(stats, "M3"); chk.traces += len(recs)
    for c, rec, v in zip(cases, recs, verdicts):
        shape = tuple((o["k"], o["h"]) for o in c["ops"][:6])
        chk.case((shape, tuple(x["t"] for x in rec["rows"][:8])), any(x["first"] and x["t"] == 0 for x in rec["rows"]))
        if len(chk.samples) < 4:
            chk.sample(dict(ops=c["ops"], rows=rec["rows"], verdict=v))
        if v != "ok":
            chk.reject("%s fmt=%s path=%s" % (v, c["fmt"], c["path"]), dict(observed=rec), c)
    chk.rule = "distinct (call shapes, times shown per row); nontrivial = some log row shows a blank time cell"
    chk.trusted = "x02.run_hist (row tokeniser: time text at the start of a row, message labels)"
