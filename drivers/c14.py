"""C14 - no input makes the pipeline fail with an undocumented error.

(1) TLC (MC_Parsers) enumerates every token sequence over the alphabet of syntax-significant fragments of each entry point
    (bounded length, also inside a few syntactic contexts) and checks the grammar's own sanity invariants; every sequence
    is joined into a string and fed to its entry point of the real code; TLC (Trace_Parsers) judges the observed outcome
    class: outside Allowed(entry) -> rejection; allowed but different from Predicted -> DRIFT.
(2) seeded random Unicode strings (astral, controls, combining, RTL / bidi controls, digits of many scripts, very long,
    spliced into syntax templates) go to ALL entry points; only the property part (Allowed) applies.
(3) random trees of built-in renderables with valid options (drivers/layout_gen.py, plus option stress: fixed widths
    larger than the terminal, empty tables / columns / groups, ...) are rendered (render_lines, print) and measured at
    every width 1..12 and a ladder to 200; TLC's verdict is `outcome = "ok"` for every width >= 1.
Python only runs the code and names the exception class; TLC decides."""
import hashlib
import io
import json
import os
import re
import signal
import traceback

from engine import tlc
from engine.harness import Check

DOCUMENTED = ["ColorParseError", "StyleSyntaxError", "MissingStyle", "MarkupError"]
ENTRY_ORDER = ["color", "style", "get", "getd", "markup", "printm", "decode", "text", "print"]
WIDTHS = list(range(1, 13)) + [18, 28, 43, 66, 100, 150, 200]
_W = {}
ACTIONS = ["ColorOk", "ColorErr", "StyleOk", "StyleErr", "GetOk", "GetMissing", "GetdOk", "MarkupOk", "MarkupErr",
           "PrintmOk", "PrintmErr", "DecodeOk", "TextOk", "PrintOk"]


# ---- the real entry points ---------------------------------------------------------------------------
class Real:
    def __init__(self):
        from rich import errors
        from rich.ansi import AnsiDecoder
        from rich.color import ANSI_COLOR_NAMES, Color, ColorParseError
        from rich.console import Console
        from rich.markup import render
        from rich.style import Style
        from rich.text import Text
        from rich.themes import DEFAULT
        self.doc = dict(ColorParseError=ColorParseError, StyleSyntaxError=errors.StyleSyntaxError,
                        MissingStyle=errors.MissingStyle, MarkupError=errors.MarkupError)
        self.names = sorted(ANSI_COLOR_NAMES)
        self.theme = sorted(DEFAULT.styles)
        self.consoles = [Console(file=io.StringIO(), width=80, color_system=None, legacy_windows=False),
                         Console(file=io.StringIO(), width=7, force_terminal=True, color_system="truecolor", legacy_windows=False)]
        c0 = self.consoles[0]
        # further console configurations a string can meet (a print must not raise on any of them)
        more = [Console(file=io.StringIO(), width=1, color_system=None, legacy_windows=False),
                Console(file=io.StringIO(), width=20, force_terminal=True, color_system="standard", no_color=True, legacy_windows=False),
                Console(file=io.StringIO(), width=11, force_terminal=True, color_system="256", legacy_windows=False, tab_size=1),
                Console(file=io.StringIO(), width=40, force_terminal=True, color_system="windows", legacy_windows=True),
                Console(file=io.StringIO(), width=200, color_system=None, record=True, legacy_windows=False),
                Console(file=io.StringIO(), width=30, color_system=None, markup=False, emoji=False, highlight=False, legacy_windows=False),
                Console(file=io.StringIO(), width=9, force_terminal=True, color_system="truecolor", soft_wrap=True, legacy_windows=False)]
        self.more = more

        def reset(c):
            c.file.seek(0)
            c.file.truncate()
            if c.record:
                c.export_text(clear=True)

        def prints(*objs, **kw):
            for c in self.consoles:
                c.print(*objs, **kw)
                reset(c)

        def on(i, f):
            def run(s):
                f(more[i], s)
                reset(more[i])
            return run

        shared = AnsiDecoder()          # one long-lived decoder: what it decoded before must not make a later string fail

        def decode_shared(s):
            for line in s.splitlines() or [""]:
                shared.decode_line(line)

        self.fn = dict(
            color=lambda s: Color.parse(s),
            style=lambda s: Style.parse(s),
            get=lambda s: c0.get_style(s),
            getd=lambda s: c0.get_style(s, default="bold"),
            markup=lambda s: render(s),
            printm=lambda s: prints(s),
            decode=lambda s: list(AnsiDecoder().decode(s)),
            text=lambda s: Text(s),
            print=lambda s: prints(s, markup=False))
        # other public routes into the same parsers / printers; each is judged with the outcome set of its base entry point
        PRINT_KW = [dict(justify="center"), dict(justify="right", overflow="ellipsis"), dict(justify="full"), dict(overflow="crop", no_wrap=True),
                    dict(overflow="ignore", crop=False), dict(soft_wrap=True), dict(width=3), dict(style="red on blue"), dict(end=""),
                    dict(highlight=False, emoji=False), dict(no_wrap=True, width=1)]
        self.variants = dict(
            color=[("Style(color=)", lambda s: Style(color=s)), ("Style(bgcolor=)", lambda s: Style(bgcolor=s)),
                   ("parse twice", lambda s: (Color.parse(s), Color.parse(s)))],
            style=[("normalize", lambda s: Style.normalize(s)), ("parse twice", lambda s: (Style.parse(s), Style.parse(s))),
                   ("pick_first", lambda s: Style.pick_first(None, s))],
            get=[("other console", lambda s: more[1].get_style(s))],
            getd=[("default=Style", lambda s: c0.get_style(s, default=Style(bold=True)))],
            markup=[("Text.from_markup", lambda s: Text.from_markup(s)), ("render emoji=False", lambda s: render(s, emoji=False)),
                    ("render style=", lambda s: render(s, "bold")),
                    ("from_markup opts", lambda s: Text.from_markup(s, emoji=False, justify="center", overflow="fold", style="on red")),
                    ("render_str", lambda s: c0.render_str(s, markup=True))],
            printm=[("print %s" % sorted(kw), (lambda kw: lambda s: prints(s, **kw))(kw)) for kw in PRINT_KW]
                   + [("console %d" % i, on(i, lambda c, s: c.print(s, markup=True))) for i in range(len(more))]
                   + [("log", lambda s: (c0.log(s), reset(c0))), ("rule", lambda s: (c0.rule(s), reset(c0))),
                      ("two args", lambda s: prints(s, s, sep=" | "))],
            decode=[("shared decoder", decode_shared), ("decode_line", lambda s: [AnsiDecoder().decode_line(l) for l in s.split("\n")]),
                    ("decode+print", lambda s: [prints(t) for t in AnsiDecoder().decode(s)])],
            text=[("Text style=", lambda s: Text(s, style="bold", justify="full", overflow="ellipsis", no_wrap=True, end=s[:1], tab_size=1)),
                  ("append", lambda s: Text("x").append(s, "red")), ("assemble", lambda s: Text.assemble(s, (s, "bold"))),
                  ("styled", lambda s: Text.styled(s, "italic")), ("Text + ops", lambda s: (lambda t: (t.expand_tabs(), t.split(), t.rstrip(), len(t), t.cell_len))(Text(s)))],
            print=[("print %s" % sorted(kw), (lambda kw: lambda s: prints(s, markup=False, **kw))(kw)) for kw in PRINT_KW]
                  + [("console %d" % i, on(i, lambda c, s: c.print(s, markup=False))) for i in range(len(more))]
                  + [("print(Text)", lambda s: prints(Text(s))), ("out", lambda s: (c0.out(s), reset(c0))),
                     ("log markup=False", lambda s: (c0.log(s, markup=False), reset(c0))),
                     ("export", lambda s: (more[4].print(s, markup=False), more[4].export_html(clear=False), more[4].export_text(clear=True), reset(more[4])))])

    def observe(self, entry, s, variant=None):
        """-> dict(out, isa, where, msg): the outcome class of one call (lexical facts only); variant: index into self.variants[entry]"""
        try:
            with _deadline(60):
                if variant is None:
                    self.fn[entry](s)
                else:
                    self.variants[entry][variant][1](s)
            return dict(out="ok", isa=[], where="", msg="")
        except Exception as e:          # a crash inside Rich is data for TLC
            return describe(e, self.doc)


def describe(e, doc):
    tb = traceback.extract_tb(e.__traceback__)
    fr = tb[-1] if tb else None
    where = "%s.%s" % (os.path.basename(fr.filename)[:-3], fr.name) if fr else "?"
    words = "".join(c if c.isalpha() else " " for c in re.sub(r"'[^']*'|\"[^\"]*\"", " ", str(e)[:300])).split()
    return dict(out=type(e).__name__[:24], isa=[n for n, cls in doc.items() if isinstance(e, cls)], where=where,
                msg=("%s: %s" % (type(e).__name__, e))[:160], line=fr.lineno if fr else 0, mclass="-".join(words[:3]).lower())


class _deadline:
    """the statement says rendering / measuring TERMINATE: a call that runs longer than `sec` is recorded as outcome NoTermination"""

    def __init__(self, sec):
        self.sec = sec

    def __enter__(self):
        def fire(signum, frame):
            raise NoTermination("no result after %d s" % self.sec)
        try:
            self.old = signal.signal(signal.SIGALRM, fire)
            signal.alarm(self.sec)
        except ValueError:          # not the main thread
            self.old = None

    def __exit__(self, *a):
        if self.old is not None:
            signal.alarm(0)
            signal.signal(signal.SIGALRM, self.old)
        return False


class NoTermination(Exception):
    pass


# ---- (1) token sequences from TLC ------------------------------------------------------------------------
def mc_cfg(b, emit=True):
    return ("CONSTANTS\n  ColorNames <- MCColorNames\n  ThemeNames <- MCThemeNames\n"
            + "".join("  %s = %d\n" % kv for kv in b.items())
            + "  EmitOn = %s\n" % ("TRUE" if emit else "FALSE")
            + "SPECIFICATION Spec\nINVARIANT TypeOK\nINVARIANT PredictedAllowed\nINVARIANT Layering\nINVARIANT NoBracketNoError\n"
            + "CONSTRAINT Emit\nCHECK_DEADLOCK FALSE\n")


def enumerate_inputs(chk):
    """M1: MC_Parsers.cfg (small bounds) with -coverage: every (entry, predicted class) action fires, grammar invariants hold.
    M1+M2: the same module at the tier's bounds, invariants on, every state printed as JSON.  The two runs overlap."""
    from concurrent.futures import ThreadPoolExecutor
    bounds = chk.pick(
        dict(LColor=4, LStyle=4, LGet=3, LGetd=3, LMarkup=4, LPrintm=3, LDecode=3, LText=2, LPrint=2, CtxCut=1),
        dict(LColor=5, LStyle=5, LGet=4, LGetd=3, LMarkup=5, LPrintm=4, LDecode=4, LText=3, LPrint=3, CtxCut=1))
    with ThreadPoolExecutor(2) as ex:
        f1 = ex.submit(tlc.model_check, "MC_Parsers", cfg="MC_Parsers", require_actions=ACTIONS, timeout=1800, workers=4, tag="c14cov")
        f2 = ex.submit(tlc.model_check, "MC_Parsers", cfg_text=mc_cfg(bounds), coverage=False, timeout=3400, heap="8g", tag="c14gen")
        r1, cov, missing = f1.result()
        r, _, _ = f2.result()
    chk.add_tlc(r1, "M1-coverage")
    chk.add_tlc(r, "M1+M2")
    for x in (r1, r):
        if x.violated or not x.finished:
            raise tlc.TLCFailure("MC_Parsers: violated=%s finished=%s\n%s" % (x.violated, x.finished, x.out[-2500:]))
    if missing:
        raise tlc.TLCFailure("MC_Parsers: actions never fired: %s" % missing)
    chk.notes["m1_action_coverage"] = {k: v[1] for k, v in cov.items() if k in ACTIONS}
    chk.notes["bounds"] = bounds
    toktable, inputs = None, []
    for line in r.out.splitlines():
        if line.startswith('"{\\"beh\\"'):
            b = json.loads(json.loads(line))["beh"]
            inputs.append((b["e"], b["c"], b["t"]))
        elif line.startswith('"{\\"toktable\\"'):
            toktable = ["".join(map(chr, t)) for t in json.loads(json.loads(line))["toktable"]]
    r.out = r.out[-4000:]
    if toktable is None or len(inputs) != r.distinct:
        raise tlc.TLCFailure("MC_Parsers emitted %d inputs for %d states (token table: %s)" % (len(inputs), r.distinct, toktable is not None))
    inputs.sort(key=lambda x: (ENTRY_ORDER.index(x[0]), len(x[2]), x[2], x[1]))
    return toktable, inputs


def _replay_chunk(arg):
    toktable, chunk = arg
    R = _W.get("R")
    if R is None:
        R = _W["R"] = Real()
    out = []
    for entry, ctx, ids in chunk:
        out.append(R.observe(entry, "".join(toktable[i - 1] for i in ids)))
    return out


def _observe_chunk(chunk):
    R = _W.get("R")
    if R is None:
        R = _W["R"] = Real()
    return [R.observe(*x) for x in chunk]


def observe_many(R, pairs):
    """pairs: (entry, string) or (entry, string, variant index)"""
    if len(pairs) < 4000:
        return [R.observe(*x) for x in pairs]
    import multiprocessing as mp
    nproc = min(12, os.cpu_count() or 2)
    chunks = [pairs[i:i + 900] for i in range(0, len(pairs), 900)]
    with mp.get_context("fork").Pool(nproc) as pool:
        parts = pool.map(_observe_chunk, chunks, chunksize=1)
    return [o for p in parts for o in p]


def replay_inputs(R, toktable, inputs):
    """observations aligned with inputs; large batches go through a pool of forked workers (pure function of the input)"""
    if len(inputs) < 60000:
        return [R.observe(e, "".join(toktable[i - 1] for i in ids)) for e, _c, ids in inputs]
    import multiprocessing as mp
    nproc = min(12, os.cpu_count() or 2)
    size = 5000
    chunks = [(toktable, inputs[i:i + size]) for i in range(0, len(inputs), size)]
    with mp.get_context("fork").Pool(nproc) as pool:
        parts = pool.map(_replay_chunk, chunks, chunksize=1)
    return [o for p in parts for o in p]


# ---- (2) random Unicode ------------------------------------------------------------------------------------
DIGITS = ("0123456789" "٠٣٩" "۴" "१९" "৩" "๓" "༣" "１９" "\U0001d7d8\U0001d7ff"
          "²³¹⁰⁹₁" "①⑳" "½⅕" "ⅠⅫ〇" "௰፩〡三" "\U00010107\U0001f10a")
TEMPLATES = ["rgb(%s,%s,%s)", "rgb(%s)", "color(%s)", "#%s", "\x1b[%sm", "\x1b[38;5;%sm", "\x1b[48;2;%s;%s;%sm", "\x1b[%s;%sm", "\x1b]8;;%s\x1b\\",
             "\x1b]%s\x1b\\", "[%s]x[/%s]", "[/%s]", "[%s]", "[link=%s]x[/link]", "\\[%s]", "\\\\[%s][/]", "on %s", "not %s", "link %s",
             "%s on %s", "bold %s", ":%s:", "%s\n%s", "[%s=%s]", "[bold]%s[/]", "%s",
             # decoder: other CSI final bytes, unterminated / BEL-terminated / nested OSC, colon sub-parameters, truncated colour arguments
             "\x1b[%s%s", "\x1b[%s", "\x1b%s", "\x1b]8;%s;%s\x07", "\x1b]8;;%s", "\x1b[38:2:%s:%s:%sm", "\x1b[38;2;%s;%sm", "\x1b[38;5m%s",
             "\x1b[48;%sm", "\x1b[38;%s;%s;%s;%sm", "\x1b[1;%s;38;5;%s;4m%s\x1b[0m", "\x1b]8;id=%s;http://%s\x1b\\%s\x1b]8;;\x1b\\", "\r%s\x1b[2K%s\r\n",
             # colours / styles / markup: signs, floats, per cent, nesting, closing by style, escapes before tags, emoji with tags
             "rgb(-%s,%s,%s)", "rgb(%s.5,1,1)", "rgb(%s%%,1,1)", "color(-%s)", "#%s%s", "RGB(%s,%s,%s)", "not not %s", "link%s", "%s on", "%s link %s on %s",
             "[%s][%s]x[/%s][/%s]", "[on %s]x[/on %s]", "[link]%s[/link]", "[link=%s][link=%s]x[/link][/link]", "\\\\\\[%s]", ":%s:[%s]:%s:[/]",
             "[/%s][%s]", "[%s]\n[/%s]", "[[%s]]", "[%s", "%s]"]


def rand_chunk(rng, toktable):
    r = rng.random()
    n = rng.choice([1, 1, 2, 3, 5, 9])
    if r < 0.14:
        return "".join(chr(rng.randrange(0x10000, 0x110000)) for _ in range(n)), "astral"
    if r < 0.26:
        return "".join(chr(rng.choice(list(range(0, 32)) + list(range(127, 160)))) for _ in range(n)), "control"
    if r < 0.36:
        return "".join(rng.choice("aeo世") + "".join(chr(rng.randrange(0x300, 0x370)) for _ in range(rng.randint(1, 6))) for _ in range(n)), "combining"
    if r < 0.46:
        return "".join(rng.choice("אתابي‏‎‪‫‬‭‮⁦⁧⁨⁩؜") for _ in range(n)), "rtl"
    if r < 0.64:
        return "".join(rng.choice(DIGITS) for _ in range(n)), "digits"
    if r < 0.78:
        return rng.choice(toktable), "token"
    if r < 0.86:
        return "".join(rng.choice(" \t\n\r\x0b\x0c\x1c\x1d\x1e\x1f\x85\xa0      　﻿​") for _ in range(n)), "blank"
    if r < 0.90:
        return "".join(rng.choice("İıßẞﬁǅΣςKＡａ") for _ in range(n)), "case"
    out = []
    for _ in range(n):
        cp = rng.randrange(0, 0x110000)
        while 0xD800 <= cp <= 0xDFFF:
            cp = rng.randrange(0, 0x110000)
        out.append(chr(cp))
    return "".join(out), "any"


def long_number_strings():
    """every numeric template with ONE argument a numeral beyond the interpreter's int() digit limit (sys.get_int_max_str_digits, 4300)
    and the others small and valid: a component no regular expression of digits rules out"""
    out = []
    for ti, tpl in enumerate(TEMPLATES):
        k = tpl.count("%s")
        if k == 0 or not any(x in tpl for x in ("rgb", "color", "#", "\x1b[", "RGB")):
            continue
        for body, cls in (("9" * 4400, "nines"), ("0" * 4400 + "7", "zeros"), ("1" * 4301, "ones")):
            for pos in range(k):
                args = ["1"] * k
                args[pos] = body
                out.append((tpl % tuple(args), "longnum/%s/%d@%d" % (cls, ti, pos)))
    return out


def rand_string(rng, toktable):
    """-> (string, shape): shape (template + classes of the chunks) is what signatures may mention, never the data"""
    r = rng.random()
    if r < 0.06:                      # very long
        unit, cls = rand_chunk(rng, toktable)
        if rng.random() < 0.5:
            unit, cls = rng.choice(["1", "٣", "9", "a", "[", "\\", ";", " ", ","]), "rep"
        reps = rng.choice([4301, 4400, 6000]) // max(1, len(unit)) + 1
        body = unit * reps
        tpl = rng.choice(TEMPLATES)
        k = tpl.count("%s")
        args = [body] + [rng.choice(["1", "x", ""]) for _ in range(k - 1)]
        rng.shuffle(args)
        return tpl % tuple(args), "long/%s/%s" % (cls, TEMPLATES.index(tpl))
    tpl = rng.choice(TEMPLATES)
    k = tpl.count("%s")
    args, classes = [], []
    for _ in range(k):
        parts = [rand_chunk(rng, toktable) for _ in range(rng.choice([0, 1, 1, 1, 2, 3]))]
        args.append("".join(p[0] for p in parts))
        classes.append("+".join(p[1] for p in parts) or "empty")
    return tpl % tuple(args), "%d/%s" % (TEMPLATES.index(tpl), ",".join(classes))


# ---- (3) trees -------------------------------------------------------------------------------------------------
# valid style definitions the way users write them: attributes and their aliases / negations, every colour notation, links, theme
# names (resolved by Console.get_style), upper case, the empty definition
STYLES = ["bold", "red on blue", "dim", "not bold", "none", "#ff0000", "color(9)", "italic underline", "on default", "link https://x.y",
          "", "BOLD Red", "b i u s", "blink2 conceal reverse", "strike overline frame encircle underline2", "uu not i",
          "rgb(1,2,3) on rgb(4,5,6)", "white on color(255)", "default on default", "not italic not bold not dim",
          "bold red on #00ff00 link https://example.org/a?b=c", "repr.number", "rule.line", "table.header", "bright_red on grey0"]
STYLE_OPTS = {"panel": ["style", "border_style"], "padding": ["style"], "align": ["style"], "rule": ["style"],
              "table": ["style", "border_style", "header_style", "footer_style", "title_style", "caption_style"]}


def stress(rng, t, G):
    """valid options only, pushed to where the arithmetic is thin: fixed widths beside / beyond the terminal, nothing inside;
    style options given the way a user gives them (strings) on every built-in that takes one"""
    for _, n in list(G.subtrees(t)):
        k = n["k"]
        if k in STYLE_OPTS and rng.random() < 0.35:
            n["sty"] = {o: rng.choice(STYLES) for o in STYLE_OPTS[k] if rng.random() < 0.5}
            if k == "table":
                if rng.random() < 0.4:
                    n["sty"]["row_styles"] = [rng.choice(STYLES) for _ in range(rng.randint(1, 3))]
                n["sty"]["rows"] = {str(i): rng.choice(STYLES) for i in range(len(n["rows"])) if rng.random() < 0.5}
                for col in n["cols"]:
                    if rng.random() < 0.4:
                        col["sty"] = {o: rng.choice(STYLES) for o in ("style", "header_style", "footer_style") if rng.random() < 0.5}
        if k == "txt" and rng.random() < 0.25:
            # every overflow / justify / no_wrap combination is a valid Text, wherever it sits
            n.update(src="text", ov=rng.choice(["ignore", "crop", "ellipsis", "fold"]), jus=rng.choice(["none", "left", "center", "right", "full"]),
                     nw=rng.random() < 0.5)
        if k == "tree" and rng.random() < 0.3:
            n["gs"] = rng.choice(STYLES)
        if k in ("panel", "padding", "table", "columns") and rng.random() < 0.15:
            # paddings larger than the terminal
            n["pl"], n["pr"] = rng.choice([(0, 40), (40, 0), (250, 250), (7, 7)])
            if k != "columns":
                n["pt"], n["pb"] = rng.choice([(0, 0), (3, 0), (0, 3), (2, 2)])
        if k in ("panel", "align", "constrain", "columns", "table") and rng.random() < 0.35:
            n["w"] = rng.choice([1, 2, 3, 5, 9, 13, 30, 60, 250])
        if k == "table":
            if rng.random() < 0.3:
                n["minw"] = rng.choice([1, 4, 20, 90, 250])
            for col in n["cols"]:
                q = rng.random()
                if q < 0.15:
                    col["w"] = rng.choice([1, 2, 7, 40, 250])
                elif q < 0.3:
                    col["minw"] = rng.choice([1, 3, 12, 250])
                elif q < 0.4:
                    col["nw"] = True
            if rng.random() < 0.12:
                n["cols"], n["rows"] = [], []
            elif rng.random() < 0.1:
                n["rows"] = []
        if k in ("columns", "group") and rng.random() < 0.1:
            n["ch"] = []
        if k == "bar" and rng.random() < 0.4:
            n.update(size=rng.choice([0, 1, 100]), begin=rng.choice([0, 1, 60, 100]), end=rng.choice([0, 1, 10, 100]), w=rng.choice([0, 1, 2, 250]))
        if k == "bar" and (n["begin"] > n["size"] or n["end"] > n["size"]):
            n["begin"], n["end"] = min(n["begin"], n["size"]), min(n["end"], n["size"])     # documented: between 0 and size
        if k == "progressbar" and rng.random() < 0.3:
            n["w"] = rng.choice([1, 2, 250])
    return t


def boundary_trees(G):
    """hand-listed small recipes at the edges of the option space (all valid per the docstrings)"""
    def txt(s):
        return G._leaf(s)
    out = []
    base_table = dict(k="table", cols=[], rows=[], box="SQUARE", edge=True, lines=False, leading=0, sh=True, sf=False, pl=1, pr=1, pt=0, pb=0,
                      pe=True, cp=False, ex=False, w=0, minw=0, tj="center", endsec=False, title=[], caption=[])
    for ex in (False, True):
        for box in ("SQUARE", "none"):
            for w, minw in ((0, 0), (5, 0), (0, 8)):
                for title in ("", "世界"):
                    t = dict(base_table, ex=ex, box=box, w=w, minw=minw)
                    G.set_text(t, title, "ts", "title")
                    G.set_text(t, "", "cps", "caption")
                    out.append(t)
    # ratio columns beside ratio-less ones (the width solver's zero-ratio slot), expanding or not, squeezed by the table's
    # own width / min_width options - all valid options; rendered at every width of WIDTHS, far below the structural minimum too
    def col(ratio, w=0):
        # ratio None = adapt to the contents (recipe value 0); "z" = an explicit ratio of 0, a flexible column without a share
        return dict(hdr=txt("h"), ftr=txt(""), w=w, minw=0, maxw=0, ratio=0 if ratio == "z" else ratio, rz=ratio == "z", nw=False, jus="left", ov="fold")
    for ratios in ((1, 0), (0, 1), (1, 1), (2, 0, 1), (0, 0), (1,), (1, "z"), ("z", 1), ("z", "z"), (2, "z", 1), ("z",)):
        for ex in (False, True):
            for box in ("SQUARE", "none"):
                for w, minw in ((0, 0), (1, 0), (0, 8), (1, 30), (5, 30), (0, 250)):
                    t = dict(base_table, cols=[col(r) for r in ratios], rows=[[txt("x yy") for _ in ratios]], ex=ex, box=box, w=w, minw=minw)
                    G.set_text(t, "", "ts", "title")
                    G.set_text(t, "", "cps", "caption")
                    out.append(t)
    for ex in (False, True):
        for eq in (False, True):
            t = dict(k="columns", ch=[], w=0, pl=1, pr=1, pt=0, pb=0, ex=ex, eq=eq, cf=False, rtl=False, al="none")
            G.set_text(t, "t" if eq else "", "ts", "title")
            out.append(t)
    for w in (1, 3, 30, 250):
        for cf in (False, True):
            t = dict(k="columns", ch=[txt("a"), txt("世界")], w=w, pl=1, pr=1, pt=0, pb=0, ex=False, eq=False, cf=cf, rtl=False, al="none")
            G.set_text(t, "", "ts", "title")
            out.append(t)
    out.append(dict(k="tree", label=txt("x"), exp=True, gs="", ch=[]))
    out.append(dict(k="tree", label=txt(""), exp=False, gs="bold", ch=[dict(k="tree", label=txt("世"), exp=True, gs="", ch=[])]))
    for title in ("", "世", "世界", "á"):
        for chars in ("─", "世", "-="):
            for al in ("left", "center", "right"):
                t = dict(k="rule", al=al)
                G.set_text(t, title, "ts", "title")
                G.set_text(t, chars, "chs", "chars")
                out.append(t)
    for size, b, e in ((100, 10, 60), (100, 60, 10), (0, 0, 0), (1, 1, 1), (100, 0, 100), (100, 100, 100)):
        for w in (0, 1, 250):
            out.append(dict(k="bar", w=w, size=size, begin=b, end=e))
    out.append(dict(k="group", ch=[], fit=True))
    out.append(dict(k="group", ch=[], fit=False))
    # every way of writing a style, on every option that takes one (one small renderable per built-in kind)
    for st in STYLES:
        p = dict(k="panel", c=txt("a"), pl=1, pr=1, pt=0, pb=0, w=0, ex=True, ta="center", box="ROUNDED", sty=dict(style=st, border_style=st))
        G.set_text(p, "t", "ts", "title")
        out.append(p)
        out.append(dict(k="padding", c=txt("a"), pl=1, pr=1, pt=0, pb=0, ex=True, form=4, sty=dict(style=st)))
        out.append(dict(k="align", c=txt("a"), w=0, al="center", pad=True, sty=dict(style=st)))
        r = dict(k="rule", al="center", sty=dict(style=st))
        G.set_text(r, "t", "ts", "title")
        G.set_text(r, "─", "chs", "chars")
        out.append(r)
        c = col(None)
        c["sty"] = dict(style=st, header_style=st, footer_style=st)
        t = dict(base_table, cols=[c, col(None)], rows=[[txt("x"), txt("y")], [txt("x"), txt("y")]], sf=True,
                 sty=dict(style=st, border_style=st, header_style=st, footer_style=st, title_style=st, caption_style=st, row_styles=[st, "none"], rows={"0": st}))
        G.set_text(t, "t", "ts", "title")
        G.set_text(t, "c", "cps", "caption")
        out.append(t)
        out.append(dict(k="tree", label=txt("x"), exp=True, gs=st, ch=[dict(k="tree", label=txt("y"), exp=True, gs="", ch=[])]))
    for s in ("", "\x00", "\t", "世", "́", "a" * 300, "\n\n"):
        for ov in ("none", "fold", "crop", "ellipsis"):
            t = txt(s)
            t["ov"] = ov
            out.append(t)
            p = dict(k="panel", c=dict(t), pl=0, pr=0, pt=0, pb=0, w=0, ex=True, ta="center", box="ROUNDED")
            G.set_text(p, s.strip()[:3], "ts", "title")
            out.append(p)
    return out


def _tree_worker(arg):
    """one tree at every width: -> (record for TLC, [details of the non-ok outcomes])"""
    tree, widths = arg
    G = _W.get("G")
    if G is None:
        from drivers import layout_gen as G
        from rich import errors
        from rich.color import ColorParseError
        _W["G"] = G
        _W["env"] = G.Env()
        _W["doc"] = dict(ColorParseError=ColorParseError, StyleSyntaxError=errors.StyleSyntaxError, MissingStyle=errors.MissingStyle, MarkupError=errors.MarkupError)
    env, doc = _W["env"], _W["doc"]
    rs, details = [], []
    try:
        with _deadline(120):
            obj = G.build(tree, env)
    except Exception as e:
        d = describe(e, doc)
        d.update(W=widths[0], op="build")
        return dict(k="t", top=tree["k"], rs=[[widths[0], d["out"], d["out"], d["out"]]]), [d]
    for W in widths:
        row = [W]
        for op in ("render", "measure", "print"):
            try:
                with _deadline(120):
                    console = env.console(W)
                    if op == "render":
                        console.render_lines(obj)
                    elif op == "measure":
                        env.Measurement.get(console, obj, W)
                    else:
                        console.print(obj)
                        console.file.seek(0)
                        console.file.truncate()
                row.append("ok")
            except Exception as e:
                d = describe(e, doc)
                d.update(W=W, op=op)
                details.append(d)
                row.append(d["out"])
        rs.append(row)
    return dict(k="t", top=tree["k"], rs=rs), details


def run_trees(jobs):
    if len(jobs) < 24:
        return [_tree_worker(j) for j in jobs]
    import multiprocessing as mp
    nproc = min(12, os.cpu_count() or 2)
    with mp.get_context("fork").Pool(nproc) as pool:
        return pool.map(_tree_worker, jobs, chunksize=max(1, len(jobs) // (nproc * 8)))


def tree_signature(tree, d):
    return "tree raised %s top=%s at=%s" % (d["out"], tree["k"], d["where"])


def tree_key(d):
    """what a reduction must preserve: the exception class and the raising frame (the top kind may shrink away)"""
    return "%s at=%s" % (d["out"], d["where"])


# ---- judging ------------------------------------------------------------------------------------------------------
def judge(chk, tables, recs, label):
    out = []
    step = 400000
    for i in range(0, len(recs), step):
        v, st = tlc.judge("Trace_Parsers", recs[i:i + step], extra_json=tables, chunk_min=200)
        chk.add_tlc(st, label)
        out += v
    chk.traces += len(recs)
    return out


def parser_signature(entry, obs):
    """exception class + entry + raising frame (+ first words of the message for exceptions outside Rich's documented classes)"""
    sig = "undocumented %s entry=%s at=%s" % (obs["out"], entry, obs["where"])
    sig = sig if obs["isa"] else sig + " msg=" + obs.get("mclass", "")
    return sig + (" via=" + obs["via"].split(" ")[0] if obs.get("via") else "")


def ddmin_strings(chk, real_tables, R, open_cases):
    """open_cases: sig -> (entry, string).  Every round is ONE TLC batch of candidate reductions for all cases."""
    for _ in range(chk.pick(14, 40)):
        cands = []
        for sig, (entry, s, var) in open_cases.items():
            n = len(s)
            if n <= 1:
                continue
            cs = []
            size = max(1, n // 2)
            while size >= 1 and len(cs) < 60:
                for i in range(0, n, size):
                    cs.append(s[:i] + s[i + size:])
                    if len(cs) >= 60:
                        break
                if size == 1:
                    break
                size //= 2
            seen = set()
            for c in cs:
                if c not in seen and len(c) < n:
                    seen.add(c)
                    cands.append((sig, entry, c, var))
        if not cands:
            break
        obs = [R.observe(e, c, var) for _, e, c, var in cands]
        for (_, e, _c, var), o in zip(cands, obs):
            if var is not None:
                o["via"] = R.variants[e][var][0]
        recs = [dict(k="r", e=e, out=o["out"], isa=o["isa"]) for (_, e, _c, _v), o in zip(cands, obs)]
        verdicts = judge(chk, real_tables, recs, "M3-minimise")
        progress = False
        best = {}
        for (sig, e, c, var), o, v in zip(cands, obs, verdicts):
            if not v.startswith("ok") and parser_signature(e, o) == sig:
                if sig not in best or len(c) < len(best[sig][1]):
                    best[sig] = (e, c, var)
        for sig, ec in best.items():
            open_cases[sig] = ec
            progress = True
        if not progress:
            break
    return open_cases


def shape_of(s):
    def cls(ch):
        o = ord(ch)
        if ch.isascii():
            return ch if not ch.isalnum() else ("9" if ch.isdigit() else "a")
        if ch.isdecimal():
            return "D"
        if ch.isdigit() or ch.isnumeric():
            return "N"
        if o > 0xFFFF:
            return "A"
        return "U"
    out = "".join(cls(c) for c in s[:24])
    return out + ("+%d" % (len(s) - 24) if len(s) > 24 else "")


# ---- main --------------------------------------------------------------------------------------------------------------
def run(chk: Check):
    from drivers import layout_gen as G
    R = Real()
    tables = dict(names=[[ord(c) for c in n] for n in R.names], theme=[[ord(c) for c in n] for n in R.theme])
    chk.rule = ("(0) every string of part (2) also goes through one of the other public routes to the same parser / printer (Real.variants: "
                "Style(color=), Style.normalize, Text.from_markup, render(emoji=False), print with justify / overflow / no_wrap / soft_wrap / width / "
                "style / end options, log, rule, out, consoles of width 1, NO_COLOR, standard / 256 / legacy-Windows colour, recording + export, "
                "a long-lived AnsiDecoder, decode_line, Text.assemble / append / styled), judged with the outcome set of the base entry point; "
                "(1) every token sequence TLC enumerates over the per-entry alphabets of specs/Parsers.tla (45 fragments; the first 36: rgb( , ) digits incl. "
                "ARABIC-INDIC THREE and SUPERSCRIPT TWO, # hex color( names default on not link bold b none [ ] / \\ = ESC[ ; m space newline x 38 "
                "ESC]8; ST; the empty sequence is the empty fragment) up to the bounds in `bounds` (also inside the contexts rgb(..), "
                "rgb(1,1,..), [..], [bold].., ESC[..m, ESC[38;..m, ...), fed to Color.parse / Style.parse / Console.get_style (with and "
                "without default=) / markup.render / Console.print / Console.print(markup=False) / AnsiDecoder.decode / Text on two consoles; "
                "(2) seeded random Unicode strings (26 syntax templates x chunks of astral, control, combining, RTL+bidi, digits of 15 scripts "
                "and No/Nl numerics, Unicode blanks, case-mapping oddities, any code point, 4301..6000-character runs) to all 9 entry points; "
                "(3) random trees of built-in renderables (layout_gen: text panel padding align constrain styled group table columns tree rule "
                "bar progressbar, nesting <= 4; its user-defined wrapper kinds are unwrapped) + option stress + hand-listed boundary recipes, each rendered with render_lines, printed and "
                "measured at W = 1..12, 18, 28, 43, 66, 100, 150, 200.  evaluation = one (entry, input) call or one tree at all widths; "
                "non-trivial = non-empty input / tree with a container")
    chk.trusted = ["drivers/c14.py:describe (exception -> class name, isinstance facts for the four documented classes, raising frame)",
                   "drivers/layout_gen.py:build (recipe -> constructor calls)"]
    chk.assumptions = ["Console(file=StringIO) - encoding errors of real streams are outside; strings are surrogate-free",
                       "sizes are moderate (strings <= ~6000 characters, trees of nesting <= 4): RecursionError / MemoryError from absurd sizes are outside",
                       "valid options: everything the docstrings allow; excluded: Rule(characters=<zero-width>) (documented ValueError), negative or "
                       "zero widths / paddings, Bar begin/end outside 0..size",
                       "a call that does not return within 60 s (120 s for a tree op) is recorded as NoTermination"]
    if chk.replay_only:
        return replay(chk, R, tables, G)

    parts = os.environ.get("VERIF_C14_PARTS", "tokens,random,trees").split(",")      # development aid; the default runs everything
    chk.notes["parts_run"] = parts
    if "tokens" not in parts and "random" not in parts:
        return trees_main(chk, tables, G)
    # ---- (1) ------------------------------------------------------------------------------------------------------
    toktable, inputs = enumerate_inputs(chk)
    if "tokens" not in parts:
        inputs = inputs[:50]
    chk.mark("tlc-enumerate")
    chk.notes["token_inputs"] = dict(total=len(inputs), per_entry={e: sum(1 for x in inputs if x[0] == e) for e in ENTRY_ORDER})
    hist, firsts, ndrift = {}, {}, 0
    BLOCK = 400000
    for b0 in range(0, len(inputs), BLOCK):
        block = inputs[b0:b0 + BLOCK]
        obs = replay_inputs(R, toktable, block)
        recs = [dict(k="p", e=e, t=ids, out=o["out"], isa=o["isa"]) for (e, _c, ids), o in zip(block, obs)]
        verdicts = judge(chk, tables, recs, "M3-tokens")
        del recs
        for (entry, _c, ids), o, v in zip(block, obs, verdicts):
            h = hist.setdefault(entry, {})
            h[o["out"]] = h.get(o["out"], 0) + 1
            chk.case("%s:%s" % (entry, ids), bool(ids))
            if v == "ok":
                continue
            s = "".join(toktable[i - 1] for i in ids)
            if v.startswith("ok drift"):
                ndrift += 1
                chk.drift_note("%s(%r): observed %s, grammar %s" % (entry, s, o["out"], v.split("pred=")[-1]))
                continue
            sig = parser_signature(entry, o)
            if sig not in firsts:        # inputs are sorted by length: the first one is a minimal witness
                firsts[sig] = True
                chk.reject(sig, "%s; %s(%r) -> %s" % (v, entry, s, o["msg"]), dict(kind="tokens", entry=entry, tokens=ids, cps=[ord(c) for c in s]))
            else:
                chk.reject(sig, v, None)
        if b0 == 0:
            for i in (1, len(block) // 2, len(block) - 1):
                chk.sample(dict(entry=block[i][0], tokens=block[i][2], text="".join(toktable[j - 1] for j in block[i][2]), outcome=obs[i]["out"]))
    chk.notes["observed_outcomes_tokens"] = hist
    chk.notes["drift_token_inputs"] = ndrift
    chk.mark("replay+judge-tokens")

    # ---- (2) ------------------------------------------------------------------------------------------------------
    if "random" in parts:
        random_part(chk, R, tables, toktable)
    if "trees" in parts:
        trees_main(chk, tables, G)


def random_part(chk, R, tables, toktable):
    nstr = chk.pick(2500, 40000)
    strings = [rand_string(chk.rng, toktable) for _ in range(nstr)]
    strings += long_number_strings()
    # every string goes to every entry point twice: the plain call, and one of the other public routes to the same parser / printer
    # (R.variants: other constructors, print options, console configurations, a long-lived decoder, ...)
    pairs, shapes = [], []
    for s, shape in strings:
        for entry in ENTRY_ORDER:
            pairs.append((entry, s, None))
            pairs.append((entry, s, chk.rng.randrange(len(R.variants[entry]))))
            shapes += [shape, shape]
    chk.notes["entry_variants"] = {e: [n for n, _f in R.variants[e]] for e in ENTRY_ORDER}
    obs = observe_many(R, pairs)
    recs, meta = [], []
    hist = {}
    for (entry, s, var), o, shape in zip(pairs, obs, shapes):
        if var is not None:
            o["via"] = R.variants[entry][var][0]
        recs.append(dict(k="r", e=entry, out=o["out"], isa=o["isa"]))
        meta.append((entry, s, shape, o, var))
        h = hist.setdefault(entry, {})
        h[o["out"]] = h.get(o["out"], 0) + 1
        chk.case("r:%s:%s" % (entry, s if len(s) < 80 else hashlib.sha1(s.encode("utf8", "surrogatepass")).hexdigest()), bool(s))
    chk.notes["random_strings"] = nstr
    chk.notes["observed_outcomes_random"] = hist
    chk.mark("replay-random")
    verdicts = judge(chk, tables, recs, "M3-random")
    chk.mark("judge-random")
    open_cases, count = {}, {}
    for (entry, s, shape, o, var), v in zip(meta, verdicts):
        if v.startswith("ok"):
            continue
        sig = parser_signature(entry, o)
        count[sig] = count.get(sig, 0) + 1
        if sig not in open_cases or len(s) < len(open_cases[sig][1]):
            open_cases[sig] = (entry, s, var)
    if open_cases:
        open_cases = ddmin_strings(chk, tables, R, open_cases)
        for sig, (entry, s, var) in sorted(open_cases.items()):
            o = R.observe(entry, s, var)
            for _ in range(count[sig]):
                shown = repr(s) if len(s) <= 80 else "%r...(%d characters)" % (s[:40], len(s))
                chk.reject(sig, "undocumented %s from %s%s; minimal random witness %s(%s) [shape %s] -> %s" % (
                    o["out"], entry, (" via " + R.variants[entry][var][0]) if var is not None else "", entry, shown, shape_of(s), o["msg"]),
                           dict(kind="string", entry=entry, variant=var, cps=[ord(c) for c in s]))
    chk.mark("minimise-random")
    chk.sample(dict(entry=meta[-1][0], random_string=meta[-1][1][:60], shape=meta[-1][2], outcome=meta[-1][3]["out"], via=meta[-1][3].get("via", "")))



def builtin_only(t):
    """layout_gen's protocol-only wrappers (`cast`, `opaque`: user-defined classes) are no built-in renderables: unwrap them"""
    if isinstance(t, dict):
        while t.get("k") in ("cast", "opaque"):
            t = t["c"]
        return {k: builtin_only(v) for k, v in t.items()}
    if isinstance(t, list):
        return [builtin_only(x) for x in t]
    return t


def trees_main(chk, tables, G):
    trees = boundary_trees(G)
    nb = len(trees)
    for i in range(chk.pick(260, 7000)):
        t = builtin_only(G.gen(chk.rng, 4))
        if i % 2:
            t = stress(chk.rng, t, G)
        trees.append(t)
    chk.notes["trees"] = dict(boundary=nb, random=len(trees) - nb, widths=WIDTHS)
    tree_part(chk, tables, G, trees)


def tree_part(chk, tables, G, trees, widths=None):
    jobs = [(t, widths or WIDTHS) for t in trees]
    res = run_trees(jobs)
    chk.mark("render-trees")
    verdicts = judge(chk, tables, [r for r, _ in res], "M3-trees")
    chk.mark("judge-trees")
    open_cases, count = {}, {}
    kinds = {}
    for t, (rec, details), v in zip(trees, res, verdicts):
        chk.case(("tree", t), t["k"] not in ("txt", "rule", "bar", "progressbar"))
        for k in G.kinds(t):
            kinds[k] = kinds.get(k, 0) + 1
        if v == "ok":
            continue
        # TLC names the first failing (W, op); every distinct (exception, raising frame) of the tree is followed up
        seen = set()
        for d in details:
            key = tree_key(d)
            if key in seen:
                continue
            seen.add(key)
            count[key] = count.get(key, 0) + 1
            if key not in open_cases or G.size(t) < G.size(open_cases[key][0]):
                open_cases[key] = (t, d["W"], d)
    chk.notes["tree_kinds"] = kinds
    # delta debugging; each round is one TLC batch of reductions of every open case, rendered at the failing width only
    for _ in range(chk.pick(10, 30)):
        cands = []
        for key, (t, W, d) in open_cases.items():
            for c in G.reductions(t)[:40]:
                cands.append((key, c, W))
        if not cands:
            break
        res = run_trees([(c, [W]) for _, c, W in cands])
        vs = judge(chk, tables, [r for r, _ in res], "M3-minimise")
        best = {}
        for (key, c, W), (rec, details), v in zip(cands, res, vs):
            if v == "ok":
                continue
            for d in details:
                if tree_key(d) == key and (key not in best or G.size(c) < G.size(best[key][0])):
                    best[key] = (c, W, d)
        if not best:
            break
        open_cases.update(best)
    for key, (t, W, d) in sorted(open_cases.items()):
        for _ in range(count[key]):
            chk.reject(tree_signature(t, d), "%s at W=%d: %s (line %s); minimal tree %s" % (d["op"], W, d["msg"], d.get("line"), G.shape(t)[:300]),
                       dict(kind="tree", tree=t, widths=[W]))
    chk.mark("minimise-trees")
    if trees:
        chk.sample(dict(tree=G.shape(trees[-1])[:200], widths=len(widths or WIDTHS), verdict=verdicts[-1]))


def replay(chk, R, tables, G):
    case = chk.replay_only["case"]
    if case["kind"] == "tree":
        return tree_part(chk, tables, G, [case["tree"]], widths=case["widths"])
    s = "".join(map(chr, case["cps"]))
    o = R.observe(case["entry"], s, case.get("variant"))
    if case.get("variant") is not None:
        o["via"] = R.variants[case["entry"]][case["variant"]][0]
    rec = dict(k="p", e=case["entry"], t=case["tokens"], out=o["out"], isa=o["isa"]) if case["kind"] == "tokens" else \
        dict(k="r", e=case["entry"], out=o["out"], isa=o["isa"])
    v = judge(chk, tables, [rec], "M3-replay")[0]
    chk.case("replay", True)
    print("replay: %s(%r) -> %s; TLC: %s" % (case["entry"], s[:80], o["msg"] or "ok", v))
    if not v.startswith("ok"):
        chk.reject(parser_signature(case["entry"], o), "%s; %s(%r) -> %s" % (v, case["entry"], s[:200], o["msg"]), case)
