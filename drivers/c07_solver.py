"""C07, solver part - the column-width solver at design level (specs/TableSolver.tla) and its conformance.

  M1  MC_TableSolver, design AS IT IS: TLC exhibits the two open findings of C07 on the transcription of
      Table._calculate_column_widths - a starved column (b) and a min_width re-imposed after the collapse (a) - as
      SMALLEST instances (every action of the model adds one unit; one worker, breadth first).  They are recorded in
      the evidence (notes), they are not verdicts: the verdicts about real renders are Trace_Table's.
      MC_TableSolver, Repaired = TRUE: the repaired design satisfies (a)(b)(c) on the whole bounded domain, returns
      what the design as it is returns whenever that was acceptable, and the relation rejects the classic wrong answers.
  M2  MC_TableSolver (INVARIANT Emit): TLC prints instances of the same domain (all of them, or a deterministic
      sample: checksum modulo EmitMod); every printed instance is run through the REAL Table._calculate_column_widths of
      the tree under test at every available width of the range.
  M3  Trace_TableSolver compares: real vector = transcription of the design as it is ("same"), = the repaired design
      ("repaired"), or neither (DRIFT).  Never a violation: a tree whose solver differs from the transcription but keeps
      the property must not raise an alarm; what the property says about real tables is judged on real renders.

Python builds tables and copies numbers; it decides nothing."""
import io
import json
import os
import re

from engine import tlc

CFG = """CONSTANTS
  Repaired = %(rep)s
  Without = {%(without)s}
  MaxCols = %(nc)d
  MaxCMax = %(cm)d
  MaxPad = %(mp)d
  MaxRatio = %(mr)d
  MaxMinW = %(mw)d
  MaxSlack = %(slack)d
  NoPadEdgeToo = %(pe)s
  CollapsePaddingToo = %(cp)s
  WideToo = %(wide)s
  MaxW = %(w)d
  MaxMaxW = %(maxw)d
  NoWrapToo = %(nw)s
  MaxTMin = %(tmin)d
  RatioNeedsExpand = %(rne)s
  ZeroRatioToo = %(zr)s
  EmitMod = %(emitmod)d
SPECIFICATION Spec
%(invs)s
CHECK_DEADLOCK FALSE
"""
SLACK = 6


def _b(x):
    return "TRUE" if x else "FALSE"


def cfg_text(inv, rep=True, without=(), nc=2, cm=4, mp=2, mr=2, mw=3, slack=SLACK, pe=True, w=0, maxw=0, nw=False, tmin=0,
             rne=True, emitmod=1, wide=True, cp=True, zr=False):
    return CFG % dict(zr=_b(zr), rep=_b(rep), without=", ".join('"%s"' % x for x in without), nc=nc, cm=cm, mp=mp, mr=mr, mw=mw, slack=slack,
                      pe=_b(pe), cp=_b(cp), wide=_b(wide), w=w, maxw=maxw, nw=_b(nw), tmin=tmin, rne=_b(rne), emitmod=emitmod,
                      invs="\n".join("INVARIANT " + i for i in ([inv] if isinstance(inv, str) else inv)))


def domain_text(**kw):
    d = dict(nc=2, cm=4, mp=2, mr=2, mw=3, pe=True, w=0, maxw=0, nw=False, tmin=0, rne=True, emitmod=1, zr=False)
    d.update(kw)
    s = "<=%d columns, content max<=%d, padding<=%d per side%s, ratio none/%d..%d, min_width<=%d on one column" % (
        d["nc"], d["cm"], d["mp"], " incl. pad_edge=False / collapse_padding" if d["pe"] else " incl. collapse_padding", 0 if d["zr"] else 1, d["mr"], d["mw"])
    ext = [x for x in ("width<=%d" % d["w"] if d["w"] else "", "max_width<=%d" % d["maxw"] if d["maxw"] else "",
                       "no_wrap" if d["nw"] else "", "Table.min_width<=%d" % d["tmin"] if d["tmin"] else "",
                       "ratios without expand" if not d["rne"] else "") if x]
    return s + (", " + ", ".join(ext) if ext else "") + (", 1 in %d emitted" % d["emitmod"] if d["emitmod"] > 1 else "")


# ---- M1: the design as it is --------------------------------------------------------------------------------
def _cex(out):
    for line in out.splitlines():
        line = line.strip()
        if '\\"cex\\"' in line and line.startswith('"'):
            try:
                return json.loads(json.loads(line))
            except Exception:
                pass
    return None


AS_IS = [  # (label, invariant, pad_edge=False in the domain, open finding it is the design-level picture of)
    ("starved", "AsIsFed", True, "C07-solver-ignores-column-minimum"),
    ("wider", "AsIsFits", False, "C07-min-width-reimposed-after-collapse"),
    ("wider (pad_edge=False in the domain)", "AsIsFits", True, "C07-min-width-reimposed-after-collapse"),
]


def as_is(result):
    """smallest counter-examples of the design as it is (one worker: breadth-first = by size)"""
    out = []
    for label, inv, pe, finding in AS_IS:
        r = tlc.run("MC_TableSolver", cfg_text=cfg_text(inv, rep=False, nc=3, cm=3, mp=2, mw=3, pe=pe), workers=1, tag="c07sol", timeout=600)
        result["tlc"].append(r)
        w = _cex(r.out) if inv in r.violated else None
        out.append(dict(clause=label, invariant=inv, finding=finding, exhibited=w is not None, states_until_found=r.distinct, witness=w))
    result["as_is"] = out


def describe(w):
    """one line for the evidence file"""
    if not w:
        return "not exhibited"
    o = w["o"]
    cols = "; ".join("col%d content %d..%d pad %d%s%s" % (i + 1, c["cmin"], c["cmax"], c["pad"],
                                                         " min_width=%d" % c["minw"] if c["minw"] else "",
                                                         " ratio=%d" % c["ratio"] if c["ratio"] >= 0 else "") for i, c in enumerate(w["cols"]))
    opts = ",".join(x for x in ("expand" if o["ex"] else "", "pad_edge=False" if not o["pe"] else "", "collapse_padding" if o["cp"] else "",
                                "padding=(0,%d,0,%d)" % (o["pr"], o["pl"]) if o["pl"] or o["pr"] else "") if x) or "defaults"
    return ("size %d: %s [%s] at avail=%d (structural minimum %d): natural %s -> collapsed %s -> reduced %s -> re-measured %s -> returned %s"
            % (w["size"], cols, opts, w["avail"], w["structmin"], w["natural"], w["collapsed"], w["reduced"], w["remeasured"], w["result"]))


# ---- M1: the repaired design -----------------------------------------------------------------------------------
def repaired(chk, result):
    if chk.thorough:
        plans = [("DesignOK", dict(nc=3, cm=4, mp=2, mw=3)), ("DesignOK", dict(nc=2, cm=6, mp=2, mw=4)),
                 ("DesignOK", dict(nc=2, cm=3, mp=1, mr=1, mw=2, w=3, maxw=3, slack=4)),
                 ("DesignOK", dict(nc=2, cm=3, mp=1, mr=1, mw=0, nw=True, rne=False, slack=4)),
                 ("DesignOK", dict(nc=2, cm=3, mp=1, mr=1, mw=2, tmin=9, slack=4)),
                 ("PatchOK", dict(nc=2, cm=6, mp=2, mw=4)), ("PatchOK", dict(nc=3, cm=3, mp=1, mw=2)),
                 ("PatchOK", dict(nc=2, cm=3, mp=1, mr=1, mw=1, w=2, maxw=2, slack=4))]
    else:
        plans = [("DesignOK", dict(nc=2, cm=3, mp=2, mw=2)), ("DesignOK", dict(nc=3, cm=2, mp=1, mw=1, mr=1)),
                 ("PatchOK", dict(nc=2, cm=3, mp=1, mw=2))]
    notes = []
    for inv, p in plans:
        r = tlc.run("MC_TableSolver", cfg_text=cfg_text(inv, rep=True, **p), workers=chk.pick(5, 16), heap="6g", tag="c07sol",
                    timeout=3000, coverage=False)
        result["tlc"].append(r)
        if r.violated or not r.finished:
            m = re.search(r'<<"REJECTED".*?>>\s*>>', r.out, re.S)
            raise tlc.TLCFailure("MC_TableSolver: %s is refuted on {%s}: %s\n%s" % (
                inv, domain_text(**p), re.sub(r"\s+", " ", m.group(0)) if m else r.violated, r.out[-1500:]))
        notes.append(dict(invariant=inv, domain=domain_text(**p), states=r.distinct, depth=r.diameter, wall_s=round(r.wall, 1)))
    # both halves of the repair are needed: leaving one out must be refuted (non-vacuity of DesignOK)
    for half, expect in (("raise", "starved"), ("recollapse", "wider")):
        r = tlc.run("MC_TableSolver", cfg_text=cfg_text("DesignOK", rep=True, without=(half,), nc=2, cm=3, mp=1, mw=2), workers=1, tag="c07sol")
        result["tlc"].append(r)
        if "DesignOK" not in r.violated or ("design: " + expect) not in r.out:
            raise tlc.TLCFailure("MC_TableSolver: the repair without its half %r is not refuted with %r\n%s" % (half, expect, r.out[-1500:]))
    result["repaired"] = notes


# ---- M2: instances for the real solver ------------------------------------------------------------------------
_TSI = re.compile(r'<<\s*"TSI"((?:[^<>]|<<[^<>]*>>)*)>>')
_COLF = ("cmin", "cmax", "ratio", "minw", "w", "maxw", "nw")


def emit(chk, result, **dom):
    r = tlc.run("MC_TableSolver", cfg_text=cfg_text("Emit", rep=False, **dom), workers=chk.pick(4, 8), heap="4g", tag="c07sol", timeout=3000)
    result["tlc"].append(r)
    if r.violated or not r.finished:
        raise tlc.TLCFailure("MC_TableSolver (Emit) %s\n%s" % (r.violated, r.out[-2000:]))
    insts = []
    for m in _TSI.finditer(r.out):
        nums = [int(x) for x in re.findall(r"-?\d+", m.group(1))]
        head, rest = nums[:7], nums[7:]
        if len(rest) % 7 or not rest:
            raise tlc.TLCFailure("MC_TableSolver (Emit): malformed instance %r" % m.group(0))
        insts.append(dict(m=head[0], o=dict(zip(("pl", "pr", "pe", "cp", "ex", "tmin"), head[1:])),
                          cols=[dict(zip(_COLF, rest[i:i + 7])) for i in range(0, len(rest), 7)]))
    if not insts:
        raise tlc.TLCFailure("MC_TableSolver emitted no instances\n%s" % r.out[-2000:])
    return insts, r.distinct


def cell_text(cmin, cmax):
    """a text whose widest line is cmax cells and whose widest character is cmin cells (2: a CJK character), made of
    one-character words (so that Text.__rich_measure__'s minimum is cmin as well)"""
    s = "字" if cmin == 2 else "x"
    used = cmin
    while used + 2 <= cmax:
        s += " x"
        used += 2
    if used < cmax:
        s += " "
    return s


def real_widths(inst, slack=SLACK):
    """the REAL solver on one instance: [[ok, widths] per available width m .. m + slack]"""
    from rich.console import Console
    from rich.table import Table
    from rich.text import Text
    o = inst["o"]
    console = Console(width=200, file=io.StringIO(), color_system=None, legacy_windows=False)
    out = []
    try:
        table = Table(box=None, show_header=False, padding=(0, o["pr"], 0, o["pl"]), pad_edge=bool(o["pe"]), collapse_padding=bool(o["cp"]),
                      expand=bool(o["ex"]), min_width=o["tmin"] or None)
        for c in inst["cols"]:
            table.add_column(overflow="fold", ratio=None if c["ratio"] < 0 else c["ratio"], width=c["w"] or None, min_width=c["minw"] or None,
                             max_width=c["maxw"] or None, no_wrap=bool(c["nw"]))
        table.add_row(*[Text(cell_text(c["cmin"], c["cmax"])) for c in inst["cols"]])
    except Exception:
        return [dict(ok=0, w=[])] * (slack + 1)
    for a in range(inst["m"], inst["m"] + slack + 1):
        try:
            ws = table._calculate_column_widths(console, a)
            ok = isinstance(ws, list) and all(isinstance(x, int) and not isinstance(x, bool) and abs(x) < 10**6 for x in ws)
            out.append(dict(ok=1, w=list(ws)) if ok else dict(ok=0, w=[]))
        except Exception:           # a crash inside Rich is data for TLC
            out.append(dict(ok=0, w=[]))
    return out


def run_real(insts, slacks):
    """in this process: the solver part runs in a thread next to other threads that start processes, and forking a pool from a
    thread of a multi-threaded process can dead-lock its children (seen once under load); 10 000 instances take ~4 s"""
    return [real_widths(i, s) for i, s in zip(insts, slacks)]


_V = re.compile(r"^(same|repaired|patched|drift s=(\d+) m=(<<[^>]*>>)) st=(\d+) wd=(\d+) nr=(\d+) ra=(\d+)$")


def conformance(chk, result):
    if chk.thorough:
        doms = [(dict(nc=3, cm=6, mp=2, mw=3, emitmod=211), SLACK), (dict(nc=2, cm=6, mp=2, mw=4, emitmod=3), SLACK),
                (dict(nc=2, cm=3, mp=1, mr=1, mw=2, w=3, maxw=3, emitmod=41), 4),
                (dict(nc=2, cm=3, mp=1, mr=1, mw=0, nw=True, rne=False), 4),
                (dict(nc=2, cm=3, mp=1, mr=1, mw=2, tmin=9, emitmod=3), 4),
                (dict(nc=3, cm=3, mp=1, mr=2, mw=2, zr=True, emitmod=37), SLACK)]       # explicit zero ratios
    else:
        doms = [(dict(nc=3, cm=3, mp=1, mw=2, emitmod=211), SLACK), (dict(nc=2, cm=4, mp=2, mw=2, emitmod=19), SLACK),
                (dict(nc=2, cm=2, mp=1, mr=1, mw=1, w=2, maxw=2, emitmod=41), 4),
                (dict(nc=2, cm=3, mp=1, mr=0, mw=0, nw=True, emitmod=3), 4),
                (dict(nc=3, cm=2, mp=1, mr=1, mw=1, zr=True, emitmod=29), 4)]            # explicit zero ratios
    insts, slacks, enumerated, texts = [], [], 0, []
    # the design-level counter-examples first: do they reproduce in the tree under test?
    for a in result.get("as_is", []):
        w = a["witness"]
        if w:
            insts.append(dict(m=w["structmin"], o=w["o"], cols=[{k: c[k] for k in _COLF} for c in w["cols"]], _witness=a["clause"]))
            slacks.append(max(0, w["avail"] - w["structmin"]))
    nw = len(insts)
    for dom, slack in doms:
        got, n = emit(chk, result, slack=slack, **dom)
        enumerated += n
        texts.append("%s: %d of %d instances" % (domain_text(**dom), len(got), n))
        insts += got
        slacks += [slack] * len(got)
    real = run_real(insts, slacks)
    recs = [dict(o=i["o"], cols=i["cols"], m=i["m"], real=r) for i, r in zip(insts, real)]
    verdicts, st = tlc.judge("Trace_TableSolver", recs, tag="c07sol", chunk_min=200, nproc=chk.pick(8, 16))
    result["judge"] = st
    counts = dict(same=0, repaired=0, patched=0, drift=0)
    prop = dict(starved=0, wider=0, narrower=0, raised=0)
    drifts, wit = [], []
    for k, (inst, r, v) in enumerate(zip(insts, real, verdicts)):
        m = _V.match(v)
        if not m:
            raise tlc.TLCFailure("Trace_TableSolver: unusable verdict %r for %r" % (v, inst))
        kind = "drift" if m.group(1).startswith("drift") else m.group(1)
        if k < nw:
            wit.append(dict(clause=inst["_witness"], tree_under_test=kind, real=r[-1]["w"], rejected_as=(
                "starved" if int(m.group(4)) else "wider" if int(m.group(5)) else "narrower" if int(m.group(6)) else "raised" if int(m.group(7)) else "accepted")))
            continue
        counts[kind] += 1
        for key, g in zip(("starved", "wider", "narrower", "raised"), (4, 5, 6, 7)):
            prop[key] += int(m.group(g))
        if kind == "drift" and len(drifts) < 3:
            s = int(m.group(2))
            drifts.append("%s cols=%s at max_width=%d: real %s, transcription %s" % (
                {k2: v2 for k2, v2 in inst["o"].items() if v2}, [{k2: v2 for k2, v2 in c.items() if v2 not in (0, -1)} for c in inst["cols"]],
                inst["m"] + s - 1, r[s - 1]["w"] if r[s - 1]["ok"] else "raised", m.group(3)))
    result["conformance"] = dict(instances=len(insts) - nw, real_calls=sum(len(r) for r in real), enumerated_by_tlc=enumerated, domains=texts,
                                 agreement=counts, real_vectors_rejected_by_the_property_part=prop, drift_examples=drifts,
                                 design_counter_examples_in_the_tree_under_test=wit)


# ---- called from drivers/c07.py ----------------------------------------------------------------------------------
def background(chk, result):
    """everything of the solver part; runs in a thread next to the table part (accounting is done by the main thread)"""
    result["tlc"] = []
    try:
        as_is(result)
        from concurrent.futures import ThreadPoolExecutor
        with ThreadPoolExecutor(2) as ex:
            fs = [ex.submit(repaired, chk, result), ex.submit(conformance, chk, result)]
            for f in fs:
                f.result()
    except BaseException as e:  # re-raised by the main thread
        result["error"] = e


def account(chk, result):
    if "error" in result:
        raise result["error"]
    for r in result["tlc"]:
        chk.add_tlc(r, "M1-solver")
    chk.add_tlc(result["judge"], "M3-solver")
    c = result["conformance"]
    chk.traces += c["real_calls"]
    chk.evaluations += c["real_calls"]
    chk.notes["solver_design_as_it_is"] = [dict(clause=a["clause"], open_finding=a["finding"], exhibited_by_tlc=a["exhibited"],
                                                smallest_counter_example=describe(a["witness"])) for a in result["as_is"]]
    chk.notes["solver_design_repaired"] = dict(
        what="one step before `return widths`: raise every column to padding + its content minimum, then collapse the excess out of what the "
             "columns hold above their own term of the structural minimum (specs/TableSolver.tla, Repaired)",
        patch="TableSolver!Patch = the same step with what rich/table.py can know (a wrapable column needs one cell, no_wrap columns are left alone); "
              "PatchOK: (a), (c), (b) for needs of 1, conservative, equal to the repaired design when every need is 1",
        model_checked=result["repaired"], ablation="without 'raise': starved refuted; without 'recollapse': wider refuted")
    chk.notes["solver_conformance"] = c
    n, a = c["instances"], c["agreement"]
    if a["drift"]:
        chk.drift_note("Table._calculate_column_widths differs from its transcription (specs/TableSolver.tla) on %d of %d instances, e.g. %s" % (
            a["drift"], n, "; ".join(c["drift_examples"][:2])))
    if a["repaired"] or a["patched"]:
        chk.drift_note("Table._calculate_column_widths does not return what the design as it is returns: on %d of %d instances it returns what the "
                       "REPAIRED design of specs/TableSolver.tla returns, on %d what TableSolver!Patch returns" % (a["repaired"], n, a["patched"]))
