"""C02 - Word wrapping keeps every character, in order, with its own style.

M1  MC_Wrap: the design (RefWrap, a transcription of Text.wrap) satisfies WrapOK for every class
    string up to a bound; four deliberately wrong designs must be rejected (vacuity guard).
M2  MC_Wrap emits every class string; each is made concrete (distinct code points per position,
    drawn from per-class pools that start at the boundaries of the tree's width table).
M3  Trace_Wrap: each input is wrapped by the real Text.wrap; what every returned line shows
    through Text.render goes to TLC, which computes the effective input styles from base + spans,
    identifies the output characters and judges WrapOK; a difference from RefWrap alone is DRIFT."""
import io
import re
import threading

from engine import tlc
from engine.harness import Check

JUSTIFY = ["default", "left", "center", "right", "full"]
OVERFLOW = ["fold", "crop", "ellipsis", "ignore"]
MODES = [(o, nw) for o in OVERFLOW for nw in (False, True) if not (o == "ignore" and nw)]
CLASSES = "NWZSTL"
WRONG = {"chopdrop": ("InvA", "InvB"), "notrunc": ("InvB",), "styleslip": ("InvC",), "breakfit": ("InvD",)}
NSTY = 4


def env():
    from drivers import c05
    E = c05.env()
    E["observe"] = c05.observe
    E["mk"] = c05.mk
    E["pools"] = pools(E)
    return E


# ---- characters ---------------------------------------------------------------------------------

def pools(E):
    """Per class a list of distinct code points of that class in the tree under test; the lists
    start with characters at the edges of the ranges of the tree's own width table."""
    from rich._cell_widths import CELL_WIDTHS
    w = E["w"]

    def ok(cp, want):
        if cp < 33 or 127 <= cp <= 160 or 0xD800 <= cp <= 0xDFFF or cp > 0x10FFFF or cp == 8230:
            return False
        ch = chr(cp)
        return not ch.isspace() and re.match(r"\s", ch) is None and w(ch) == want

    edge = {0: [], 1: [], 2: []}
    for lo, hi, cw in CELL_WIDTHS:
        cw = 0 if cw == -1 else cw
        for cp in (lo, hi):
            if ok(cp, cw):
                edge[cw].append(cp)
        for cp in (lo - 1, hi + 1):             # the neighbours outside a range
            for want in (1, 2, 0):
                if ok(cp, want):
                    edge[want].append(cp)
                    break

    def spread(xs, n):                         # n edges spread over the table, first ones first
        xs = list(dict.fromkeys(xs))
        if len(xs) <= n:
            return xs
        step = len(xs) / float(n)
        return list(dict.fromkeys([xs[0], xs[1]] + [xs[int(i * step)] for i in range(n)]))

    def fill(first, ranges, want, size):
        out = list(dict.fromkeys(first))
        seen = set(out)
        for lo, hi in ranges:
            for cp in range(lo, hi + 1):
                if len(out) >= size:
                    return out
                if cp not in seen and ok(cp, want):
                    out.append(cp)
                    seen.add(cp)
        return out

    P = {
        "N": fill([ord("a"), ord("~"), ord("!"), ord("[")] + spread(edge[1], 24),
                  [(33, 126), (0xA1, 0x24F), (0x390, 0x3FF), (0x410, 0x44F)], 1, 330),
        "W": fill(spread(edge[2], 24) + [0x4E16, 0xFF21, 0x1F600], [(0x4E00, 0x4FFF)], 2, 330),
        "Z": fill(spread(edge[0], 24) + [0x301, 0x200B], [(0x300, 0x36F), (0x483, 0x489), (0x591, 0x5BD), (0x610, 0x61A),
                                                              (0x64B, 0x65F), (0x1AB0, 0x1AFF), (0x1DC0, 0x1DFF),
                                                              (0x20D0, 0x20F0), (0xFE00, 0xFE0F), (0xFE20, 0xFE2F)], 0, 330),
    }
    for k, v in P.items():
        if len(v) < 40:
            raise RuntimeError("class pool %s of the tree under test is too small (%d)" % (k, len(v)))
    P["S"], P["T"], P["L"] = [32], [9], [10]
    return P


def concretize(E, classes, variant):
    """class string -> text with a distinct code point at every visible position"""
    P = E["pools"]
    used = {}
    out = []
    for c in classes:
        pool = P[c]
        if len(pool) == 1:
            out.append(chr(pool[0]))
            continue
        k = used.get(c, 0)
        used[c] = k + 1
        out.append(chr(pool[(variant * 5 + k) % len(pool)]))
    return "".join(out)


def rspans(rng, n, kmax):
    """random overlapping / nested / duplicate / empty spans (stylize order = precedence)"""
    spans = []
    for _ in range(rng.randint(0, kmax)):
        r = rng.random()
        if spans and r < 0.15:
            a, b, _k = rng.choice(spans)                          # duplicate range, maybe another style
        elif spans and r < 0.35:
            pa, pb, _k = rng.choice(spans)                        # nested in / overlapping an earlier one
            a = rng.randint(min(pa, n), min(max(pa, pb), n))
            b = rng.randint(a, min(n + 1, max(pb, a) + rng.randint(0, 3)))
        elif r < 0.45:
            a = rng.randint(0, n)
            b = rng.choice([a, a, max(0, a - 1)])                 # empty
        else:
            a = rng.randint(0, n)
            b = min(n + 2, a + rng.choice([1, 1, 2, 3, rng.randint(1, max(1, n))]))
        spans.append([a, b, rng.randint(1, NSTY)])
    return spans


def mkcase(E, s, base, spans, width, justify, overflow, no_wrap, tab):
    w = E["w"]
    return dict(str=[[ord(c), w(c)] for c in s], base=base, spans=spans, width=width, justify=justify,
                overflow=overflow, no_wrap=no_wrap, tab=tab)


# ---- the call under test and its projection --------------------------------------------------------

def execute(E, case):
    """Runs the real Text.wrap; returns the record for Trace_Wrap."""
    rec = dict(case)
    rec["exc"] = "none"
    rec["lines"] = []
    w = E["w"]
    try:
        t = E["mk"](E, case)
        lines = t.wrap(E["console"], case["width"], justify=case["justify"], overflow=case["overflow"],
                       tab_size=case["tab"], no_wrap=case["no_wrap"])
        lines = list(lines)
    except Exception as ex:
        rec["exc"] = type(ex).__name__
        return rec
    for line in lines:
        try:
            o = E["observe"](E, line)
        except Exception as ex:
            rec["lines"].append(dict(rexc=type(ex).__name__, chars=[]))
            continue
        rec["lines"].append(dict(rexc=o.get("render_exc", "none"),
                                 chars=[[c[0], w(chr(c[0])), c[1], c[2]] for c in o["chars"]]))
    return rec


# ---- random inputs ------------------------------------------------------------------------------------

def rtext(E, rng, nmax):
    """words of mixed classes separated by runs of spaces / tabs / newlines; code points distinct
    while the pools last, or (every fifth text) a small alphabet with many repeats"""
    P = E["pools"]
    n = rng.choice([rng.randint(0, 12), rng.randint(5, 40), rng.randint(20, nmax), rng.randint(nmax // 2, nmax)])
    small = rng.random() < 0.2
    alpha = {k: rng.sample(P[k], 3) for k in "NWZ"}
    nxt = {k: rng.randint(0, 50) for k in "NWZ"}
    mix = rng.choice([(1, 0, 0), (6, 1, 1), (2, 2, 1), (1, 3, 0), (3, 1, 3)])
    out = []
    while len(out) < n:
        r = rng.random()
        if r < 0.55 or not out:
            wl = rng.choice([1, 2, 3, 4, 5, 7, rng.randint(1, 12), rng.randint(1, 40), rng.randint(1, nmax)])
            for _ in range(wl):
                k = rng.choices("NWZ", mix)[0]
                if small:
                    out.append(chr(rng.choice(alpha[k])))
                else:
                    out.append(chr(P[k][nxt[k] % len(P[k])]))
                    nxt[k] += 1
        elif r < 0.9:
            out.extend(" " * rng.choice([1, 1, 1, 1, 2, 3, rng.randint(1, 12)]))
        elif r < 0.95:
            out.append("\t")
        else:
            out.extend("\n" * rng.choice([1, 1, 2]))
    return "".join(out[:n])


def rwidth(rng, s):
    longest = max([len(x) for x in re.split(r"\s+", s)] + [1])
    return max(2, min(200, rng.choice([2, 3, 4, 5, 8, rng.randint(2, 12), rng.randint(2, 30), longest, longest + 1,
                                       max(2, longest - 1), rng.randint(2, 200), max(2, len(s) // 3)])))


def random_case(E, rng, nmax=200):
    s = rtext(E, rng, nmax)
    o, nw = rng.choice(MODES + [("fold", False)] * 5)
    return mkcase(E, s, rng.choice([0, 0, 1, 2, 3, 4]), rspans(rng, len(s), rng.choice([0, 2, 4, 8, 14])),
                  rwidth(rng, s), rng.choice(JUSTIFY), o, nw, rng.choice([8, 8, 4]))


# ---- shape of a case for signatures -----------------------------------------------------------------------

def shape(E, case):
    w = sum(p[1] for p in case["str"])
    s = "".join(chr(p[0]) for p in case["str"])
    srcw = max(sum(E["w"](c) for c in ln.expandtabs(case["tab"])) for ln in s.split("\n"))
    return "justify=%s overflow=%s no_wrap=%s line-wider-than-width=%s" % (
        case["justify"], case["overflow"], case["no_wrap"], srcw > case["width"])


def size(case):
    return (len(case["str"]), len(case["spans"]), case["width"], 0 if case["base"] == 0 else 1)


def reductions(case):
    """candidate simplifications of a failing case (one TLC batch per round)"""
    n = len(case["str"])
    out = []

    def cut(a, b):
        k = b - a
        sp = []
        for x, y, st in case["spans"]:
            x2 = x if x <= a else max(a, x - k)
            y2 = y if y <= a else max(a, y - k)
            sp.append([x2, y2, st])
        return dict(case, str=case["str"][:a] + case["str"][b:], spans=sp)

    for k in sorted({n // 2, n // 4, n // 8, 2, 1} - {0}, reverse=True):
        for a in range(0, n, k):
            out.append(cut(a, min(n, a + k)))
    for i in range(len(case["spans"])):
        out.append(dict(case, spans=case["spans"][:i] + case["spans"][i + 1:]))
    if case["base"]:
        out.append(dict(case, base=0))
    if case["width"] > 2:
        out.append(dict(case, width=case["width"] - 1))
        out.append(dict(case, width=max(2, case["width"] // 2)))
    for i, p in enumerate(case["str"]):
        if p[0] > 126 and p[1] == 1:
            out.append(dict(case, str=case["str"][:i] + [[97 + i % 26, 1]] + case["str"][i + 1:]))
    return out[:400]


def minimise(E, chk, case, clause, rounds=12):
    for _ in range(rounds):
        cands = [c for c in reductions(case) if size(c) < size(case)]
        if not cands:
            break
        recs = [execute(E, c) for c in cands]
        verdicts, st = tlc.judge("Trace_Wrap", recs, tag="c02min")
        chk.add_tlc(st, "M3-minimise")
        good = [c for c, v in zip(cands, verdicts) if v.split(":")[0] == clause]
        if not good:
            break
        case = min(good, key=size)
    return case


# ---- the check -----------------------------------------------------------------------------------------------

def m1_cfg(maxlen, design, tabs, invs, emit=False):
    return ("CONSTANTS\n  MaxLen = %d\n  MaxWidth = 6\n  Design = \"%s\"\n  TabSizes = {%s}\nSPECIFICATION Spec\n%s%s"
            "CHECK_DEADLOCK FALSE\n" % (maxlen, design, ", ".join(map(str, tabs)),
                                        "".join("INVARIANT %s\n" % i for i in invs), "CONSTRAINT Emit\n" if emit else ""))


def run_m1(chk):
    """the design against the property + the wrong designs, concurrently"""
    jobs = {
        "real-all": (m1_cfg(chk.pick(4, 5), "real", [2, 4], ["InvM1"]), chk.pick(3, 5)),
        "real-deep": (m1_cfg(chk.pick(5, 6), "real", [4], ["InvWrap"]), chk.pick(12, 10)),
        "witness-broken": (m1_cfg(3, "real", [4], ["NeverBroken"]), 1),
        "witness-dropped": (m1_cfg(3, "real", [4], ["NeverDropped"]), 1),
    }
    for d, invs in WRONG.items():
        jobs["wrong-" + d] = (m1_cfg(4, d, [4], invs), 1)
    res = {}

    def one(name):
        cfg, workers = jobs[name]
        try:
            res[name] = tlc.model_check("MC_Wrap", cfg_text=cfg, workers=workers, tag="c02m1", timeout=5400,
                                        require_actions=["AddN", "AddW", "AddZ", "AddS", "AddT", "AddL"]
                                        if name.startswith("real") else ())
        except Exception as ex:          # re-raised in the main thread
            res[name] = ex
    th = [threading.Thread(target=one, args=(n,)) for n in jobs]
    for t in th:
        t.start()
    for t in th:
        t.join()
    for name, v in res.items():
        if isinstance(v, Exception):
            raise v
    for name in ("real-all", "real-deep"):
        r, cov, missing = res[name]
        chk.add_tlc(r, "M1-" + name)
        if r.violated or missing or not r.finished:
            raise tlc.TLCFailure("MC_Wrap %s: the design does not satisfy the property part (violated=%s missing=%s)\n%s"
                                 % (name, r.violated, missing, r.out[-3000:]))
        chk.notes["m1_" + name.replace("-", "_")] = dict(class_strings=r.distinct, action_coverage={k: v[1] for k, v in cov.items()})
    guards = {}
    for name, (r, cov, missing) in res.items():
        if name.startswith("real"):
            continue
        chk.add_tlc(r, "M1-guards")
        want = WRONG.get(name[6:], ("NeverBroken", "NeverDropped"))
        if not r.violated or r.violated[0] not in want:
            raise tlc.TLCFailure("vacuity guard %s: TLC was expected to report %s violated, got %s\n%s"
                                 % (name, "/".join(want), r.violated, r.out[-2000:]))
        guards[name] = r.violated[0] + " violated, as required"
    chk.notes["m1_vacuity_guards"] = guards


def enumerated_cases(E, chk):
    """M2: every class string TLC enumerates, made concrete, with every configuration (short strings) or a
    seeded selection of configurations (longer strings)"""
    full_len, max_len, per_string = chk.pick((3, 5, 3), (4, 6, 5))
    behs, r = tlc.behaviours("MC_Wrap", cfg_text=m1_cfg(max_len, "real", [4], [], emit=True), tag="c02m2", timeout=3000)
    chk.add_tlc(r, "M2")
    strings = sorted({"".join(b["beh"]) for b in behs}, key=lambda x: (len(x), x))
    expect = sum(6 ** i for i in range(max_len + 1))
    if len(strings) != expect:
        raise tlc.TLCFailure("MC_Wrap emitted %d class strings, expected %d\n%s" % (len(strings), expect, r.out[-1500:]))
    chk.notes["tlc_enumerated_class_strings"] = len(strings)
    chk.notes["all_configurations_up_to_length"] = full_len
    rng = chk.rng
    allcfg = [(w, j, o, nw) for w in range(2, 7) for j in JUSTIFY for (o, nw) in MODES]
    cases = []
    for idx, cs in enumerate(strings):
        n = len(cs)
        cfgs = allcfg if n <= full_len else rng.sample(allcfg, per_string)
        s = concretize(E, cs, idx % 9)
        for ci, (w, j, o, nw) in enumerate(cfgs):
            if (ci + idx) % 2 == 0:          # every character its own span, no base
                spans, base = [[i, i + 1, 1 + i % NSTY] for i in range(n)], 0
            else:                            # random spans over a base style
                spans, base = rspans(rng, n, 5), rng.choice([0, 1, 2, 3, 4])
            tab = rng.choice([4, 8, 2]) if "T" in cs else 8
            cases.append(mkcase(E, s, base, spans, w, j, o, nw, tab))
    return cases


def run(chk: Check):
    E = env()
    chk.rule = ("a case is one call Text.wrap(console, width, justify, overflow, tab_size, no_wrap) on a styled text: "
                "(i) every class string over {narrow, wide, zero-width, space, tab, newline} enumerated by TLC (MC_Wrap), made "
                "concrete with distinct code points from per-class pools that start at the edges of the tree's width table - "
                "strings up to the full-configuration length with all 5 widths x 5 justify x 7 overflow/no_wrap modes (styled "
                "alternately one span per character / random spans over a base), longer ones with a seeded selection of configurations; (ii) seeded random texts of 0..200 characters "
                "(words of mixed classes, runs of spaces, tabs, newlines; every fifth over a small alphabet with repeats) with a "
                "base style and up to 14 random overlapping / nested / duplicate / empty spans, widths 2..200; distinct by (text, "
                "styles, arguments); non-trivial = the text is styled and either wrapping produced more lines than the text has "
                "source lines or characters were cropped")
    chk.trusted = ["drivers/c05.py:observe (per-character style of every returned line read back with Text.render; style -> "
                   "{attribute ids, colour id})", "drivers/c05.py:mk (Text(str, style) + stylize per span)",
                   "rich.cells.get_character_cell_size for the widths of input and output characters (subject of C13)",
                   "drivers/c02.py:pools (class membership of a code point decided by the tree's own width function and str.isspace)"]
    chk.assumptions = ["whitespace is space / tab / newline only (no other Unicode space, no control code the constructor strips); "
                       "the ellipsis character does not occur in inputs", "span offsets are non-negative; tab sizes 2, 4, 8",
                       "clauses (a) and (b) are demanded when wrapping happens (no_wrap false, overflow not ignore); clause (c) and "
                       "(d) always", "spaces are identified only where the output leaves no doubt (interior runs when justify is not "
                       "full, leading runs for default/left); all other spaces - padding, full-justify gaps, expanded tabs - are "
                       "unconstrained by (c) and only compared with RefWrap (drift)"]
    if chk.replay_only:
        cases = [chk.replay_only["case"]]
    else:
        run_m1(chk)
        chk.mark("M1")
        cases = enumerated_cases(E, chk)
        chk.notes["enumerated_cases"] = len(cases)
        nrand = chk.pick(2500, 25000)
        cases += [random_case(E, chk.rng) for _ in range(nrand)]
        chk.notes["random_cases"] = nrand
        chk.mark("generate")
    rejected = {}
    drifts = {}
    B = 60000
    for off in range(0, len(cases), B):
        part = cases[off:off + B]
        recs = [execute(E, c) for c in part]
        verdicts, st = tlc.judge("Trace_Wrap", recs, tag="c02m3")
        chk.add_tlc(st, "M3")
        chk.traces += len(recs)
        for c, rec, v in zip(part, recs, verdicts):
            styled = bool(c["base"]) or any(b > a for a, b, _ in c["spans"])
            nsrc = sum(1 for p in c["str"] if p[0] == 10) + 1
            nout = sum(len(l["chars"]) for l in rec["lines"])
            chk.case(c, styled and (len(rec["lines"]) > nsrc or nout < len(c["str"]) - (nsrc - 1)))
            if v == "ok":
                continue
            if v.startswith("drift"):
                key = "%s (%s)" % (v, shape(E, c))
                if key not in drifts or size(c) < size(drifts[key]):
                    drifts[key] = c
                continue
            sig = "%s %s" % (v, shape(E, c))
            if sig not in rejected or size(c) < size(rejected[sig][0]):
                rejected[sig] = (c, rec, v)
        if off == 0 and recs:
            chk.sample(dict(case=part[0], lines=recs[0]["lines"]))
            chk.sample(dict(case=part[-1], lines=recs[-1]["lines"]))
    chk.mark("M3")
    for key, c in sorted(drifts.items()):
        chk.drift_note("Text.wrap differs from RefWrap while WrapOK holds: %s e.g. text=%r width=%d tab=%d"
                       % (key, "".join(chr(p[0]) for p in c["str"])[:40], c["width"], c["tab"]))
    for sig, (c, rec, v) in sorted(rejected.items()):
        if not chk.replay_only and len(c["str"]) > 8 and len(rejected) <= 6:
            c = minimise(E, chk, c, v.split(":")[0])
            rec = execute(E, c)
        text = "".join(chr(p[0]) for p in c["str"])
        chk.reject(sig, "%s | text=%r base=%d spans=%s width=%d tab=%d -> lines=%s" % (
            v, text, c["base"], c["spans"], c["width"], c["tab"],
            [("".join(chr(x[0]) for x in l["chars"]), [[x[2], x[3]] for x in l["chars"]]) for l in rec["lines"]]),
            dict(c, observed=rec["lines"], exc=rec["exc"]))
    if chk.replay_only:
        print("replay verdict:", verdicts)
