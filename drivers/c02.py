"""C02 - Word wrapping keeps every character, in order, with its own style.

M1  MC_Wrap: the design (RefWrap, a transcription of Text.wrap) satisfies WrapOK for every class
    string up to a bound; four deliberately wrong designs must be rejected (vacuity guard).
M2  MC_Wrap emits every class string; each is made concrete (distinct code points per position,
    drawn from per-class pools that start at the boundaries of the tree's width table).
M3  Trace_Wrap: each input is wrapped by the real Text.wrap; what every returned line shows
    through Text.render goes to TLC, which computes the effective input styles from base + spans,
    identifies the output characters and judges WrapOK; a difference from RefWrap alone is DRIFT.
A case is what the model sees (text, base style, spans with an attribute+colour and a hyperlink channel, width, the
effective justify / overflow / no_wrap / tab size) plus a *delivery* ("how", see deliver()) the model does not see: the way
the Text is built, the form of the styles, where each option is given (argument, Text attribute, both, default), the
entry point (Text.wrap or the console's rendering of the Text) and earlier wrap calls on the same object."""
import io
import os
import re
import threading

from engine import tlc
from engine.harness import Check

JUSTIFY = ["default", "left", "center", "right", "full"]
OVERFLOW = ["fold", "crop", "ellipsis", "ignore"]
MODES = [(o, nw) for o in OVERFLOW for nw in (False, True)]
CLASSES = "NWZSTL"
WRONG = {"chopdrop": ("InvA", "InvB"), "notrunc": ("InvB",), "styleslip": ("InvC",), "breakfit": ("InvD",)}
NSTY = 4
NLINK = 2
# every other character Python counts as white space (str.isspace / regex \s) that the Text constructor keeps
# (VT FF CR are stripped by it): zero cells (FS GS RS US NEL LS PS), one cell, two cells (IDEOGRAPHIC SPACE)
OTHER_WS = [0x1C, 0x1D, 0x1E, 0x1F, 0x85, 0xA0, 0x1680] + list(range(0x2000, 0x200B)) + [0x2028, 0x2029, 0x202F, 0x205F, 0x3000]
LINE_BOUNDARY_WS = ["\x1c", "\x1d", "\x1e", "\x85", "\u2028", "\u2029"]
ATTRS = ["bold", "italic", "underline", "strike"]
COLS = ["red", "green", "blue", "yellow"]
URLS = {1: "https://example.org/a", 2: "https://example.org/b?x=1;y=2"}      # ';' and '=' are legal in a link target
TABS = [8, 8, 8, 4, 4, 2, 1, 3, 5, 6, 7, 16]


def env():
    """Everything taken from the tree under test.  A style of the model is a pair (k, l): k in 0..4 sets attribute k
    and colour k, l in 0..2 sets hyperlink l.  Each pair exists in the three forms a user can write a style in:
    a Style object, a style definition string, the name of a style of the console's theme."""
    from rich.console import Console
    from rich.style import Style
    from rich.text import Text, Span
    from rich.theme import Theme
    from rich.cells import get_character_cell_size
    obj, defs, names = {}, {}, {}
    for k in range(NSTY + 1):
        for l in range(NLINK + 1):
            kw = {}
            words = []
            if k:
                kw[ATTRS[k - 1]] = True
                kw["color"] = COLS[k - 1]
                words += [ATTRS[k - 1], COLS[k - 1]]
            if l:
                kw["link"] = URLS[l]
                words += ["link", URLS[l]]
            obj[(k, l)] = Style(**kw)
            defs[(k, l)] = " ".join(words) if words else "none"
            names[(k, l)] = "c02.k%dl%d" % (k, l)
    theme = Theme({names[kl]: obj[kl] for kl in obj})
    console = Console(file=io.StringIO(), width=200, theme=theme)
    from rich.segment import Segment
    consoles = {}

    def console_for(tab):                  # Text.__rich_console__ takes the tab size from the console
        if tab not in consoles:
            consoles[tab] = Console(file=io.StringIO(), width=200, theme=theme, tab_size=tab)
        return consoles[tab]
    E = dict(Console=Console, Style=Style, Text=Text, Span=Span, Segment=Segment, w=get_character_cell_size, console=console,
             console_for=console_for, obj=obj, defs=defs, names=names, url_id={v: k for k, v in URLS.items()})
    E["pools"] = pools(E)
    return E


def style(E, k, l, rep):
    """rep: 0 Style object, 1 definition string, 2 theme style name"""
    return (E["obj"], E["defs"], E["names"])[rep][(k, l)]


# ---- characters ---------------------------------------------------------------------------------

def pools(E):
    """Per class a list of distinct code points of that class in the tree under test; the lists
    start with characters at the edges of the ranges of the tree's own width table."""
    from rich._cell_widths import CELL_WIDTHS
    w = E["w"]

    def ok(cp, want):
        if cp < 33 or 127 <= cp <= 160 or 0xD800 <= cp <= 0xDFFF or cp > 0x10FFFF or cp == 8230:
            return False
        ch = chr(cp)
        return not ch.isspace() and re.match(r"\s", ch) is None and w(ch) == want

    edge = {0: [], 1: [], 2: []}
    for lo, hi, cw in CELL_WIDTHS:
        cw = 0 if cw == -1 else cw
        for cp in (lo, hi):
            if ok(cp, cw):
                edge[cw].append(cp)
        for cp in (lo - 1, hi + 1):             # the neighbours outside a range
            for want in (1, 2, 0):
                if ok(cp, want):
                    edge[want].append(cp)
                    break

    def spread(xs, n):                         # n edges spread over the table, first ones first
        xs = list(dict.fromkeys(xs))
        if len(xs) <= n:
            return xs
        step = len(xs) / float(n)
        return list(dict.fromkeys([xs[0], xs[1]] + [xs[int(i * step)] for i in range(n)]))

    def fill(first, ranges, want, size):
        out = list(dict.fromkeys(first))
        seen = set(out)
        for lo, hi in ranges:
            for cp in range(lo, hi + 1):
                if len(out) >= size:
                    return out
                if cp not in seen and ok(cp, want):
                    out.append(cp)
                    seen.add(cp)
        return out

    P = {
        "N": fill([ord("a"), ord("~"), ord("!"), ord("[")] + spread(edge[1], 24),
                  [(33, 126), (0xA1, 0x24F), (0x390, 0x3FF), (0x410, 0x44F)], 1, 330),
        "W": fill(spread(edge[2], 24) + [0x4E16, 0xFF21, 0x1F600], [(0x4E00, 0x4FFF)], 2, 330),
        "Z": fill(spread(edge[0], 24) + [0x301, 0x200B], [(0x300, 0x36F), (0x483, 0x489), (0x591, 0x5BD), (0x610, 0x61A),
                                                              (0x64B, 0x65F), (0x1AB0, 0x1AFF), (0x1DC0, 0x1DFF),
                                                              (0x20D0, 0x20F0), (0xFE00, 0xFE0F), (0xFE20, 0xFE2F)], 0, 330),
    }
    for k, v in P.items():
        if len(v) < 40:
            raise RuntimeError("class pool %s of the tree under test is too small (%d)" % (k, len(v)))
    P["S"], P["T"], P["L"] = [32], [9], [10]
    # the other white space characters, as the tree under test sees them (they must be white space for Python,
    # survive the constructor, and have a width in 0..2)
    from rich.control import strip_control_codes
    P["U"] = [cp for cp in OTHER_WS if chr(cp).isspace() and strip_control_codes(chr(cp)) == chr(cp) and w(chr(cp)) in (0, 1, 2)]
    return P


def concretize(E, classes, variant, rng=None):
    """class string -> text with a distinct code point at every visible position; with rng every space becomes
    one of the other white space characters (now and then it stays a space)"""
    P = E["pools"]
    used = {}
    out = []
    for c in classes:
        pool = P[c]
        if c == "S" and rng is not None:
            out.append(chr(rng.choice(P["U"] + [0x3000, 0x3000, 0xA0, 0xA0, 0x1C, 0x85, 0x2028, 32, 32])))
            continue
        if len(pool) == 1:
            out.append(chr(pool[0]))
            continue
        k = used.get(c, 0)
        used[c] = k + 1
        out.append(chr(pool[(variant * 5 + k) % len(pool)]))
    return "".join(out)


def rsty(rng, links):
    """style of one span: mostly an attribute+colour style, with links now and then a hyperlink (alone or combined),
    rarely the null style"""
    if not links:
        return rng.randint(1, NSTY), 0
    r = rng.random()
    if r < 0.55:
        return rng.randint(1, NSTY), 0
    if r < 0.75:
        return 0, rng.randint(1, NLINK)
    if r < 0.97:
        return rng.randint(1, NSTY), rng.randint(1, NLINK)
    return 0, 0


def rspans(rng, n, kmax, links=False, wild=False):
    """random overlapping / nested / duplicate / empty spans (list order = precedence).  wild: also offsets counted
    from the end (negative, as stylize() takes them) and ends far beyond the text"""
    spans = []
    for _ in range(rng.randint(0, kmax)):
        r = rng.random()
        if spans and r < 0.15:
            a, b = rng.choice(spans)[:2]                          # duplicate range, maybe another style
        elif spans and r < 0.35:
            pa, pb = rng.choice(spans)[:2]                        # nested in / overlapping an earlier one
            pa, pb = max(0, pa), max(0, pb)
            a = rng.randint(min(pa, n), min(max(pa, pb), n))
            b = rng.randint(a, min(n + 1, max(pb, a) + rng.randint(0, 3)))
        elif r < 0.45:
            a = rng.randint(0, n)
            b = rng.choice([a, a, max(0, a - 1)])                 # empty
        else:
            a = rng.randint(0, n)
            b = min(n + 2, a + rng.choice([1, 1, 2, 3, rng.randint(1, max(1, n))]))
        if wild:
            r = rng.random()
            if r < 0.15:
                a = a - n if a < n else -rng.randint(1, n + 3)    # the same start counted from the end / before the text
            elif r < 0.3 and 0 < b < n:
                b = b - n                                         # the same end counted from the end
            elif r < 0.4:
                b = b + rng.choice([5, 100, 10 ** 6])
        k, l = rsty(rng, links)
        spans.append([a, b, k, l])
    return spans


def mkcase(E, s, base, spans, width, justify, overflow, no_wrap, tab, lbase=0, how=None):
    """spans may be [a, b, k] or [a, b, k, l]; how = delivery (None: everything the plain way, see deliver())"""
    w = E["w"]
    how = dict(how or {})
    ovarg = overflow if how.get("ov", "arg") in ("arg", "both") or how.get("entry") == "console" else "none"
    return dict(str=[[ord(c), w(c)] for c in s], base=base, lbase=lbase, spans=[(list(x) + [0])[:4] for x in spans],
                width=width, justify=justify, overflow=overflow, no_wrap=no_wrap, tab=tab, ovarg=ovarg, how=how)


# ---- delivery: how the text, its styles and the options reach Text.wrap ---------------------------------------------
# All of this is invisible to the model: a case means the same whichever way it is delivered.
#   via    stylize  Text(str, style=base) + stylize(style, a, b) per span            (any offsets)
#          spans    Text(str, style=base, spans=[Span(a, b, style) ...])             (0 <= a <= b)
#          append   Text(style=base) + append(piece, style) / append(Text) ...       (the first npieces spans are the pieces)
#          assemble Text.assemble(piece | (piece, style) | Text ..., style=base)     (same)
#          styled   Text.styled(str, style)                                          (first span covers the text, no base)
#          markup   Text.from_markup("[style]..[/style]", style=base)                (spans in order of opening, see markup_ok)
#          then stylize() for the remaining spans
#   reps   per span (and "brep" for the base) the form of the style: 0 Style object, 1 definition string, 2 theme name
#   jv/ov/nv   arg: wrap argument only | attr: the Text's own attribute, argument None | both: argument + a different
#          value ("dj"/"do"/"dn") on the Text, which must lose | unset: neither (only for default / fold / False)
#   tv     arg | omit (tab 8 only: the default of the parameter);  ttab / end: the Text's own tab_size / end, which wrap
#          does not read
#   entry  wrap: text.wrap(console, width, ...) | console: console.render(text, options with the width) - the way
#          Console.print wraps a Text: Text.__rich_console__ -> wrap -> Text("\\n").join(lines) -> render; options not set
#          on the Text come from the ConsoleOptions (never both: which one wins is not C02's business), the tab size
#          from the console, the lines are read back from the segment stream
#   pre    earlier wrap calls [width, justify, overflow, no_wrap, tab] on the very same Text object (results dropped):
#          wrapping must not change the text, caches must not remember a stale answer

def resolved(spans, n):
    """the spans as stylize() understands them: 0 <= a < b <= n, no-ops dropped"""
    out = []
    for a, b, k, l in spans:
        if a < 0:
            a = max(0, n + a)
        if b < 0:
            b = n + b
        if a >= n or b <= a:
            continue
        out.append([a, min(n, b), k, l])
    return out


def markup_ok(s, spans):
    """can this span list be written as markup without meaning something else?  (no character that starts a tag or an
    emoji code; spans already in order of opening; no two open spans that a closing tag could confuse: same
    attribute style, or two links - every link tag is called 'link')"""
    n = len(s)
    if any(c in s for c in "[\\:"):
        return False
    if any(not (0 <= a <= b <= n) or (k == 0 and l == 0) for a, b, k, l in spans):
        return False
    if any(spans[i][0] > spans[i + 1][0] for i in range(len(spans) - 1)):
        return False
    for i, (a, b, k, l) in enumerate(spans):
        for a2, b2, k2, l2 in spans[i + 1:]:
            if a < b2 and a2 < b and a < b and a2 < b2:
                if (k and k == k2) or (l and l2):
                    return False
    return True


def markup_of(E, s, spans, close_all):
    n = len(s)

    def tags(k, l):
        out = []
        if k:
            out.append(("%s %s" % (ATTRS[k - 1], COLS[k - 1]), "%s %s" % (ATTRS[k - 1], COLS[k - 1])))
        if l:
            out.append(("link=%s" % URLS[l], "link"))
        return out
    out = []
    for pos in range(n + 1):
        for a, b, k, l in spans:
            if b == pos and a < b and (close_all or b < n):
                out.extend("[/%s]" % name for _, name in reversed(tags(k, l)))
        for a, b, k, l in spans:
            if a == pos:
                out.extend("[%s]" % t for t, _ in tags(k, l))
                if b == a:
                    out.extend("[/%s]" % name for _, name in reversed(tags(k, l)))
        if pos < n:
            out.append(s[pos])
    return "".join(out)


def deliver(rng, s, base, lbase, spans, justify, overflow, no_wrap, tab, fancy=True):
    """-> (base, lbase, spans, how): picks a delivery and adapts the span list to it (pieces in front, order of opening)"""
    n = len(s)
    how = {}
    if not fancy:
        return base, lbase, spans, how
    # --- construction
    via = rng.choice(["stylize", "stylize", "stylize", "spans", "append", "assemble", "styled", "markup"])
    if via in ("append", "assemble"):
        cuts = sorted(rng.randint(0, n) for _ in range(rng.randint(0, 5)))
        pieces, prev = [], 0
        for c in cuts + [n]:
            k, l = rsty(rng, True) if rng.random() < 0.7 else (0, 0)
            kind = rng.choice("sst")                   # s: str with style / plain str, t: a Text with that base style
            pieces.append([prev, c, k, l, kind])
            prev = c
        how["pieces"] = pieces
        spans = [[a, b, k, l] for a, b, k, l, _ in pieces if k or l] + spans
        how["npieces"] = sum(1 for p in pieces if p[2] or p[3])
    elif via == "styled":
        if base or lbase:
            via = "stylize"
        else:
            k, l = rsty(rng, True)
            spans = [[0, n, k, l]] + spans
    elif via == "markup":
        cand = sorted(resolved(spans, n) + [sp for sp in spans if 0 <= sp[0] == sp[1] <= n and (sp[2] or sp[3])],
                      key=lambda sp: sp[0])
        if markup_ok(s, cand):
            spans = cand
            how["close_all"] = rng.random() < 0.5
            how["emoji"] = rng.choice([True, False, None])
        else:
            via = "stylize"
    if via == "spans" and any(a < 0 or b < a for a, b, _, _ in spans):
        via = "stylize"
    how["via"] = via
    # --- form of the styles
    mode = rng.choice([0, 0, 1, 2, 3])
    reps = [0 if mode == 0 else (mode if mode < 3 else rng.randint(0, 2)) for _ in spans]
    how["reps"] = reps
    how["brep"] = 0 if mode == 0 else (mode if mode < 3 else rng.randint(0, 2))
    # --- options
    def pick(is_default):
        return rng.choice(["arg", "arg", "attr", "both"] + (["unset"] if is_default else []))
    how["jv"], how["ov"], how["nv"] = pick(justify == "default"), pick(overflow == "fold"), pick(not no_wrap)
    how["dj"] = rng.choice([j for j in JUSTIFY if j != justify])
    how["do"] = rng.choice([o for o in OVERFLOW if o != overflow])
    how["dn"] = not no_wrap
    how["tv"] = "omit" if tab == 8 and rng.random() < 0.5 else "arg"
    if rng.random() < 0.2:
        how["entry"] = "console"
        for key in ("jv", "ov", "nv"):
            if how[key] == "both":
                how[key] = "attr"
    how["ttab"] = rng.choice([8, 8, 4, 3, 1, None])
    how["end"] = "\n" if how.get("entry") == "console" else rng.choice(["\n", "\n", "", " ", "x"])
    # --- earlier calls on the same object
    r = rng.random()
    if r < 0.25:
        how["pre"] = [[rng.choice([2, 3, 5, 8, 200]), rng.choice(JUSTIFY), rng.choice(OVERFLOW), rng.random() < 0.2, rng.choice(TABS)]
                      for _ in range(rng.choice([1, 1, 2]))]
    elif r < 0.35:
        how["pre"] = ["same"]
    return base, lbase, spans, how


def options(case):
    """-> (Text attributes, wrap keyword arguments) for the effective options of the case"""
    how = case.get("how") or {}
    attrs, kw = {}, {}
    for opt, key, decoy in (("justify", "jv", "dj"), ("overflow", "ov", "do"), ("no_wrap", "nv", "dn")):
        v = how.get(key, "arg")
        if v in ("arg", "both"):
            kw[opt] = case[opt]
        if v == "attr":
            attrs[opt] = case[opt]
        if v == "both":
            attrs[opt] = how[decoy]
    if how.get("tv", "arg") == "arg":
        kw["tab_size"] = case["tab"]
    if "ttab" in how:
        attrs["tab_size"] = how["ttab"]
    if "end" in how:
        attrs["end"] = how["end"]
    return attrs, kw


def mk(E, case):
    """case -> the real Text"""
    Text, Span = E["Text"], E["Span"]
    how = case.get("how") or {}
    s = "".join(chr(p[0]) for p in case["str"])
    spans = case["spans"]
    reps = how.get("reps") or [0] * len(spans)
    sty = [style(E, k, l, r) for (a, b, k, l), r in zip(spans, reps)]
    base = style(E, case["base"], case["lbase"], how.get("brep", 0)) if case["base"] or case["lbase"] else ""
    attrs, _ = options(case)
    via = how.get("via", "stylize")
    done = 0

    def ctor(f, allowed, *a, **kw):
        t = f(*a, **dict(kw, **{k: v for k, v in attrs.items() if k in allowed}))
        for k, v in attrs.items():
            if k not in allowed:
                setattr(t, k, v)
        return t
    ALL = ("justify", "overflow", "no_wrap", "end", "tab_size")
    if via == "spans":
        t = ctor(Text, ALL, s, style=base, spans=[Span(a, b, st) for (a, b, _, _), st in zip(spans, sty)])
        done = len(spans)
    elif via in ("append", "assemble"):
        parts = []
        i = 0
        for a, b, k, l, kind in how["pieces"]:
            st = None
            if k or l:
                st = sty[i]
                i += 1
            if kind == "t":
                parts.append(Text(s[a:b], style=st if st is not None else ""))
            elif st is None:
                parts.append(s[a:b])
            else:
                parts.append((s[a:b], st))
        done = i
        if via == "assemble":
            t = ctor(Text.assemble, ALL, *parts, style=base)
        else:
            t = ctor(Text, ALL, style=base)
            for p in parts:
                if isinstance(p, tuple):
                    t.append(*p)
                elif isinstance(p, str) or len(p) % 2:
                    t.append(p)
                else:
                    t.append_text(p)
    elif via == "styled":
        t = ctor(Text.styled, ("justify", "overflow"), s, sty[0])
        done = 1
    elif via == "markup":
        kw = {} if how.get("emoji") is None else {"emoji": how["emoji"]}
        t = ctor(Text.from_markup, ("justify", "overflow"), markup_of(E, s, spans, how.get("close_all", True)), style=base, **kw)
        done = len(spans)
    else:
        t = ctor(Text, ALL, s, style=base)
    for (a, b, k, l), st in list(zip(spans, sty))[done:]:
        t.stylize(st, a, b)
    return t


# ---- the call under test and its projection --------------------------------------------------------

def observe(E, line):
    """what a returned line shows: per character the attributes / colour / link of the Segment that Text.render puts it in"""
    return observe_segments(E, line.render(E["console"]), len(line.plain))


def observe_segments(E, segments, expect=None):
    chars = []
    for seg in segments:
        st = seg.style
        ids, top, link = [], 0, 0
        if st is not None:
            ids = [i + 1 for i, a in enumerate(ATTRS) if getattr(st, a)]
            if st.color is not None:
                top = COLS.index(st.color.name) + 1 if st.color.name in COLS else 9
            if st.link is not None:
                link = E["url_id"].get(st.link, 9)
        for ch in seg.text:
            chars.append([ord(ch), E["w"](ch), ids, top, link])
    if expect is not None and len(chars) != expect:
        return dict(rexc="render-length-%d-plain-%d" % (len(chars), expect), chars=chars)
    return dict(rexc="none", chars=chars)


def execute(E, case):
    """Runs the real Text.wrap; returns the record for Trace_Wrap."""
    rec = {k: v for k, v in case.items() if k != "how"}
    rec["exc"] = "none"
    rec["lines"] = []
    how = case.get("how") or {}
    try:
        t = mk(E, case)
        _, kw = options(case)
        for p in how.get("pre", ()):
            if p == "same":
                list(t.wrap(E["console"], case["width"], **kw))
            else:
                list(t.wrap(E["console"], p[0], justify=p[1], overflow=p[2], no_wrap=p[3], tab_size=p[4]))
        if how.get("entry") == "console":
            console = E["console_for"](case["tab"])
            okw = {k: v for k, v in kw.items() if k != "tab_size"}
            segs = list(console.render(t, console.options.update(width=case["width"], **okw)))
            rec["lines"] = [observe_segments(E, line) for line in E["Segment"].split_lines(segs)]
            return rec
        lines = list(t.wrap(E["console"], case["width"], **kw))
    except Exception as ex:
        rec["exc"] = type(ex).__name__
        return rec
    for line in lines:
        try:
            rec["lines"].append(observe(E, line))
        except Exception as ex:
            rec["lines"].append(dict(rexc=type(ex).__name__, chars=[]))
    return rec


# ---- random inputs ------------------------------------------------------------------------------------

def rword(E, rng, st, cells=None, wl=None):
    """one word: wl characters of mixed classes, or (cells given) exactly that many cells"""
    P = E["pools"]

    def ch(k):
        if st["small"]:
            return chr(rng.choice(st["alpha"][k]))
        st["nxt"][k] += 1
        return chr(P[k][st["nxt"][k] % len(P[k])])
    mix = st["mix"] if rng.random() < 0.9 else rng.choice([(0, 0, 1), (0, 1, 0), (1, 0, 0), (0, 1, 1)])
    if cells is None:
        return [ch(rng.choices("NWZ", mix)[0]) for _ in range(wl)]
    out, left, zs = [], cells, 0
    while left > 0:
        k = rng.choices("NWZ", mix)[0]
        if k == "Z":
            zs += 1
            if mix[0] + mix[1] == 0 and zs > 4:          # a word of zero-width characters only has no size to reach
                break
            if zs > cells + 3:
                k = "N"
        if k == "W" and left < 2:
            k = "N"
        out.append(ch(k))
        left -= {"N": 1, "W": 2, "Z": 0}[k]
    return out


def rsep(rng, P, profile):
    """one run of white space"""
    r = rng.random()
    if profile == "uws" and r < 0.6:
        return [chr(rng.choice(P["U"] + [0x3000, 0x3000, 0xA0])) if rng.random() < 0.7 else " " for _ in range(rng.choice([1, 1, 2, 3]))]
    if profile == "tabs" and r < 0.5:
        return list(rng.choice(["\t", "\t", " \t", "\t ", "\t\t", "  \t"]))
    if profile == "edges" and r < 0.3:
        return ["\n"] * rng.choice([1, 2, 3]) if rng.random() < 0.5 else list(rng.choice([" \n", "\n ", " \n ", "  \n\n  ", "\t\n"]))
    if r < 0.86:
        return [" "] * rng.choice([1, 1, 1, 1, 2, 3, rng.randint(1, 12)])
    if r < 0.90:
        return [chr(rng.choice(P["U"]))]
    if r < 0.95:
        return ["\t"]
    return ["\n"] * rng.choice([1, 1, 2])


def rtext(E, rng, nmax, width=None):
    """words of mixed classes separated by runs of white space; code points distinct while the pools last, or (every
    fifth text) a small alphabet with many repeats.  Profiles: plain | uws (other Unicode white space) | tabs |
    edges (runs of newlines, white space around newlines, at both ends) | fit (word sizes around the given width:
    width - 1, width, width + 1, 2 width, 2 width + 1 cells ...)"""
    P = E["pools"]
    n = rng.choice([rng.randint(0, 12), rng.randint(5, 40), rng.randint(20, nmax), rng.randint(nmax // 2, nmax)])
    profile = "fit" if width is not None else rng.choice(["plain", "plain", "plain", "uws", "tabs", "edges"])
    st = dict(small=rng.random() < 0.2, alpha={k: rng.sample(P[k], 3) for k in "NWZ"}, nxt={k: rng.randint(0, 50) for k in "NWZ"},
              mix=rng.choice([(1, 0, 0), (6, 1, 1), (2, 2, 1), (1, 3, 0), (3, 1, 3), (0, 1, 0)]))
    out = []
    if rng.random() < (0.6 if profile == "tabs" else 0.2):
        out.extend(rsep(rng, P, profile))                   # the text starts with white space
    while len(out) < n:
        if profile == "fit":
            c = rng.choice([width - 1, width, width, width + 1, width + 1, 2 * width, 2 * width + 1, 2 * width - 1, 1, 2, 3,
                            max(1, width // 2), rng.randint(1, width)])
            out.extend(rword(E, rng, st, cells=max(1, c)))
        else:
            out.extend(rword(E, rng, st, wl=rng.choice([1, 2, 3, 4, 5, 7, rng.randint(1, 12), rng.randint(1, 40), rng.randint(1, nmax)])))
        out.extend(rsep(rng, P, profile))
    out = out[:n]
    if out and rng.random() < 0.8:
        while out and out[-1].isspace() and rng.random() < 0.9:      # mostly end with a word, sometimes with white space
            out.pop()
    return "".join(out)


def rwidth(E, rng, s, tab):
    """widths around the sizes that decide: the widest word, the widest line, the first word of a line with its indentation"""
    w = E["w"]
    cl = lambda x: sum(w(c) for c in x)
    longest = max([cl(x) for x in s.split()] + [1])
    line = max(cl(x.expandtabs(tab)) for x in s.split("\n"))
    ind = [1]
    for ln in s.split("\n"):
        body = ln.lstrip()
        if body and len(body) < len(ln):
            col = 0
            for c in ln[:len(ln) - len(body)]:
                col = col + tab - col % tab if c == "\t" else col + w(c)
            ind.append(col + cl(body.split()[0]))
    iw = rng.choice(ind)
    return max(2, min(200, rng.choice([2, 3, 4, 5, 8, rng.randint(2, 12), rng.randint(2, 30), longest, longest + 1, longest - 1,
                                       line, line + 1, line - 1, iw, iw - 1, iw + 1, iw + rng.randint(0, 9),
                                       rng.randint(2, 200), len(s) // 3, 200, 199])))


def random_case(E, rng, nmax=200):
    tab = rng.choice(TABS)
    if rng.random() < 0.25:
        width = rng.choice([2, 3, 4, 5, 7, 8, 9, rng.randint(2, 20), rng.randint(2, 80)])
        s = rtext(E, rng, nmax, width)
    else:
        s = rtext(E, rng, nmax)
        width = rwidth(E, rng, s, tab)
    o, nw = rng.choice(MODES + [("fold", False)] * 6)
    j = rng.choice(JUSTIFY)
    fancy = rng.random() < 0.75
    base, lbase = rng.choice([0, 0, 1, 2, 3, 4]), (rng.choice([0, 0, 0, 1, 2]) if fancy else 0)
    spans = rspans(rng, len(s), rng.choice([0, 2, 4, 8, 14]), links=fancy, wild=fancy and rng.random() < 0.4)
    base, lbase, spans, how = deliver(rng, s, base, lbase, spans, j, o, nw, tab, fancy)
    return mkcase(E, s, base, spans, width, j, o, nw, tab, lbase, how)


# ---- hand-listed inputs at the boundaries ---------------------------------------------------------------------------

def boundary_cases(E, rng, per_text):
    """short texts that sit on the boundaries of the algorithm (every character its own span, or spans that start and
    end exactly where the text breaks), widths around the sizes of their words, every justify x overflow x no_wrap,
    delivered plainly and in a random other way"""
    P = E["pools"]
    N, W, Z = [chr(c) for c in P["N"][:12]], [chr(c) for c in P["W"][:8]], [chr(c) for c in P["Z"][:6]]
    I, NB, FS = "\u3000", "\xa0", "\x1f"
    a, b, c, d, e, f = N[:6]
    A, B, C, D = W[:4]
    z, y = Z[:2]
    texts = [
        "", " ", "   ", "\n", "\n\n", " \n ", "\t", "\t\t", I, NB, FS, z, z + y,                              # nothing visible
        a, a + b, a + b + c, a + b + c + d + e, A, A + B, a + A, A + a, a + A + b, A + a + B, A + B + C,      # one word, wide characters astride the edge
        a + z, z + a, a + z + b + y, A + z, z + z + " " + a, a + " " + z + y + " " + b,                       # zero-width characters, words made of them
        a + b + " " + c + d, a + b + "  " + c + d, a + " " + b + " " + c, a + b + c + " " + d, a + " " + b + c + d,
        " " + a + b, "  " + a + b, "   " + a + b + c, a + b + " ", a + b + "   ", " " + a + " ", "  " + a + b + "  " + c + "  ",
        a + b + c + d + " " + e, a + " " + b + c + d + e + f + " " + a, A + " " + B, A + B + " " + C, a + " " + A + B,
        a + "\n" + b, a + "\n\n" + b, a + b + c + "\n" + d, "\n" + a, a + "\n", a + " \n " + b, a + b + c + d + "\n\n\n" + e + " " + f,
        "\t" + a, a + "\t" + b, a + b + "\t" + c + d, A + "\t" + b, a + "\t" + A, "\t\t" + a + b + c, " \t" + a, a + "\t", a + "\t\n\t" + b,
        a + NB + b, a + b + NB + c + d, a + I + b, a + b + I, I + a + b, a + b + c + I + I + d, a + FS + b, a + " " + NB + " " + b,
        I + "\t" + a + b + c, FS + "\t" + a + b + c + d, a + b + " " + I, a + b + c + " " + I + I, A + I + B, a + " " + b, a + "\x85" + b + c,
        a + b + c + d + e + f + a + b + c + d + e + f, (a + b + c + " ") * 4, (A + " ") * 3 + a, (a + " ") * 6,
    ]
    # the characters str.splitlines() takes for line boundaries but Text.split("\\n") / Text.wrap do not (zero cells wide,
    # white space for \\s and str.split): a line that holds them is longer than any of its splitlines() pieces
    for ch in LINE_BOUNDARY_WS:
        texts += [a + b + c + ch + d + e + f, a + ch + b, ch + a + b, a + b + ch, a + b + c + ch + ch + d + e + f + a, a + " " + ch + " " + b,
                  A + B + ch + C + D, a + b + c + ch + d + e + f + "\n" + a + b + c, a + b + ch + "\t" + c]
    cases = []
    for ti, s in enumerate(texts):
        n = len(s)
        wl = [sum(E["w"](c) for c in x) for x in s.split()] + [sum(E["w"](c) for c in s)]
        widths = sorted({2, 3} | {min(200, max(2, x + dx)) for x in wl for dx in (-1, 0, 1)})[:7]
        cfgs = [(w, j, o, nw) for w in widths for j in JUSTIFY for (o, nw) in MODES]
        for ci, (w, j, o, nw) in enumerate(rng.sample(cfgs, min(per_text, len(cfgs)))):
            tab = rng.choice([8, 4, 2, 3, 1]) if "\t" in s else 8
            kind = (ci + ti) % 4
            if kind == 0:                                # every character its own span
                spans, base, lbase = [[i, i + 1, 1 + i % NSTY, (i // 2) % (NLINK + 1)] for i in range(n)], 0, 0
            elif kind == 1:                              # spans whose ends lie on word / break boundaries, beyond the text, before it
                edges = sorted({0, n} | {i for i in range(1, n) if s[i].isspace() != s[i - 1].isspace()} | {min(n, w), min(n, 2 * w)})
                spans = []
                for _ in range(rng.randint(1, 6)):
                    x, y2 = sorted([rng.choice(edges), rng.choice(edges)])
                    spans.append([x, rng.choice([y2, y2, n + 3, x]), rng.randint(1, NSTY), rng.choice([0, 0, 1, 2])])
                base, lbase = rng.choice([0, 1, 2]), rng.choice([0, 0, 1])
            else:
                spans, base, lbase = rspans(rng, n, 5, links=True, wild=kind == 3), rng.choice([0, 0, 1, 2, 3, 4]), rng.choice([0, 0, 1, 2])
            fancy = ci % 2 == 1
            base, lbase, spans, how = deliver(rng, s, base, lbase, spans, j, o, nw, tab, fancy)
            cases.append(mkcase(E, s, base, spans, w, j, o, nw, tab, lbase, how))
    # indentation: a first word behind spaces and tabs, every tab size, widths from "just fits" upwards (clause d counts
    # the indentation; a tab stop in the wrong place breaks a word that fits)
    word = "".join(N)
    ci = 0
    for tab in (1, 2, 3, 4, 5, 6, 7, 8, 16):
        for lead in ("\t", " \t", "  \t", "\t\t", "   \t", "\t \t", "     \t", "\t  "):
            col = 0
            for ch in lead:
                col = col + tab - col % tab if ch == "\t" else col + 1
            for L in (2, 5, 12):
                for dw in (0, 1, 3, 6):
                    ci += 1
                    s = lead + word[:L] + rng.choice(["", " " + b + c, "\n" + lead + d + e])
                    n = len(s)
                    spans = [[i, i + 1, 1 + i % NSTY, 0] for i in range(n)] if ci % 2 else rspans(rng, n, 4, links=True)
                    j = JUSTIFY[ci % 5]
                    how = {"tv": "omit"} if tab == 8 and ci % 3 else {}
                    if col + L + dw <= 200:
                        cases.append(mkcase(E, s, 0, spans, max(2, col + L + dw), j, "fold", False, tab, 0, how))
    return cases


# ---- shape of a case for signatures -----------------------------------------------------------------------

def shape(E, case):
    s = "".join(chr(p[0]) for p in case["str"])
    srcw = max(sum(E["w"](c) for c in ln.expandtabs(case["tab"])) for ln in s.split("\n"))
    return "justify=%s overflow=%s no_wrap=%s line-wider-than-width=%s" % (
        case["justify"], case["overflow"], case["no_wrap"], srcw > case["width"])


def size(case):
    return (0 if plain_delivery(case) else 1 + len((case.get("how") or {}).get("pre", ())), len(case["str"]), len(case["spans"]), case["width"],
            0 if case["base"] == 0 and case["lbase"] == 0 else 1)


def plain_delivery(case):
    n = len(case["str"])
    return not case.get("how") and all(0 <= a < b <= n for a, b, _, _ in case["spans"])


def plain_version(case):
    """the same case delivered the plain way (arguments only, stylize with resolved offsets)"""
    return dict(case, how={}, spans=resolved(case["spans"], len(case["str"])), ovarg=case["overflow"])


def reductions(case):
    """candidate simplifications of a failing case (one TLC batch per round)"""
    if not plain_delivery(case):
        how = case.get("how") or {}
        out = [plain_version(case)]
        if how.get("pre"):
            out.append(dict(case, how={k: v for k, v in how.items() if k != "pre"}))
        return out
    n = len(case["str"])
    out = []

    def cut(a, b):
        k = b - a
        sp = []
        for x, y, st, ln in case["spans"]:
            x2 = x if x <= a else max(a, x - k)
            y2 = y if y <= a else max(a, y - k)
            sp.append([x2, y2, st, ln])
        return dict(case, str=case["str"][:a] + case["str"][b:], spans=resolved(sp, n - k))

    for k in sorted({n // 2, n // 4, n // 8, 2, 1} - {0}, reverse=True):
        for a in range(0, n, k):
            out.append(cut(a, min(n, a + k)))
    for i in range(len(case["spans"])):
        out.append(dict(case, spans=case["spans"][:i] + case["spans"][i + 1:]))
    if any(sp[3] for sp in case["spans"]) or case["lbase"]:
        out.append(dict(case, lbase=0, spans=resolved([[x, y, st, 0] for x, y, st, _ in case["spans"] if st], n)))
    if case["base"]:
        out.append(dict(case, base=0))
    if case["width"] > 2:
        out.append(dict(case, width=case["width"] - 1))
        out.append(dict(case, width=max(2, case["width"] // 2)))
    for i, p in enumerate(case["str"]):
        if p[0] > 126 and p[1] == 1 and not chr(p[0]).isspace():
            out.append(dict(case, str=case["str"][:i] + [[97 + i % 26, 1]] + case["str"][i + 1:]))
    return out[:400]


def minimise(E, chk, case, clause, rounds=12):
    for _ in range(rounds):
        cands = [c for c in reductions(case) if size(c) < size(case)]
        if not cands:
            break
        recs = [execute(E, c) for c in cands]
        verdicts, st = tlc.judge("Trace_Wrap", recs, tag="c02min")
        chk.add_tlc(st, "M3-minimise")
        good = [c for c, v in zip(cands, verdicts) if v.split(":")[0] == clause]
        if not good:
            break
        case = min(good, key=size)
    return case


# ---- the check -----------------------------------------------------------------------------------------------

def m1_cfg(maxlen, design, tabs, invs, emit=False, extra=False):
    return ("CONSTANTS\n  MaxLen = %d\n  MaxWidth = 6\n  Design = \"%s\"\n  TabSizes = {%s}\n  Extra = %s\nSPECIFICATION Spec\n%s%s"
            "CHECK_DEADLOCK FALSE\n" % (maxlen, design, ", ".join(map(str, tabs)), "TRUE" if extra else "FALSE",
                                        "".join("INVARIANT %s\n" % i for i in invs), "CONSTRAINT Emit\n" if emit else ""))


BASIC = ["AddN", "AddW", "AddZ", "AddS", "AddT", "AddL"]


def run_m1(chk):
    """the design against the property + the wrong designs, concurrently"""
    jobs = {
        "real-all": (m1_cfg(chk.pick(4, 5), "real", [2, 4], ["InvM1"]), chk.pick(3, 5)),
        "real-deep": (m1_cfg(chk.pick(5, 6), "real", [4], ["InvWrap"]), chk.pick(10, 10)),
        "real-ws": (m1_cfg(chk.pick(3, 4), "real", [3], ["InvM1"], extra=True), chk.pick(2, 4)),
        "witness-broken": (m1_cfg(3, "real", [4], ["NeverBroken"]), 1),
        "witness-dropped": (m1_cfg(3, "real", [4], ["NeverDropped"]), 1),
    }
    for d, invs in WRONG.items():
        jobs["wrong-" + d] = (m1_cfg(4, d, [4], invs), 1)
    res = {}

    def one(name):
        cfg, workers = jobs[name]
        try:
            res[name] = tlc.model_check("MC_Wrap", cfg_text=cfg, workers=workers, tag="c02m1", timeout=5400,
                                        require_actions=(BASIC + (["AddU", "AddV"] if name == "real-ws" else []))
                                        if name.startswith("real") else ())
        except Exception as ex:          # re-raised in the main thread
            res[name] = ex
    th = [threading.Thread(target=one, args=(n,)) for n in jobs]
    for t in th:
        t.start()
    for t in th:
        t.join()
    for name, v in res.items():
        if isinstance(v, Exception):
            raise v
    for name in ("real-all", "real-deep", "real-ws"):
        r, cov, missing = res[name]
        chk.add_tlc(r, "M1-" + name)
        if r.violated or missing or not r.finished:
            raise tlc.TLCFailure("MC_Wrap %s: the design does not satisfy the property part (violated=%s missing=%s)\n%s"
                                 % (name, r.violated, missing, r.out[-3000:]))
        chk.notes["m1_" + name.replace("-", "_")] = dict(class_strings=r.distinct, action_coverage={k: v[1] for k, v in cov.items()})
    guards = {}
    for name, (r, cov, missing) in res.items():
        if name.startswith("real"):
            continue
        chk.add_tlc(r, "M1-guards")
        want = WRONG.get(name[6:], ("NeverBroken", "NeverDropped"))
        if not r.violated or r.violated[0] not in want:
            raise tlc.TLCFailure("vacuity guard %s: TLC was expected to report %s violated, got %s\n%s"
                                 % (name, "/".join(want), r.violated, r.out[-2000:]))
        guards[name] = r.violated[0] + " violated, as required"
    chk.notes["m1_vacuity_guards"] = guards


def enumerated_cases(E, chk):
    """M2: every class string TLC enumerates, made concrete, with every configuration (short strings) or a
    seeded selection of configurations (longer strings); strings with spaces a second time with other white space
    characters in their place"""
    full_len, mid_cfgs, max_len, per_string = chk.pick((2, 50, 5, 3), (3, 60, 6, 5))
    behs, r = tlc.behaviours("MC_Wrap", cfg_text=m1_cfg(max_len, "real", [4], [], emit=True), tag="c02m2", timeout=3000)
    chk.add_tlc(r, "M2")
    strings = sorted({"".join(b["beh"]) for b in behs}, key=lambda x: (len(x), x))
    expect = sum(6 ** i for i in range(max_len + 1))
    if len(strings) != expect:
        raise tlc.TLCFailure("MC_Wrap emitted %d class strings, expected %d\n%s" % (len(strings), expect, r.out[-1500:]))
    chk.notes["tlc_enumerated_class_strings"] = len(strings)
    chk.notes["all_configurations_up_to_length"] = full_len
    rng = chk.rng
    allcfg = [(w, j, o, nw) for w in range(2, 7) for j in JUSTIFY for (o, nw) in MODES]
    cases = []
    for idx, cs in enumerate(strings):
        n = len(cs)
        cfgs = allcfg if n <= full_len else rng.sample(allcfg, mid_cfgs if n == full_len + 1 else per_string)
        variants = [(concretize(E, cs, idx % 9), cfgs)]
        if "S" in cs:
            variants.append((concretize(E, cs, idx % 7, rng), rng.sample(allcfg, min(len(cfgs), per_string + 1))))
        for s, cfgs in variants:
            for ci, (w, j, o, nw) in enumerate(cfgs):
                lbase = 0
                if (ci + idx) % 2 == 0:          # every character its own span, no base
                    spans, base = [[i, i + 1, 1 + i % NSTY, 0] for i in range(n)], 0
                else:                            # random spans over a base style
                    spans, base = rspans(rng, n, 5, links=ci % 4 == 1, wild=ci % 8 == 5), rng.choice([0, 1, 2, 3, 4])
                tab = rng.choice([4, 8, 2, 3]) if "T" in cs else 8
                base, lbase, spans, how = deliver(rng, s, base, lbase, spans, j, o, nw, tab, fancy=ci % 3 == 2)
                cases.append(mkcase(E, s, base, spans, w, j, o, nw, tab, lbase, how))
    return cases


def tally(cases):
    """how often every value of every dimension of the generator occurs (goes to the evidence file)"""
    from collections import Counter
    T = {k: Counter() for k in ("justify", "overflow", "no_wrap", "tab", "width", "via", "jv", "ov", "nv", "tv", "entry", "style_forms", "pre",
                                "text", "spans")}
    for c in cases:
        how = c.get("how") or {}
        s = "".join(chr(p[0]) for p in c["str"])
        n = len(s)
        for k in ("justify", "overflow", "no_wrap", "tab"):
            T[k][str(c[k])] += 1
        w = c["width"]
        T["width"]["2" if w == 2 else "3-6" if w <= 6 else "7-20" if w <= 20 else "21-80" if w <= 80 else "81-199" if w < 200 else "200"] += 1
        T["via"][how.get("via", "stylize")] += 1
        for k in ("jv", "ov", "nv", "tv"):
            T[k][how.get(k, "arg")] += 1
        T["entry"][how.get("entry", "wrap")] += 1
        reps = set(how.get("reps") or [0])
        T["style_forms"]["+".join(("object", "definition", "theme-name")[r] for r in sorted(reps))] += 1
        T["pre"][str(len(how.get("pre", ())))] += 1
        for name, hit in (("empty", n == 0), ("only-white-space", n > 0 and not s.strip()), ("other-white-space", any(ord(ch) in OTHER_WS for ch in s)),
                          ("wide-white-space", "\u3000" in s), ("splitlines-boundary-ws", any(ch in s for ch in LINE_BOUNDARY_WS)), ("tab", "\t" in s), ("tab+wide", "\t" in s and any(p[1] == 2 for p in c["str"])),
                          ("newline-run", "\n\n" in s), ("leading-ws", s[:1].isspace()), ("trailing-ws", s[-1:].isspace()),
                          ("zero-width-only-word", any(x and all(p == 0 for p in x) for x in
                                                       [[q[1] for q in c["str"][i:j]] for i, j in _word_ranges(s)])),
                          ("word=width", any(sum(q[1] for q in c["str"][i:j]) == w for i, j in _word_ranges(s))),
                          ("word=width+1", any(sum(q[1] for q in c["str"][i:j]) == w + 1 for i, j in _word_ranges(s))),
                          ("fits-without-wrapping", sum(q[1] for q in c["str"]) <= w and "\n" not in s and "\t" not in s)):
            if hit:
                T["text"][name] += 1
        for name, hit in (("none", not c["spans"] and not c["base"] and not c["lbase"]), ("link", any(sp[3] for sp in c["spans"]) or c["lbase"] > 0),
                          ("negative-offset", any(sp[0] < 0 or sp[1] < 0 for sp in c["spans"])), ("beyond-text", any(sp[1] > n for sp in c["spans"])),
                          ("empty-span", any(sp[0] == sp[1] for sp in c["spans"])), ("null-style", any(sp[2] == 0 and sp[3] == 0 for sp in c["spans"])),
                          ("base", c["base"] > 0)):
            if hit:
                T["spans"][name] += 1
    return {k: dict(sorted(v.items())) for k, v in T.items()}


def _word_ranges(s):
    return [m.span() for m in re.finditer(r"\S+", s)]


def run(chk: Check):
    E = env()
    chk.rule = ("a case is one call Text.wrap(console, width, ...) on a styled text, described by the text, its base style and spans "
                "(attribute+colour and hyperlink channel), the width and the EFFECTIVE justify / overflow / no_wrap / tab size; how these reach "
                "the call is varied independently (delivery): text built by Text()+stylize, the spans= argument, append / append_text, "
                "Text.assemble, Text.styled or Text.from_markup; styles as Style objects, definition strings or theme names; each option as "
                "wrap argument, as the Text's own attribute, both (argument wins) or left unset (defaults); tab size given or defaulted; "
                "earlier wrap calls on the same object.  Inputs: (i) every class string over {narrow, wide, zero-width, space, tab, newline} "
                "enumerated by TLC (MC_Wrap), made concrete with distinct code points from per-class pools that start at the edges of the "
                "tree's width table (strings with spaces also with other Unicode white space in their place) - the shortest with all "
                "5 widths x 5 justify x 8 overflow/no_wrap modes, longer ones with a seeded selection; (ii) hand-listed boundary texts "
                "(nothing visible, one word astride the edge, zero-width-only words, white space at the ends, runs of newlines, tabs with "
                "wide characters, NBSP / IDEOGRAPHIC SPACE / zero-width separators) at widths around their word and line sizes; (iii) seeded "
                "random texts of 0..200 characters in the profiles plain / other white space / tabs / edges / word sizes around the width, "
                "base style and up to 14 overlapping / nested / duplicate / empty / negative-offset / beyond-the-text spans, widths 2..200, "
                "tab sizes 1..8 and 16; distinct by (text, styles, options, delivery); non-trivial = the text is styled and either wrapping "
                "produced more lines than the text has source lines or characters were cropped")
    chk.trusted = ["drivers/c02.py:observe (per-character style of every returned line read back with Text.render; style -> "
                   "{attribute ids, colour id, link id})", "drivers/c02.py:mk / deliver (the delivery variants mean the same text, styles and options)",
                   "rich.cells.get_character_cell_size for the widths of input and output characters (subject of C13)",
                   "drivers/c02.py:pools (class membership of a code point decided by the tree's own width function and str.isspace)",
                   "specs/TextOps.tla: Lit / Eff (which spans cover a character, later spans win) - shared with C05"]
    chk.assumptions = ["whitespace is what Python calls white space (space, tab, newline, FS GS RS US, NEL, NBSP, U+1680, U+2000-200A, LS, PS, "
                       "U+202F, U+205F, U+3000); VT FF CR and other control codes the constructor strips do not occur; the ellipsis character "
                       "does not occur in inputs", "tab sizes 1..8 and 16; where tab stops lie when the indentation holds characters that are "
                       "not one cell wide is left open (cells or characters)",
                       "spans= offsets are 0 <= start <= end; stylize offsets are any integers; style names are valid",
                       "the effective option is the wrap argument when given, else the Text's attribute, else default / fold / False",
                       "clauses (a) and (b) are demanded when wrapping happens (no_wrap false, overflow not ignore); clause (c) and "
                       "(d) always", "white space is identified only where the output leaves no doubt (interior runs when justify is not "
                       "full, leading runs for default/left); all other spaces - padding, full-justify gaps, expanded tabs - are "
                       "unconstrained by (c) and only compared with RefWrap (drift)",
                       "markup delivery only for texts without '[', '\\' and ':' and span sets a closing tag cannot confuse"]
    if chk.replay_only:
        c = chk.replay_only["case"]
        if "ovarg" not in c:                 # a replay file written before the delivery dimensions existed
            c = mkcase(E, "".join(chr(p[0]) for p in c["str"]), c["base"], c["spans"], c["width"], c["justify"], c["overflow"],
                       c["no_wrap"], c["tab"])
        cases = [c]
    else:
        if os.environ.get("C02_SKIP_M1") == "1":     # M1 does not depend on the tree under test: mutant trials may skip it
            chk.notes["m1"] = "skipped (C02_SKIP_M1=1)"
        else:
            run_m1(chk)
        chk.mark("M1")
        cases = enumerated_cases(E, chk)
        chk.notes["enumerated_cases"] = len(cases)
        bc = boundary_cases(E, chk.rng, chk.pick(50, 280))
        chk.notes["boundary_cases"] = len(bc)
        cases += bc
        nrand = chk.pick(6000, 40000)
        cases += [random_case(E, chk.rng) for _ in range(nrand)]
        chk.notes["random_cases"] = nrand
        chk.notes["generator_tally"] = tally(cases)
        chk.mark("generate")
    rejected = {}
    drifts = {}
    B = 60000
    for off in range(0, len(cases), B):
        part = cases[off:off + B]
        recs = [execute(E, c) for c in part]
        verdicts, st = tlc.judge("Trace_Wrap", recs, tag="c02m3")
        chk.add_tlc(st, "M3")
        chk.traces += len(recs)
        for c, rec, v in zip(part, recs, verdicts):
            styled = bool(c["base"]) or bool(c["lbase"]) or bool(resolved(c["spans"], len(c["str"])))
            nsrc = sum(1 for p in c["str"] if p[0] == 10) + 1
            nout = sum(len(l["chars"]) for l in rec["lines"])
            chk.case(c, styled and (len(rec["lines"]) > nsrc or nout < len(c["str"]) - (nsrc - 1)))
            if v == "ok":
                continue
            if v.startswith("drift"):
                key = "%s (%s)" % (v, shape(E, c))
                if key not in drifts or size(c) < size(drifts[key]):
                    drifts[key] = c
                continue
            sig = "%s %s" % (v, shape(E, c))
            if sig not in rejected or size(c) < size(rejected[sig][0]):
                rejected[sig] = (c, rec, v)
        if off == 0 and recs:
            chk.sample(dict(case=part[0], lines=recs[0]["lines"]))
            chk.sample(dict(case=part[-1], lines=recs[-1]["lines"]))
    chk.mark("M3")
    for key, c in sorted(drifts.items()):
        chk.drift_note("Text.wrap differs from RefWrap while WrapOK holds: %s e.g. text=%r width=%d tab=%d spans=%s how=%s"
                       % (key, "".join(chr(p[0]) for p in c["str"])[:40], c["width"], c["tab"], c["spans"][:6], c.get("how")))
    for sig, (c, rec, v) in sorted(rejected.items()):
        if not chk.replay_only and len(rejected) <= 6 and (len(c["str"]) > 8 or not plain_delivery(c)):
            c = minimise(E, chk, c, v.split(":")[0])
            rec = execute(E, c)
        text = "".join(chr(p[0]) for p in c["str"])
        chk.reject(sig, "%s | text=%r base=%d/%d spans=%s width=%d tab=%d delivery=%s -> lines=%s" % (
            v, text, c["base"], c["lbase"], c["spans"], c["width"], c["tab"], c.get("how") or "plain",
            [("".join(chr(x[0]) for x in l["chars"]), [x[2:] for x in l["chars"]]) for l in rec["lines"]]),
            dict(c, observed=rec["lines"], exc=rec["exc"]))
    if chk.replay_only:
        print("replay verdict:", verdicts)
