"""C07 - tables are rectangles that show every cell in its own column.

TLC is the judge everywhere:
  M1  MC_Ratio: the transcription of ratio_distribute / ratio_reduce / Table._collapse_widths keeps the promised
      properties on the whole grid (and the relations reject the classic wrong designs); the REAL functions of the
      tree under test are called on every instance of the same grid (one implementation test per model state) and
      TLC compares: a difference is DRIFT, a broken promise on the real result a VIOLATION.
      MC_Table: an ideal render of every small recipe is accepted by Table!TableWhy and its classic corruptions are
      rejected (non-vacuity / binding of the relation).
  M2  MC_Table (-simulate) emits random builder histories Configure / AddColumn* / AddRow* over the full option sets;
      the driver completes them with self-identifying cell contents and builds real tables from them.
  M3  Trace_Table: every (recipe, W, projected render) record of TLC-generated and seeded random tables, and real
      ratio calls at table-like magnitudes.
  The column-width solver as a whole (specs/TableSolver.tla: transcription of Table._calculate_column_widths, the two open
  findings as smallest counter-examples of the design, the repaired design, conformance of the transcription with the real
  method) is drivers/c07_solver.py, run in a thread next to the table part.

Python only generates, builds, renders and projects lexically.  Every cell is written in an alphabet of its own
(cell k = rowid * 6 + column: U+0100+3k.., U+4E00+k, U+1F600+k, U+0300+k), so the row and column of every output
character is read off the character; blanks and box characters are attributed by the colour tag the table was asked to
put on its border / on each column (style tags never influence layout).  The width vector of the implementation is
never consulted."""
import io
import itertools
import json
import os
import re
import threading

from engine import tlc
from engine.harness import Check

NCOLMAX = 6
TAG_BORDER, TAG_COL0, TAG_TITLE, TAG_CAPTION = 200, 201, 210, 211
BOXES = ["ASCII", "ASCII2", "ASCII_DOUBLE_HEAD", "SQUARE", "SQUARE_DOUBLE_HEAD", "MINIMAL", "MINIMAL_HEAVY_HEAD",
         "MINIMAL_DOUBLE_HEAD", "SIMPLE", "SIMPLE_HEAD", "SIMPLE_HEAVY", "HORIZONTALS", "ROUNDED", "HEAVY",
         "HEAVY_EDGE", "HEAVY_HEAD", "DOUBLE", "DOUBLE_EDGE"]
TITLE_ALPHA = "".join(chr(c) for c in range(0x3b1, 0x3c9) if c != 0x3c2)
CAPTION_ALPHA = "".join(chr(c) for c in range(0x430, 0x450))


# ---- alphabets ------------------------------------------------------------------------------------
def cell_key(rid, c):
    return rid * NCOLMAX + c


def alpha(k):
    return dict(n=[chr(0x100 + 3 * k + j) for j in range(3)], w=[chr(0x4e00 + k), chr(0x1f600 + k)], z=[chr(0x300 + k)])


_DECODE = {}
for _k in range(10 * NCOLMAX):
    for _cls, _chars in alpha(_k).items():
        for _ch in _chars:
            _DECODE[_ch] = _k


def check_alphabets():
    """the alphabets must have the widths the generator assumes IN THE TREE UNDER TEST (else the minimum is wrong)"""
    from rich.cells import get_character_cell_size as g
    bad = []
    for k in range(10 * NCOLMAX):
        a = alpha(k)
        bad += [ch for ch in a["n"] if g(ch) != 1] + [ch for ch in a["w"] if g(ch) != 2] + [ch for ch in a["z"] if g(ch) != 0]
    bad += [ch for ch in TITLE_ALPHA + CAPTION_ALPHA if g(ch) != 1]
    return bad


# ---- random recipes ---------------------------------------------------------------------------------
def rand_words(rng, k, maxwords=5, long_p=0.12, nl_p=0.15, wide_p=0.12, zw_p=0.05, empty_p=0.06):
    if rng.random() < empty_p:
        return ""
    a = alpha(k)
    nwords = rng.randint(1, maxwords)
    if rng.random() < long_p:
        nwords = rng.randint(5, 12)
    out = []
    for wi in range(nwords):
        n = rng.randint(1, 8) if rng.random() < 0.9 else rng.randint(9, 30)
        word = []
        for _ in range(n):
            p = rng.random()
            if p < wide_p:
                word.append(rng.choice(a["w"]))
            elif p < wide_p + zw_p and word:
                word.append(a["z"][0])
            else:
                word.append(rng.choice(a["n"]))
        out.append("".join(word))
        if wi < nwords - 1:
            out.append("\n" if rng.random() < nl_p else " " if rng.random() < 0.9 else "  ")
    return "".join(out)


def rand_cell(rng, k, nested_p=0.04):
    s = rand_words(rng, k)
    r = rng.random()
    if r < nested_p and s.strip():
        if rng.random() < 0.6:
            return dict(k="panel", s=s, px=rng.choice([0, 1, 1, 2]))
        words = s.split()
        half = max(1, len(words) // 2)
        return dict(k="table", a=" ".join(words[:half]), b=" ".join(words[half:]), box=rng.choice(["SQUARE", "ASCII", None]))
    return dict(k="str" if rng.random() < 0.6 else "text", s=s)


def rand_padding(rng):
    r = rng.random()
    if r < 0.3:
        return [0, 1]
    if r < 0.38:
        return 0                 # Table.grid() style: cells are rendered without a Padding wrapper
    if r < 0.45:
        return rng.randint(0, 3)
    if r < 0.7:
        return [rng.randint(0, 2), rng.randint(0, 3)]
    return [rng.randint(0, 2) if rng.random() < 0.4 else 0, rng.randint(0, 3), rng.randint(0, 2) if rng.random() < 0.4 else 0, rng.randint(0, 3)]


def unpack_padding(p):
    if isinstance(p, int):
        return (p, p, p, p)
    if len(p) == 1:
        return (p[0],) * 4
    if len(p) == 2:
        return (p[0], p[1], p[0], p[1])
    return tuple(p)


def gen_table(rng):
    nc = rng.choice([1, 2, 2, 3, 3, 3, 4, 4, 5, 6])
    nr = rng.choice([0, 1, 1, 2, 2, 3, 3, 4, 5, 6, 7, 8])
    r = rng.random()
    box = None if r < 0.14 else "HEAVY_HEAD" if r < 0.3 else rng.choice(BOXES)
    t = dict(nc=nc, nr=nr, box=box, edge=rng.random() < 0.78, sh=rng.random() < 0.75, sf=rng.random() < 0.35,
             sl=rng.random() < 0.3, lead=rng.choice([0] * 10 + [1, 1, 1, 2, 2, 3]), pad=rand_padding(rng), pe=rng.random() < 0.7,
             cp=rng.random() < 0.3, ex=rng.random() < 0.4, w=0, minw=0 if rng.random() < 0.85 else rng.randint(1, 70),
             title=None, caption=None, style=rng.choice(["", "", "italic"]), ctor=rng.random() < 0.2,
             row_styles=rng.choice([None, None, ["dim"], ["none", "on blue"], ["bold", "italic", "underline"]]))
    if rng.random() < 0.25:
        t["title"] = " ".join("".join(rng.choice(TITLE_ALPHA) for _ in range(rng.randint(1, 9))) for _ in range(rng.randint(1, 7)))
    if rng.random() < 0.2:
        t["caption"] = " ".join("".join(rng.choice(CAPTION_ALPHA) for _ in range(rng.randint(1, 9))) for _ in range(rng.randint(1, 7)))
    any_ratio = rng.random() < 0.3
    t["cols"] = []
    for c in range(nc):
        r = rng.random()
        col = dict(jus=rng.choice(["left", "left", "center", "right", "full"]),
                   ov="fold" if r < 0.5 else "crop" if r < 0.68 else "ellipsis" if r < 0.9 else "ignore",
                   ratio=rng.randint(1, 3) if any_ratio and rng.random() < 0.7 else -1,
                   w=rng.randint(1, 10) if rng.random() < 0.1 else 0,
                   minw=rng.randint(1, 10) if rng.random() < 0.12 else 0,
                   maxw=rng.randint(1, 12) if rng.random() < 0.12 else 0,
                   nw=rng.random() < 0.1,
                   hdr=rand_cell(rng, cell_key(0, c), nested_p=0.02), ftr=rand_cell(rng, cell_key(nr + 1, c), nested_p=0.02))
        t["cols"].append(col)
    t["rows"] = []
    for i in range(nr):
        n_given = nc if rng.random() < 0.9 else rng.randint(0, nc)
        cells = [rand_cell(rng, cell_key(i + 1, c)) for c in range(n_given)]
        if rng.random() < 0.08 and cells:
            cells[rng.randrange(len(cells))] = None          # add_row(..., None, ...) = blank cell
        t["rows"].append(dict(cells=cells, end=rng.random() < 0.15, style=rng.choice([None, None, None, "on red", "reverse"])))
    if rng.random() < 0.12:
        t["w"] = minw_py(t) + rng.choice([0, 0, 1, 2, 3, 5, 8, 13, 30])
    return t


# ---- recipe -> what TLC reads -----------------------------------------------------------------------
def _wide(s):
    from rich.cells import get_character_cell_size as g
    return any(g(ch) == 2 for ch in s)


def _widest_line(s):
    from rich.cells import cell_len
    return max([cell_len(x) for x in s.split("\n")] or [0])


def inner_recipe(cell):
    """the nested table of a k="table" cell as a recipe of its own (2 columns, 1 row, no header, padding (0,1))"""
    box = cell.get("box")
    return dict(nc=2, nr=1, box=box, edge=True, sh=False, sf=False, sl=False, lead=0, pad=[0, 1], pe=True, cp=False, ex=False,
                w=0, minw=0, title=None, caption=None,
                cols=[dict(ov="fold", ratio=-1, w=0, minw=0, maxw=0, nw=False, hdr=dict(k="str", s=""), ftr=dict(k="str", s="")) for _ in range(2)],
                rows=[dict(cells=[dict(k="text", s=cell["a"]), dict(k="text", s=cell["b"])], end=False, style=None)])


def cell_view(cell):
    if cell is None:
        return dict(k="txt", wide=False, wl=0)
    if cell["k"] in ("str", "text"):
        return dict(k="txt", wide=_wide(cell["s"]), wl=_widest_line(cell["s"]))
    if cell["k"] == "panel":
        return dict(k="panel", pad=2 * cell["px"], c=dict(k="txt", wide=_wide(cell["s"]), wl=_widest_line(cell["s"])))
    return dict(k="table", t=tlc_view(inner_recipe(cell)))


def shown_grid(t):
    """[(rid, [cell recipe or None per column])] for the rows the table is asked to show"""
    nc = t["nc"]
    g = []
    if t["sh"]:
        g.append((0, [c["hdr"] for c in t["cols"]]))
    for i, row in enumerate(t["rows"]):
        cells = list(row["cells"][:nc]) + [None] * (nc - len(row["cells"]))
        g.append((i + 1, cells))
    if t["sf"]:
        g.append((t["nr"] + 1, [c["ftr"] for c in t["cols"]]))
    return g


def tlc_view(t):
    _, pr, _, pl = unpack_padding(t["pad"])
    return dict(nc=t["nc"], nr=t["nr"], box=t["box"] is not None, edge=t["edge"], sh=t["sh"], sf=t["sf"], sl=t["sl"], lead=t["lead"],
                pl=pl, pr=pr, pe=t["pe"], cp=t["cp"], ex=t["ex"], w=t["w"], minw=t["minw"],
                cols=[dict(ov=c["ov"], ratio=c["ratio"], w=c["w"], minw=c["minw"], maxw=c["maxw"], nw=c["nw"]) for c in t["cols"]],
                grid=[dict(rid=rid, cells=[cell_view(x) for x in cells]) for rid, cells in shown_grid(t)])


def _cellmin(v):
    if v["k"] == "txt":
        return 2 if v["wide"] else 1
    if v["k"] == "panel":
        return 2 + v["pad"] + _cellmin(v["c"])
    return _tablemin(v["t"])


def _tablemin(v):
    """mirror of Table!TableMin - used ONLY to choose the widths to render at (TLC reports its own m=)"""
    nc = v["nc"]
    total = (2 if v["box"] and v["edge"] else 0) + (nc - 1 if v["box"] and nc > 0 else 0)
    for j in range(nc):
        c = v["cols"][j]
        need = 1
        for g in v["grid"]:
            x = g["cells"][j]
            m = _cellmin(x)
            if c["nw"] and x["k"] == "txt":
                m = max(m, x["wl"])
            need = max(need, m)
        need = max(need, c["w"], c["minw"])
        pl = 0 if (not v["pe"] and j == 0) else max(0, v["pl"] - v["pr"]) if (v["cp"] and j > 0) else v["pl"]
        pr = 0 if (not v["pe"] and j == nc - 1) else v["pr"]
        total += pl + pr + need
    return total


def minw_py(t):
    return _tablemin(tlc_view(t))


# ---- recipe -> real objects ---------------------------------------------------------------------------
def build_cell(cell):
    from rich.text import Text
    if cell is None:
        return None
    if cell["k"] == "str":
        return cell["s"]
    if cell["k"] == "text":
        return Text(cell["s"])
    if cell["k"] == "panel":
        from rich.panel import Panel
        return Panel(Text(cell["s"]), padding=(0, cell["px"]))
    return build(inner_recipe(cell), tags=False)


def build(t, tags=True):
    from rich import box as B
    from rich.table import Column, Table
    pad = t["pad"]
    pad = pad if isinstance(pad, int) else tuple(pad)
    kw = dict(title=t.get("title"), caption=t.get("caption"), width=t["w"] or None, min_width=t["minw"] or None,
              box=getattr(B, t["box"]) if t["box"] else None, padding=pad, collapse_padding=t["cp"], pad_edge=t["pe"],
              expand=t["ex"], show_header=t["sh"], show_footer=t["sf"], show_edge=t["edge"], show_lines=t["sl"],
              leading=t["lead"], style=t.get("style") or "none", row_styles=t.get("row_styles"))
    if tags:
        kw.update(border_style="color(%d)" % TAG_BORDER, title_style="color(%d)" % TAG_TITLE, caption_style="color(%d)" % TAG_CAPTION)
    colkw = []
    for j, c in enumerate(t["cols"]):
        tag = "color(%d)" % (TAG_COL0 + j) if tags else None
        colkw.append(dict(header=build_cell(c["hdr"]) or "", footer=build_cell(c["ftr"]) or "", style=tag, header_style=tag,
                          footer_style=tag, justify=c.get("jus", "left"), overflow=c["ov"], width=c["w"] or None,
                          min_width=c["minw"] or None, max_width=c["maxw"] or None, ratio=None if c["ratio"] < 0 else c["ratio"],
                          no_wrap=c["nw"]))
    if t.get("ctor"):
        table = Table(*[Column(**{k: (v if v is not None else "") if k.endswith("style") else v for k, v in ck.items()}) for ck in colkw], **kw)
    else:
        table = Table(**kw)
        for ck in colkw:
            table.add_column(**ck)
    for row in t["rows"]:
        table.add_row(*[build_cell(x) for x in row["cells"][:t["nc"]]], style=row.get("style"), end_section=row.get("end", False))
    return table


# ---- render + lexical projection ----------------------------------------------------------------------
def _box_chars():
    from rich import box as B
    s = set()
    for n in BOXES:
        s |= set(str(getattr(B, n)))
    s -= {"\n", " "}
    return s


def project(t, W):
    """build the real table, render it at W, return the record TLC judges"""
    from rich.cells import cell_len, get_character_cell_size
    from rich.console import Console
    rec = dict(kind="table", t=tlc_view(t), W=W, exc="none", lines=[], cells=[])
    src = {}
    for rid, cells in shown_grid(t):
        for c, cell in enumerate(cells):
            if t["cols"][c]["ov"] != "fold" or t["cols"][c]["nw"]:
                continue
            if cell is None:
                s, ordered = "", True
            elif cell["k"] == "table":
                s, ordered = cell["a"] + cell["b"], False
            else:
                s, ordered = cell["s"], True
            src[(rid, c)] = dict(r=rid, c=c + 1, ord=ordered, src=[ord(ch) for ch in s if not ch.isspace()], out=[])
    try:
        table = build(t)
        console = Console(width=W, file=io.StringIO(), color_system=None, legacy_windows=False)
        segments = list(console.render(table, console.options))
    except Exception as e:  # a crash inside Rich is data for TLC
        rec["exc"] = type(e).__name__
        rec["cells"] = list(src.values())
        return rec
    boxchars = _box_chars()
    lines, cur = [], []
    for seg in segments:
        if seg.is_control:
            continue
        parts = seg.text.split("\n")
        for i, part in enumerate(parts):
            if i > 0:
                lines.append(cur)
                cur = []
            if part:
                cur.append((part, seg.style))
    if cur:
        lines.append(cur)
    drift = None
    for pieces in lines:
        runs, x, flags = [], 0, set()

        def emit(kind, col, row, n):
            if runs and runs[-1][0] == kind and runs[-1][1] == col and runs[-1][2] == row:
                runs[-1][4] += n
            else:
                runs.append([kind, col, row, x, n])
        for text, style in pieces:
            tag = None
            if style is not None and style.color is not None and style.color.number is not None:
                tag = style.color.number
            if text.isspace() and text.isascii():
                n = len(text)
                if tag == TAG_BORDER:
                    emit(0, 0, 0, n)
                elif tag is not None and TAG_COL0 <= tag < TAG_COL0 + NCOLMAX:
                    emit(1, tag - TAG_COL0 + 1, 0, n)
                elif tag in (TAG_TITLE, TAG_CAPTION):
                    flags.add("T" if tag == TAG_TITLE else "C")
                    emit(4, 0, 0, n)
                else:
                    emit(3, 0, 0, n)
                x += n
                continue
            for ch in text:
                n = get_character_cell_size(ch)
                k = _DECODE.get(ch)
                if k is not None:
                    rid, c = divmod(k, NCOLMAX)
                    emit(2, c + 1, rid, n)
                    cellrec = src.get((rid, c))
                    if cellrec is not None:
                        cellrec["out"].append(ord(ch))
                elif ch in TITLE_ALPHA or tag == TAG_TITLE:
                    flags.add("T")
                    emit(4, 0, 0, n)
                elif ch in CAPTION_ALPHA or tag == TAG_CAPTION:
                    flags.add("C")
                    emit(4, 0, 0, n)
                elif tag == TAG_BORDER:
                    emit(0, 0, 0, n)
                elif tag is not None and TAG_COL0 <= tag < TAG_COL0 + NCOLMAX:
                    emit(1, tag - TAG_COL0 + 1, 0, n)
                elif ch == " ":
                    emit(3, 0, 0, n)
                elif ch in boxchars:
                    emit(0, 0, 0, n)
                else:
                    emit(4, 0, 0, n)
                x += n
        w = cell_len("".join(p[0] for p in pieces))
        if w != x:
            drift = "cell_len(line) %d differs from the sum of its characters %d" % (w, x)
        kinds = {r[0] for r in runs}
        if flags and not (kinds & {0, 1, 2, 3}):
            kind = "title" if flags == {"T"} else "caption" if flags == {"C"} else "body"
        else:
            kind = "body"
        rec["lines"].append(dict(k=kind, w=w, runs=runs if kind == "body" else []))
    rec["cells"] = list(src.values())
    if drift:
        rec["_drift"] = drift
    return rec


def render_text(t, W):
    from rich.console import Console
    console = Console(width=W, file=io.StringIO(), color_system=None, legacy_windows=False)
    try:
        console.print(build(t, tags=False))
    except Exception as e:
        return "raised %s" % type(e).__name__
    return console.file.getvalue()


# ---- widths to render at --------------------------------------------------------------------------------
def widths_for(t, rng, n):
    m = max(1, t["w"] or minw_py(t))
    cand = [m, m + 1, m + 2, m + 3, m + 5, m + 8, m + rng.randint(9, 40), 80, 200, rng.randint(m, 200) if m <= 200 else m]
    if t["w"]:
        cand.append(max(1, minw_py(t)))      # a W below Table.width: outside
    out = []
    for w in cand:
        if 1 <= w <= 200 and w not in out:
            out.append(w)
    if len(out) > n:
        out = out[:4] + sorted(rng.sample(out[4:], n - 4))
    return out


def _work(arg):
    t, ws = arg
    return [project(t, W) for W in ws]


def produce(jobs, nproc=None):
    nproc = nproc or min(8, os.cpu_count() or 2)
    if len(jobs) < 16 or nproc <= 1:
        return [_work(j) for j in jobs]
    import multiprocessing as mp
    with mp.get_context("fork").Pool(nproc) as pool:
        return pool.map(_work, jobs, chunksize=max(1, len(jobs) // (nproc * 8)))


# ---- verdicts -------------------------------------------------------------------------------------------
_V = re.compile(r"^(\S+) (-?\d+) m=(-?\d+)(?: d=(\w))?$")


def parse_verdict(v):
    m = _V.match(v)
    if not m:
        return v, 0, None, None
    return m.group(1), int(m.group(2)), int(m.group(3)), m.group(4)


DEFAULTS = dict(box="HEAVY_HEAD", edge=True, sh=True, sf=False, sl=False, lead=0, pad=[0, 1], pe=True, cp=False, ex=False, w=0, minw=0,
                title=None, caption=None, style="", ctor=False, row_styles=None)
COL_DEFAULTS = dict(jus="left", ov="ellipsis", ratio=-1, w=0, minw=0, maxw=0, nw=False)


def features(t):
    """names of the options that differ from the constructor defaults (+ content features): the shape of a recipe"""
    f = set()
    for k, d in DEFAULTS.items():
        if t.get(k, d) != d:
            f.add(k if k != "box" else ("box=None" if t["box"] is None else "box"))
    for c in t["cols"]:
        for k, d in COL_DEFAULTS.items():
            if c.get(k, d) != d:
                if k == "ov" and c[k] == "fold":
                    continue                      # fold is the overflow the statement makes demands about: the baseline here
                f.add("col." + k + ("=" + c[k] if k == "ov" else ""))
    cells = [x for _, row in shown_grid(t) for x in row if x is not None]
    if any(x["k"] == "panel" for x in cells):
        f.add("nested-panel")
    if any(x["k"] == "table" for x in cells):
        f.add("nested-table")
    if any(_wide(x.get("s", "") + x.get("a", "") + x.get("b", "")) for x in cells):
        f.add("wide-chars")
    if any("\n" in x.get("s", "") for x in cells):
        f.add("multi-line")
    if any(r.get("end") for r in t["rows"]):
        f.add("end_section")
    if any(len(r["cells"]) < t["nc"] for r in t["rows"]):
        f.add("short-row")
    return f


def size(t):
    return (t["nc"] * (t["nr"] + 2) * 10 + sum(len(x.get("s", "") + x.get("a", "") + x.get("b", "")) for _, row in shown_grid(t) for x in row if x)
            + 5 * len(features(t)))


def _clone(t):
    return json.loads(json.dumps(t))


def _cell_slots(n):
    """every place that holds a cell recipe: (holder, key)"""
    for c in n["cols"]:
        yield c, "hdr"
        yield c, "ftr"
    for r in n["rows"]:
        for i in range(len(r["cells"])):
            yield r["cells"], i


def reduction_ops(t, phase):
    """single-step simplifications of a recipe, as (label, function mutating a clone).  Operations of one phase
    commute (structure drops are applied in descending index order), so a round can also try them all at once."""
    ops = []
    if phase == "options":
        for k, d in DEFAULTS.items():
            if t.get(k, d) != d:
                ops.append(("%s->default" % k, lambda n, k=k, d=d: n.__setitem__(k, d)))
        if t["box"] not in (None, "HEAVY_HEAD", "ASCII"):
            ops.append(("box->ASCII", lambda n: n.__setitem__("box", "ASCII")))
        if isinstance(t["pad"], list) and len(t["pad"]) == 4:
            ops.append(("pad->horizontal", lambda n: n.__setitem__("pad", [0, n["pad"][1], 0, n["pad"][3]]) if isinstance(n["pad"], list) and len(n["pad"]) == 4 else None))
        if isinstance(t["pad"], int) and t["pad"] > 0:
            ops.append(("pad->(0,n)", lambda n: n.__setitem__("pad", [0, n["pad"]]) if isinstance(n["pad"], int) else None))
        if t["lead"] > 1:
            ops.append(("lead-1", lambda n: n.__setitem__("lead", max(1, n["lead"] - 1))))
        for j in range(t["nc"]):
            for k, d in COL_DEFAULTS.items():
                if k != "ov" and t["cols"][j].get(k, d) != d:
                    ops.append(("col%d.%s->default" % (j, k), lambda n, j=j, k=k, d=d: n["cols"][j].__setitem__(k, d)))
            if t["cols"][j]["ov"] != "fold":
                ops.append(("col%d.ov->fold" % j, lambda n, j=j: n["cols"][j].__setitem__("ov", "fold")))
        for i, r in enumerate(t["rows"]):
            if r.get("end") or r.get("style"):
                ops.append(("row%d plain" % i, lambda n, i=i: n["rows"][i].update(end=False, style=None)))
    elif phase == "structure":
        for i in reversed(range(t["nr"])):
            def drop_row(n, i=i):
                del n["rows"][i]
                n["nr"] -= 1
            ops.append(("drop row %d" % i, drop_row))
        if t["nc"] > 1:
            for j in reversed(range(t["nc"])):
                def drop_col(n, j=j):
                    if n["nc"] <= 1:
                        return
                    del n["cols"][j]
                    for r in n["rows"]:
                        if len(r["cells"]) > j:
                            del r["cells"][j]
                    n["nc"] -= 1
                ops.append(("drop col %d" % j, drop_col))
    else:
        for idx, (holder, key) in enumerate(_cell_slots(t)):
            x = holder[key]
            if x is None:
                continue
            if x["k"] in ("panel", "table"):
                def flat(n, idx=idx):
                    h, k = list(_cell_slots(n))[idx]
                    y = h[k]
                    h[k] = dict(k="text", s=y.get("s", (y.get("a", "") + " " + y.get("b", "")).strip()))
                ops.append(("cell%d flat" % idx, flat))
            elif x["k"] == "str":
                pass
            s = x.get("s")
            if s:
                if len(s) > 1:
                    def shorten(n, idx=idx):
                        h, k = list(_cell_slots(n))[idx]
                        h[k]["s"] = h[k]["s"][:max(1, len(h[k]["s"]) // 2)]
                    ops.append(("cell%d half" % idx, shorten))

                    def last_half(n, idx=idx):
                        h, k = list(_cell_slots(n))[idx]
                        h[k]["s"] = h[k]["s"][len(h[k]["s"]) // 2:]
                    ops.append(("cell%d tail" % idx, last_half))
                else:
                    def empty(n, idx=idx):
                        h, k = list(_cell_slots(n))[idx]
                        h[k]["s"] = ""
                    ops.append(("cell%d empty" % idx, empty))
    return ops


def apply_ops(t, ops):
    n = _clone(t)
    for _, fn in ops:
        try:
            fn(n)
        except Exception:
            return None
    rekey(n)
    if t["w"]:
        n["w"] = 0
        n["w"] = max(1, minw_py(n) + t["w"] - minw_py(dict(t, w=0)))       # Table.width keeps its distance from the minimum
    return n


def width_candidates(t, W):
    m = max(1, t["w"] or minw_py(t))
    return [w for w in dict.fromkeys((m, m + 1, (W + m) // 2, W - 1)) if m <= w < W]


def rekey(t):
    """after dropping rows / columns rewrite every cell in the alphabet of its new position"""
    def move(cell, k):
        if cell is None:
            return
        for f in ("s", "a", "b"):
            if f in cell:
                cell[f] = "".join(_rechar(ch, k) for ch in cell[f])
    for c, col in enumerate(t["cols"]):
        move(col["hdr"], cell_key(0, c))
        move(col["ftr"], cell_key(t["nr"] + 1, c))
    for i, r in enumerate(t["rows"]):
        for c, cell in enumerate(r["cells"]):
            move(cell, cell_key(i + 1, c))


def _rechar(ch, k):
    old = _DECODE.get(ch)
    if old is None:
        return ch
    a_old, a_new = alpha(old), alpha(k)
    for cls in ("n", "w", "z"):
        if ch in a_old[cls]:
            return a_new[cls][a_old[cls].index(ch)]
    return ch


def judge_tables(chk, recs, label="M3"):
    payload = [{k: v for k, v in r.items() if not k.startswith("_")} for r in recs]
    verdicts, st = tlc.judge("Trace_Table", payload, tag="c07", chunk_min=60)
    chk.add_tlc(st, label)
    return verdicts


def minimise(chk, t, W, clause, max_rounds=16):
    """delta debugging in phases (options, rows/columns, cell contents, width); every round is ONE TLC batch holding each
    single step, all steps together and the first half of them; the clause stays fixed"""
    def same(t0, W0, cands):
        recs = [project(c, w) for c, w in cands]
        vs = judge_tables(chk, recs, "M3-minimise")
        return [parse_verdict(v)[0] == clause for v in vs]

    def keep_slack(old, new, w):
        """candidate width: same distance from the structural minimum"""
        return max(1, w - max(1, old["w"] or minw_py(old)) + max(1, new["w"] or minw_py(new)))
    cur, curW, rounds = t, W, 0
    for phase in ("options", "structure", "options", "cells", "structure", "cells"):
        while rounds < max_rounds:
            ops = reduction_ops(cur, phase)
            if not ops:
                break
            rounds += 1
            groups = [ops, ops[:len(ops) // 2], ops[len(ops) // 2:]] + [[o] for o in ops]
            cands = []
            for g in groups:
                n = apply_ops(cur, g) if g else None
                if n is None:
                    cands.append(None)
                    continue
                cands.append((n, curW if phase == "options" else keep_slack(cur, n, curW)))
            live = [c for c in cands if c is not None]
            ok = same(cur, curW, live)
            res = dict(zip([id(c) for c in live], ok))
            good = [c for c in cands if c is not None and res[id(c)]]
            if not good:
                break
            if cands[0] is not None and res[id(cands[0])]:
                cur, curW = cands[0]
                break                              # everything of this phase applied at once
            best = min(good, key=lambda cw: (size(cw[0]), cw[1]))
            cur, curW = best
    ws = width_candidates(cur, curW)
    if ws and rounds < max_rounds + 2:
        ok = same(cur, curW, [(cur, w) for w in ws])
        for w, o in zip(ws, ok):
            if o:
                curW = w
                break
    return cur, curW


def table_signature(clause, t, W):
    m = max(1, t["w"] or minw_py(t))
    slack = W - m
    return "%s opts=%s slack=%s" % (clause, ",".join(sorted(features(t))) or "-", "0" if slack == 0 else "1-9" if slack < 10 else "10+")


# ---- M1 / M2 for the ratio arithmetic -------------------------------------------------------------------
def _ratio_call(fn, total, rs, bs, off):
    from rich._ratio import ratio_distribute, ratio_reduce
    from rich.table import Table
    if fn == "dist":
        return ratio_distribute(total, list(rs), list(bs))
    if fn == "distn":
        return ratio_distribute(total, list(rs))
    if fn == "red":
        return ratio_reduce(total, list(rs), list(bs), list(bs))
    if fn == "redv":
        return ratio_reduce(total, list(rs), list(bs), [b + off for b in bs])
    return Table._collapse_widths(list(bs), [r == 1 for r in rs], total)


def _ratio_grid(arg):
    """packed real results of one (fn, total, n) block, in the mixed-radix order MC_Ratio!IndexFrom expects"""
    fn, total, n, MR, MB, off = arg
    if fn == "distn":
        codes = [(r, 0) for r in range(MR + 1)]
    elif fn == "col":
        codes = [(r, b) for r in range(2) for b in range(MB + 1)]
    else:
        codes = [(r, b) for r in range(MR + 1) for b in range(MB + 1)]
    out = []
    for sl in itertools.product(codes, repeat=n):
        rs = [s[0] for s in sl]
        bs = [s[1] for s in sl]
        chk = (total + sum((i + 1) * (7 * r + b + 1) for i, (r, b) in enumerate(sl))) % 61
        try:
            o = _ratio_call(fn, total, rs, bs, off)
            if not isinstance(o, list) or len(o) != n or any((not isinstance(x, int)) or x < -31 or x > 30 for x in o):
                digits = [63] * n
            else:
                digits = [x + 32 for x in o]
        except Exception:
            digits = [0] * n
        e = chk
        for d in reversed(digits):
            e = e * 64 + d
        out.append(e)
    return out


def _witness(out, inv):
    """the state TLC printed for the violated invariant `inv`"""
    i = out.find("Invariant %s is violated" % inv)
    seg = out[i:i + 4000] if i >= 0 else ""
    seg = seg[seg.rfind("State "):] if "State " in seg else seg
    w = dict(fn=None, total=None, slots=[], v="")
    m = re.search(r'fn = "(\w+)"', seg)
    w["fn"] = m.group(1) if m else None
    m = re.search(r"total = (-?\d+)", seg)
    w["total"] = int(m.group(1)) if m else None
    m = re.search(r"slots = (<<.*?>>)\s*(/\\|$)", seg, re.S)
    if m:
        w["slots"] = [(int(a), int(b)) for a, b in re.findall(r"\[r \|-> (-?\d+), b \|-> (-?\d+)\]", m.group(1))]
        if not w["slots"]:
            w["slots"] = [(int(b), int(a)) for a, b in re.findall(r"\[b \|-> (-?\d+), r \|-> (-?\d+)\]", m.group(1))]
    m = re.search(r"v = (\[.*?\])", seg, re.S)
    w["v"] = re.sub(r"\s+", " ", m.group(1)) if m else ""
    return w


def ratio_record(fn, total, rs, bs, off=3):
    vals = [b + (off if fn == "redv" else 0) for b in bs]
    rec = dict(kind="ratio", fn=fn, total=total, rs=list(rs), bs=list(bs), vals=vals, wrap=[r == 1 for r in rs], out=[], raised=False)
    try:
        o = _ratio_call(fn, total, rs, bs, off)
        rec["out"] = [int(x) for x in o]
    except Exception as e:
        rec["raised"] = True
        rec["exc"] = type(e).__name__
    return rec


RATIO_CFG = """CONSTANTS
  MaxSlots = %d
  MaxRatio = %d
  MaxBound = %d
  TotalLo = %d
  TotalHi = %d
  ValueOffset = 3
  Fns = {%s}
SPECIFICATION Spec
INVARIANT Aligned
%s
CHECK_DEADLOCK FALSE
"""
_INV_ALL = "INVARIANT RealOK\nINVARIANT RealAgrees\nINVARIANT DesignOK"
_INV_REAL = "INVARIANT RealOK"


def background_m1(chk, result):
    """M1 (ratio grid vs the real functions, table relation) runs in a thread next to the table part"""
    try:
        _ratio_m1(chk, result)
        table_m1(chk, result)
    except BaseException as e:  # re-raised by the main thread
        result["error"] = e


def _ratio_m1(chk, result):
    import multiprocessing as mp
    # (label, fns, MaxSlots, MaxRatio, MaxBound, totals split into chunks of `step`, workers)
    if chk.thorough:
        plans = [("all<=3", ["dist", "distn", "red", "redv", "col"], 3, 3, 6, 0, 14, 15, 6),
                 ("dist=4 (ratios 0..2)", ["dist"], 4, 2, 6, 0, 14, 3, 3),
                 ("red,col=4(ratios 0..1)", ["red", "redv", "col"], 4, 1, 6, 0, 14, 5, 3)]
    else:
        plans = [("all<=3 small", ["dist", "distn", "red", "redv", "col"], 3, 2, 4, 0, 14, 15, 6),
                 ("all<=2", ["dist", "distn", "red", "redv", "col"], 2, 3, 6, 0, 14, 15, 3)]
    runs = []
    for label, fns, ms, mr, mb, lo, hi, step, workers in plans:
        for a in range(lo, hi + 1, step):
            runs.append((label, fns, ms, mr, mb, a, min(hi, a + step - 1), workers))
    wd = tlc.workdir("c07ratio")
    findings, stats = [], dict(states=0, instances=0, runs=0)
    pool = mp.get_context("fork").Pool(min(6, os.cpu_count() or 2))

    def one(run):
        label, fns, ms, mr, mb, a, b, workers = run
        args = [(fn, t, n, mr, mb, 3) for fn in fns for t in range(a, b + 1) for n in range(1, ms + 1)]
        blocks = pool.map(_ratio_grid, args, chunksize=1)
        real = {fn: [[None] * ms for _ in range(a, b + 1)] for fn in fns}
        ninst = 0
        for (fn, t, n, _, _, _), blk in zip(args, blocks):
            real[fn][t - a][n - 1] = blk
            ninst += len(blk)
        path = os.path.join(wd, "real-%s-%d-%d-%d.json" % ("".join(f[0] + f[-1] for f in fns), ms, mr, a))
        with open(path, "w") as f:
            json.dump(real, f, separators=(",", ":"))
        fnset = ", ".join('"%s"' % f for f in fns)
        cfg = RATIO_CFG % (ms, mr, mb, a, b, fnset, _INV_ALL)
        r = tlc.run("MC_Ratio", wd=wd, cfg_text=cfg, env={"TRACE_FILE": path}, workers=workers, coverage=(ms <= 2), heap="6g",
                    timeout=3000, tag="c07ratio")
        out = [(run, r, ninst, ms <= 2)]
        if r.violated and set(r.violated) <= {"RealAgrees", "DesignOK"}:
            # drift (or a flaw of the transcription) stopped the search: look for broken promises of the real code alone
            r2 = tlc.run("MC_Ratio", wd=wd, cfg_text=RATIO_CFG % (ms, mr, mb, a, b, fnset, _INV_REAL), env={"TRACE_FILE": path},
                         workers=workers, heap="6g", timeout=3000, tag="c07ratio")
            out.append((run, r2, 0, False))
        os.remove(path)
        return out

    try:
        from concurrent.futures import ThreadPoolExecutor
        with ThreadPoolExecutor(3) as ex:
            for outs in ex.map(one, runs):
                for run, r, ninst, want_cov in outs:
                    result.setdefault("tlc", []).append(r)      # accounted by the main thread
                    stats["states"] += r.distinct
                    stats["instances"] += ninst
                    stats["runs"] += 1
                    if not r.finished and not r.violated:
                        raise tlc.TLCFailure("MC_Ratio %s did not finish\n%s" % (run[0], r.out[-2000:]))
                    if want_cov and r.rc == 0 and not r.violated:
                        cov = r.coverage()
                        need = {"dist": "AddDistSlot", "distn": "AddDistNSlot", "red": "AddReduceSlot", "col": "AddColumn"}
                        never = [need[f] for f in run[1] if f in need and cov.get(need[f], (0, 0))[1] == 0]
                        if never:
                            raise tlc.TLCFailure("MC_Ratio: actions never fired: %s" % never)
                        result["coverage"] = {k: v[1] for k, v in cov.items()}
                    for inv in r.violated:
                        w = _witness(r.out, inv)
                        if inv == "Aligned":
                            raise tlc.TLCFailure("MC_Ratio: driver grid and model grid are misaligned at %s" % w)
                        findings.append((inv, run[0], w))
    finally:
        pool.terminate()
        tlc.cleanup(wd)
    result["findings"] = findings
    result["stats"] = stats
    result["plans"] = [p[0] for p in plans]


def ratio_random(rng, n):
    """real calls at table-like magnitudes (totals <= 250, <= 6 slots) for Trace_Table"""
    recs = []
    for _ in range(n):
        fn = rng.choice(["dist", "distn", "red", "redv", "col"])
        k = rng.randint(1, 6)
        total = rng.choice([rng.randint(0, 20), rng.randint(0, 250)])
        if fn == "col":
            rs = [1 if rng.random() < 0.75 else 0 for _ in range(k)]
            bs = [rng.randint(0, 80) for _ in range(k)]
        elif fn == "distn":
            rs = [rng.randint(0, 5) for _ in range(k)]
            bs = [0] * k
        else:
            rs = [rng.randint(0, 5) for _ in range(k)]
            bs = [rng.choice([0, rng.randint(1, 6), rng.randint(1, 60)]) for _ in range(k)]
        recs.append(ratio_record(fn, total, rs, bs))
    return recs


# ---- M1 / M2 for the table relation ----------------------------------------------------------------------
MC_TABLE_CFG = """CONSTANTS
  MaxCols = %d
  MaxRows = %d
  Mode = "%s"
SPECIFICATION Spec
%s
CHECK_DEADLOCK FALSE
"""


def table_m1(chk, result):
    """M1 for the relation: ideal renders accepted, corrupted ones rejected (runs in the background thread)"""
    rows = chk.pick(1, 2)
    # (-coverage makes TLC run out of memory on this module; the depth of the state graph shows that every builder action fired)
    r, cov, missing = tlc.model_check("MC_Table", cfg_text=MC_TABLE_CFG % (2, rows, "check", "INVARIANT IdealAccepted\nINVARIANT CorruptionsRejected\nINVARIANT MinLaw"),
                                      coverage=False, workers=chk.pick(4, 8), tag="c07mc")
    result["table_m1"] = r
    if r.violated or not r.finished or r.diameter < 3 + rows:
        raise tlc.TLCFailure("MC_Table: violated=%s finished=%s depth=%s\n%s" % (r.violated, r.finished, r.diameter, r.out[-3000:]))
    result["table_m1_note"] = dict(states=r.distinct, depth=r.diameter, max_cols=2, max_rows=rows)


def table_m2(chk):
    """M2: recipes (random builder histories over the full option sets) for the real code"""
    behs, r2 = tlc.behaviours("MC_Table", cfg_text=MC_TABLE_CFG % (4, 3, "emit", "CONSTRAINT Emit"), tag="c07gen",
                              simulate="num=%d" % chk.pick(140, 1800), depth=12, seed=chk.seed + 7)
    chk.add_tlc(r2, "M2")
    if not behs:
        raise tlc.TLCFailure("MC_Table emitted no recipes\n%s" % r2.out[-2000:])
    return [b["beh"] for b in behs]


def complete(opt, rng):
    """TLC-generated option combination -> full recipe with self-identifying contents"""
    nc, nr = opt["nc"], opt["nr"]
    t = dict(DEFAULTS)
    t.update(nc=nc, nr=nr, box=opt["box"] if opt["box"] != "none" else None, edge=opt["edge"], sh=opt["sh"], sf=opt["sf"], sl=opt["sl"],
             lead=opt["lead"], pad=[0, opt["px"]], pe=opt["pe"], cp=opt["cp"], ex=opt["ex"], w=0, minw=0)
    t["cols"] = []
    for c in range(nc):
        o = opt["cols"][c]
        t["cols"].append(dict(jus="left", ov=o["ov"], ratio=o["ratio"], w=0, minw=0, maxw=o["maxw"], nw=False,
                              hdr=dict(k="str", s=rand_words(rng, cell_key(0, c), maxwords=2, empty_p=0)),
                              ftr=dict(k="str", s=rand_words(rng, cell_key(nr + 1, c), maxwords=2, empty_p=0))))
    t["rows"] = [dict(cells=[dict(k="str", s=rand_words(rng, cell_key(i + 1, c), empty_p=0)) for c in range(nc)], end=bool(opt["ends"][i]), style=None)
                 for i in range(nr)]
    return t


# ---- the check ---------------------------------------------------------------------------------------------
def run(chk: Check):
    chk.rule = ("ratio arithmetic: every instance of the grid (totals 0..14, slots/ratios/bounds per tier, see notes) is a model state AND "
                "a call of the real function; tables: option combinations enumerated by TLC (MC_Table) plus seeded random recipes "
                "(1..6 columns, 0..8 rows, every table / column option of the quantifier, multi-line / wide / zero-width / nested "
                "cells), each rendered at widths from the structural minimum to 200; width solver: every instance MC_TableSolver emits "
                "(<=3 columns, content 1..2 / <=6, paddings incl. pad_edge / collapse_padding, ratios, min_width, per tier see notes) is a "
                "call of the real Table._calculate_column_widths at 5..7 available widths from the structural minimum, compared by TLC "
                "with the transcription (DRIFT only).  evaluation = one (recipe, W) record, one ratio call or one solver call; "
                "non-trivial = in scope (W >= TableMin, options not contradictory)")
    chk.trusted = ["drivers/c07.py:project (segments -> lines -> runs: a character is attributed by the alphabet it belongs to, a blank / "
                   "box character by the colour tag of its segment; widths by rich.cells of the tree under test - C13's subject)",
                   "drivers/c07.py:build (recipe -> constructor calls)", "drivers/c07.py:_ratio_grid (enumeration order; checked by MC_Ratio!Aligned)",
                   "drivers/c07_solver.py:real_widths (instance -> Table(box=None) with one row of Text cells of the given content widths; "
                   "the structural minimum TLC printed is recomputed by Trace_TableSolver)"]
    chk.assumptions = ["Console(color_system=None, legacy_windows=False, utf-8)", "style tags (border_style, column styles, title/caption style) do not influence layout",
                       "structural minimum and scope as documented in specs/Table.tla; title / caption lines are not body lines",
                       "Table.width given: exact body width is not demanded (DRIFT note only)"]
    bad = check_alphabets()
    if bad:
        chk.drift_note("cell-width table of the tree under test changes the width of %d generator characters; structural minima of the generated tables are no longer meaningful" % len(bad))
    if chk.replay_only:
        case = chk.replay_only["case"]
        if case.get("kind") == "ratio":
            rec = ratio_record(case["fn"], case["total"], case["rs"], case["bs"])
            vs = judge_tables(chk, [rec])
            chk.traces += 1
            chk.case(case, True)
            if vs[0] != "ok" and not vs[0].startswith("drift"):
                chk.reject(ratio_signature(vs[0], case), vs[0], case)
            return
        rec = project(case["recipe"], case["W"])
        vs = judge_tables(chk, [rec])
        chk.traces += 1
        clause, idx, m, d = parse_verdict(vs[0])
        chk.case(case, clause != "outside")
        print("replay verdict: %s\n%s" % (vs[0], render_text(case["recipe"], case["W"])))
        if clause not in ("ok", "outside"):
            chk.reject(table_signature(clause, case["recipe"], case["W"]), vs[0], case)
        return

    # M1 (ratio) and the solver part (design level + conformance of the transcription) in the background
    from drivers import c07_solver
    ratio_result, solver_result = {}, {}
    th = threading.Thread(target=background_m1, args=(chk, ratio_result))
    th2 = threading.Thread(target=c07_solver.background, args=(chk, solver_result))
    th.start()
    th2.start()
    try:
        table_part(chk)
    finally:
        th.join()
        th2.join()
    chk.mark("M1 ratio + table relation + solver part (overlapped, remainder)")
    if "error" in ratio_result:
        raise ratio_result["error"]
    c07_solver.account(chk, solver_result)
    for r in ratio_result.get("tlc", []) + [ratio_result["table_m1"]]:
        chk.add_tlc(r, "M1")
    chk.notes["m1_table"] = ratio_result["table_m1_note"]
    chk.notes["m1_ratio"] = dict(plans=ratio_result.get("plans"), **ratio_result.get("stats", {}))
    chk.notes["m1_ratio_action_coverage"] = ratio_result.get("coverage")
    chk.traces += ratio_result.get("stats", {}).get("instances", 0)
    chk.evaluations += ratio_result.get("stats", {}).get("instances", 0)
    for inv, label, w in ratio_result.get("findings", []):
        case = dict(kind="ratio", fn=w["fn"], total=w["total"], rs=[s[0] for s in w["slots"]], bs=[s[1] for s in w["slots"]])
        if inv == "RealOK":
            m = re.search(r'real \|-> "([^"]*)"', w["v"])
            clause = m.group(1) if m else "?"
            chk.reject(ratio_signature("ratio:%s %s" % (w["fn"], clause), case), "MC_Ratio %s: %s" % (label, w), case)
        elif inv == "RealAgrees":
            chk.drift_note("%s(total=%s, slots(ratio,bound)=%s) differs from the transcription in Ratio.tla (promised properties still hold)" % (w["fn"], w["total"], w["slots"]))
        else:
            raise tlc.TLCFailure("MC_Ratio: the transcription itself breaks %s at %s" % (inv, w))


def ratio_signature(verdict, case):
    return verdict


def handle_table_verdicts(chk, index, recs, tv, budget):
    # tables
    counts, failing, excs, slack_hist = {}, [], {}, {}
    minw_mismatch = 0
    for (origin, t, W), rec, v in zip(index, recs, tv):
        clause, idx, m, d = parse_verdict(v)
        counts[clause] = counts.get(clause, 0) + 1
        chk.case((t, W), clause != "outside")
        if rec["exc"] != "none":
            excs[rec["exc"]] = excs.get(rec["exc"], 0) + 1
        if m is not None and m != minw_py(t):
            minw_mismatch += 1
        if m is None:
            raise tlc.TLCFailure("Trace_Table gave no verdict for a record: %r" % v)
        if d == "w":
            counts["drift:width-option"] = counts.get("drift:width-option", 0) + 1
        elif d == "a":
            counts["drift:annotation"] = counts.get("drift:annotation", 0) + 1
        elif d == "p":
            counts["drift:padding"] = counts.get("drift:padding", 0) + 1
        if clause not in ("ok", "outside"):
            failing.append((clause, t, W, v))
            h = slack_hist.setdefault(clause, {})
            sl = W - (t["w"] or m)
            key = str(sl) if sl < 5 else "5-9" if sl < 10 else "10-19" if sl < 20 else "20+"
            h[key] = h.get(key, 0) + 1
    chk.notes["verdict_counts"] = counts
    if slack_hist:
        chk.notes["rejections_by_distance_from_structural_minimum"] = slack_hist
    if excs:
        chk.notes["exceptions_while_rendering"] = excs
    if minw_mismatch:
        chk.drift_note("driver: minw_py differs from Table!TableMin on %d records (only the choice of widths is affected)" % minw_mismatch)
    if counts.get("drift:width-option"):
        chk.drift_note("Table(width=n) did not render a body exactly n wide in %d records (statement silent: not demanded)" % counts["drift:width-option"])
    if counts.get("drift:padding"):
        chk.drift_note("cell characters inside the padding the options ask for in %d records (statement speaks of the column's span only)" % counts["drift:padding"])
    if counts.get("drift:annotation"):
        chk.drift_note("title / caption line wider than the body or misplaced in %d records (statement speaks of the body only)" % counts["drift:annotation"])
    # group the rejections: smallest case of a clause is minimised; members whose options include the minimal
    # case's options are explained by it, the rest form the next group
    groups = []
    by_clause = {}
    for f in failing:
        # an open known finding that covers the whole clause (its signature matches whatever the options are): no
        # witness has to be minimised to decide the match
        if any(x.get("status") == "open" and re.search(x["signature"], f[0] + " opts=- slack=0") for x in chk._findings):
            chk.reject(table_signature(f[0], f[1], f[2]), f[3], dict(kind="table", recipe=f[1], W=f[2], verdict=f[0]))
            continue
        by_clause.setdefault(f[0], []).append(f)
    share = max(1, budget // max(1, len(by_clause)))        # every clause gets its share of the minimisation budget
    for clause, members in sorted(by_clause.items(), key=lambda kv: len(kv[1])):
        rest = sorted(members, key=lambda f: (size(f[1]), f[2]))
        mine = share
        while rest and budget > 0 and mine > 0:
            budget -= 1
            mine -= 1
            _, t, W, v = rest[0]
            mt, mW = minimise(chk, t, W, clause)
            feats = features(mt)
            explained = [f for f in rest if feats <= features(f[1])]
            if rest[0] not in explained:
                explained.append(rest[0])
            rest = [f for f in rest if f not in explained]
            groups.append((clause, mt, mW, len(explained)))
        for _, t, W, v in rest[:3]:        # budget exhausted: report unminimised
            groups.append((clause, t, W, 1))
    chk.mark("minimise")
    for clause, t, W, n in groups:
        rec = project(t, W)
        sig = table_signature(clause, t, W)
        detail = "%s; %d rejected record(s) of this shape; minimal witness at W=%d:\n%s" % (clause, n, W, render_text(t, W))
        chk.reject(sig, detail, dict(kind="table", recipe=t, W=W, verdict=clause))


def table_part(chk):
    rng = chk.rng
    recipes = []
    opts = table_m2(chk)
    chk.mark("M2 table")
    n_gen = len(opts)
    keep = chk.pick(120, 1500)
    if len(opts) > keep:
        idx = sorted(rng.sample(range(len(opts)), keep))
        opts = [opts[i] for i in idx]
    for o in opts:
        recipes.append(("tlc", complete(o, rng)))
    for _ in range(chk.pick(300, 3500)):
        recipes.append(("random", gen_table(rng)))
    chk.notes["recipes"] = dict(tlc_generated=n_gen, tlc_used=len(opts), random=len(recipes) - len(opts))
    per = chk.pick(5, 7)
    jobs = [(t, widths_for(t, rng, per)) for _, t in recipes]
    prod = produce(jobs)
    chk.mark("render")
    recs, index = [], []
    for (origin, t), (_, ws), rs in zip(recipes, jobs, prod):
        for W, rec in zip(ws, rs):
            recs.append(rec)
            index.append((origin, t, W))
            if rec.get("_drift"):
                chk.drift_note("rich.cells: " + rec["_drift"])
    ratio_recs = ratio_random(rng, chk.pick(800, 12000))
    verdicts = judge_tables(chk, recs + ratio_recs)
    chk.mark("judge")
    chk.traces += len(recs) + len(ratio_recs)
    tv, rv = verdicts[:len(recs)], verdicts[len(recs):]
    # ratio calls at table magnitudes
    for rec, v in zip(ratio_recs, rv):
        case = dict(kind="ratio", fn=rec["fn"], total=rec["total"], rs=rec["rs"], bs=rec["bs"])
        chk.case(case, True)
        if v.startswith("drift"):
            chk.drift_note("%s(total=%d, ratios=%s, bounds=%s) -> %s differs from the transcription" % (rec["fn"], rec["total"], rec["rs"], rec["bs"], rec["out"]))
        elif v != "ok":
            chk.reject(ratio_signature(v, case), v + " out=%s" % rec["out"], case)
    handle_table_verdicts(chk, index, recs, tv, chk.pick(6, 10))
    for i in (0, len(index) // 2, len(index) - 1):
        origin, t, W = index[i]
        chk.sample(dict(origin=origin, W=W, options=sorted(features(t)), shape="%dx%d" % (t["nc"], t["nr"]), verdict=tv[i],
                        render=render_text(t, W)[:400]))
