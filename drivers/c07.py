"""C07 - tables are rectangles that show every cell in its own column.

TLC is the judge everywhere:
  M1  MC_Ratio: the transcription of ratio_distribute / ratio_reduce / Table._collapse_widths keeps the promised
      properties on the whole grid (and the relations reject the classic wrong designs); the REAL functions of the
      tree under test are called on every instance of the same grid (one implementation test per model state) and
      TLC compares: a difference is DRIFT, a broken promise on the real result a VIOLATION.
      MC_Table: an ideal render of every small recipe is accepted by Table!TableWhy and its classic corruptions are
      rejected (non-vacuity / binding of the relation).
  M2  MC_Table (-simulate) emits random builder histories Configure / AddColumn* / AddRow* over the full option sets;
      the driver completes them with self-identifying cell contents and builds real tables from them.
  M3  Trace_Table: every (recipe, W, projected render) record of TLC-generated, seeded random and hand-listed tables
      (boundary_recipes: the corners of the quantifier, the same list on every run), and real ratio calls at table-like
      magnitudes.
  What the generators vary (gap audit 1): every Table / Column / add_row / Table.grid option that can change the layout, in
  every spelling (padding int / 1- / 2- / 4-tuple; styles as strings or Style objects; columns from add_column, Column
  objects, header strings, add_row with extra cells, add_column after rows), explicit zero and percent-like ratios, cells as
  str / Text with justify / overflow / no_wrap of its own / None / nested, contents blank / zero-width only / with tabs / with
  blank lines, titles with double-width characters and every justify, and the console side: width through the console or
  through the options only, console-wide justify / overflow / no_wrap, legacy_windows x safe_box, ascii_only.  held_back()
  lists the two corners that are kept out because the unchanged tree is wrong there (TODO(audit-1)).
  The column-width solver as a whole (specs/TableSolver.tla: transcription of Table._calculate_column_widths, the two open
  findings as smallest counter-examples of the design, the repaired design, conformance of the transcription with the real
  method) is drivers/c07_solver.py, run in a thread next to the table part.

Python only generates, builds, renders and projects lexically.  Every cell is written in an alphabet of its own
(cell k = rowid * 6 + column: U+0100+3k.., U+4E00+k, U+1F600+k, U+0300+k), so the row and column of every output
character is read off the character; blanks and box characters are attributed by the colour tag the table was asked to
put on its border / on each column (style tags never influence layout).  The width vector of the implementation is
never consulted."""
import io
import itertools
import json
import os
import re
import threading

from engine import tlc
from engine.harness import Check

NCOLMAX = 6
TAG_BORDER, TAG_COL0, TAG_TITLE, TAG_CAPTION = 200, 201, 210, 211
BOXES = ["ASCII", "ASCII2", "ASCII_DOUBLE_HEAD", "SQUARE", "SQUARE_DOUBLE_HEAD", "MINIMAL", "MINIMAL_HEAVY_HEAD",
         "MINIMAL_DOUBLE_HEAD", "SIMPLE", "SIMPLE_HEAD", "SIMPLE_HEAVY", "HORIZONTALS", "ROUNDED", "HEAVY",
         "HEAVY_EDGE", "HEAVY_HEAD", "DOUBLE", "DOUBLE_EDGE"]
TITLE_ALPHA = "".join(chr(c) for c in range(0x3b1, 0x3c9) if c != 0x3c2)
CAPTION_ALPHA = "".join(chr(c) for c in range(0x430, 0x450))
TITLE_WIDE = "".join(chr(c) for c in range(0x5200, 0x5208))        # double-width characters of titles / captions
CAPTION_WIDE = "".join(chr(c) for c in range(0x5300, 0x5308))
TITLE_SET, CAPTION_SET = set(TITLE_ALPHA + TITLE_WIDE), set(CAPTION_ALPHA + CAPTION_WIDE)
OVERFLOWS = ["fold", "crop", "ellipsis", "ignore"]


# ---- alphabets ------------------------------------------------------------------------------------
def cell_key(rid, c):
    return rid * NCOLMAX + c


def alpha(k):
    return dict(n=[chr(0x100 + 3 * k + j) for j in range(3)], w=[chr(0x4e00 + k), chr(0x1f600 + k)], z=[chr(0x300 + k)])


_DECODE = {}
for _k in range(10 * NCOLMAX):
    for _cls, _chars in alpha(_k).items():
        for _ch in _chars:
            _DECODE[_ch] = _k


def check_alphabets():
    """the alphabets must have the widths the generator assumes IN THE TREE UNDER TEST (else the minimum is wrong)"""
    from rich.cells import get_character_cell_size as g
    bad = []
    for k in range(10 * NCOLMAX):
        a = alpha(k)
        bad += [ch for ch in a["n"] if g(ch) != 1] + [ch for ch in a["w"] if g(ch) != 2] + [ch for ch in a["z"] if g(ch) != 0]
    bad += [ch for ch in TITLE_ALPHA + CAPTION_ALPHA if g(ch) != 1] + [ch for ch in TITLE_WIDE + CAPTION_WIDE if g(ch) != 2]
    return bad


# ---- random recipes ---------------------------------------------------------------------------------
def rand_words(rng, k, maxwords=5, long_p=0.12, nl_p=0.15, wide_p=0.12, zw_p=0.05, empty_p=0.06):
    if rng.random() < empty_p:
        return ""
    a = alpha(k)
    nwords = rng.randint(1, maxwords)
    if rng.random() < long_p:
        nwords = rng.randint(5, 12)
    out = []
    for wi in range(nwords):
        n = rng.randint(1, 8) if rng.random() < 0.9 else rng.randint(9, 30)
        word = []
        for _ in range(n):
            p = rng.random()
            if p < wide_p:
                word.append(rng.choice(a["w"]))
            elif p < wide_p + zw_p and word:
                word.append(a["z"][0])
            else:
                word.append(rng.choice(a["n"]))
        out.append("".join(word))
        if wi < nwords - 1:
            out.append("\n" if rng.random() < nl_p else " " if rng.random() < 0.9 else "  ")
    return "".join(out)


def rand_special(rng, k, tabs_ok=True):
    """cell contents at the edges of 'text': whitespace only, zero-width characters only, tabs, blank lines, blanks at the ends"""
    a = alpha(k)

    def w():
        return "".join(rng.choice(a["n"] + a["w"][:1]) if rng.random() < 0.15 else rng.choice(a["n"]) for _ in range(rng.randint(1, 4)))
    kind = rng.choice(["ws", "ws", "zw", "tab", "tab", "blank", "blank", "ends"])
    if kind == "tab" and not tabs_ok:
        kind = "blank"
    if kind == "ws":
        return rng.choice([" ", "  ", "   ", " \n ", "\n", "\n\n"])
    if kind == "zw":
        return a["z"][0] * rng.randint(1, 2)
    if kind == "tab":
        return rng.choice(["%s\t%s", "\t%s %s", "%s %s\t", "%s\t\t%s", "%s\n\t%s"]) % (w(), w())
    if kind == "blank":
        return rng.choice(["\n%s %s", "%s %s\n", "%s\n\n%s", "%s\n \n%s", "\n\n%s\n%s\n"]) % (w(), w())
    return rng.choice(["  %s %s", "%s %s   ", " %s   %s "]) % (w(), w())


def rand_text_opts(rng, p=1.0):
    """options a Text cell carries itself (they win over the column's: Text.__rich_console__)"""
    d = {}
    if rng.random() < 0.12 * p:
        d["tj"] = rng.choice(["left", "center", "right", "full"])
    if rng.random() < 0.10 * p:
        d["tov"] = rng.choice(OVERFLOWS)
    if rng.random() < 0.08 * p:
        d["tnw"] = rng.random() < 0.7
    return d


def rand_cell(rng, k, nested_p=0.04, special_p=0.07, tabs_ok=True):
    if rng.random() < special_p:
        cell = dict(k="str" if rng.random() < 0.5 else "text", s=rand_special(rng, k, tabs_ok))
        if cell["k"] == "text":
            cell.update(rand_text_opts(rng, 0.5))
        return cell
    s = rand_words(rng, k)
    r = rng.random()
    if r < nested_p and s.strip():
        if rng.random() < 0.6:
            return dict(k="panel", s=s, px=rng.choice([0, 1, 1, 2]))
        words = s.split()
        half = max(1, len(words) // 2)
        return dict(k="table", a=" ".join(words[:half]), b=" ".join(words[half:]), box=rng.choice(["SQUARE", "ASCII", None]))
    if rng.random() < 0.6:
        return dict(k="str", s=s)
    return dict(dict(k="text", s=s), **rand_text_opts(rng))


def rand_padding(rng):
    r = rng.random()
    if r < 0.27:
        return [0, 1]
    if r < 0.32:
        return [rng.randint(0, 2)]          # 1-tuple: the same on all four sides
    if r < 0.38:
        return 0                 # Table.grid() style: cells are rendered without a Padding wrapper
    if r < 0.45:
        return rng.randint(0, 3)
    if r < 0.7:
        return [rng.randint(0, 2), rng.randint(0, 3)]
    return [rng.randint(0, 2) if rng.random() < 0.4 else 0, rng.randint(0, 3), rng.randint(0, 2) if rng.random() < 0.4 else 0, rng.randint(0, 3)]


def unpack_padding(p):
    if isinstance(p, int):
        return (p, p, p, p)
    if len(p) == 1:
        return (p[0],) * 4
    if len(p) == 2:
        return (p[0], p[1], p[0], p[1])
    return tuple(p)


RATIOS = [0, 1, 1, 1, 2, 2, 3, 3, 7, 40]       # explicit zero: a flexible column that asks for no share; large: percentages


def rand_console(rng):
    """how the available width and the console-wide text options reach the table"""
    con = {}
    if rng.random() < 0.3:
        con["via"] = "options"                         # Console wider / narrower than W, options.update(width=W)
        con["cw"] = rng.choice([1, 7, 60, -3, -1000])  # console width = W + cw (at least 1)
    if rng.random() < 0.12:
        con["j"] = rng.choice(["left", "center", "right", "full"])
    if rng.random() < 0.12:
        con["ov"] = rng.choice(OVERFLOWS)
    if rng.random() < 0.1:
        con["nw"] = True
    if rng.random() < 0.12:
        con["lw"] = True                               # legacy_windows: Box.substitute(safe=...)
    if rng.random() < 0.1:
        con["asc"] = True                              # file encoding ascii -> options.ascii_only: box ASCII
    return con or None


def rand_annotation(rng, narrow, wide):
    words = []
    for _ in range(rng.randint(1, 7)):
        words.append("".join(rng.choice(wide) if rng.random() < 0.08 else rng.choice(narrow) for _ in range(rng.randint(1, 9))))
    return " ".join(words)


def gen_table(rng):
    nc = rng.choice([1, 2, 2, 3, 3, 3, 4, 4, 5, 6])
    nr = rng.choice([0, 1, 1, 2, 2, 3, 3, 4, 5, 6, 7, 8])
    r = rng.random()
    box = None if r < 0.14 else "HEAVY_HEAD" if r < 0.3 else rng.choice(BOXES)
    t = dict(nc=nc, nr=nr, box=box, edge=rng.random() < 0.78, sh=rng.random() < 0.75, sf=rng.random() < 0.35,
             sl=rng.random() < 0.3, lead=rng.choice([0] * 10 + [1, 1, 1, 2, 2, 3]), pad=rand_padding(rng), pe=rng.random() < 0.7,
             cp=rng.random() < 0.3, ex=rng.random() < 0.4, w=0, minw=0 if rng.random() < 0.85 else rng.randint(1, 70),
             title=None, caption=None, style=rng.choice(["", "", "italic"]), ctor=False,
             row_styles=rng.choice([None, None, ["dim"], ["none", "on blue"], ["bold", "italic", "underline"]]),
             mk="kw", sb=rng.choice([None, None, None, True, False]), sobj=rng.random() < 0.12, con=rand_console(rng),
             tjus=rng.choice(["center", "center", "left", "right", "full"]), cjus=rng.choice(["center", "center", "left", "right", "full"]))
    if rng.random() < 0.25:
        t["title"] = rand_annotation(rng, TITLE_ALPHA, TITLE_WIDE)
    if rng.random() < 0.2:
        t["caption"] = rand_annotation(rng, CAPTION_ALPHA, CAPTION_WIDE)
    grid = rng.random() < 0.07
    if grid:                                  # Table.grid(padding, collapse_padding, pad_edge, expand): everything else is fixed
        t.update(mk="grid", box=None, edge=False, sh=False, sf=False, sl=False, lead=0, minw=0, title=None, caption=None, style="",
                 row_styles=None, sb=None, tjus="center", cjus="center", cp=rng.random() < 0.7, pe=rng.random() < 0.3)
    # how the columns come into being: positional headers (str / Column objects) first, then add_column, then columns that
    # add_row adds itself when it is given more cells than there are columns
    r = rng.random()
    n_auto = 0 if (nr == 0 or rng.random() < 0.85) else rng.randint(1, min(nc, 3))
    n_pos = 0 if grid or r < 0.55 else nc - n_auto if r < 0.85 else rng.randint(0, nc - n_auto)
    pos_kind = rng.choice(["obj", "obj", "str", "mixed"])
    any_ratio = rng.random() < 0.3
    # late columns: add_column() called when rows already exist (the column is blank in those rows)
    n_add = nc - n_auto - n_pos
    n_late = 0 if (nr == 0 or n_add == 0 or rng.random() < 0.82) else rng.randint(1, min(n_add, 3))
    late_at = sorted(rng.randint(1, nr if n_auto == 0 else max(1, nr - 1)) for _ in range(n_late))
    t["cols"] = []
    for c in range(nc):
        r = rng.random()
        how = "auto" if c >= nc - n_auto else "add" if c >= n_pos else pos_kind if pos_kind != "mixed" else rng.choice(["obj", "str"])
        nw = rng.random() < 0.1
        col = dict(jus=rng.choice(["left", "left", "center", "right", "full"]),
                   ov="fold" if r < 0.5 else "crop" if r < 0.68 else "ellipsis" if r < 0.9 else "ignore",
                   ratio=rng.choice(RATIOS) if any_ratio and rng.random() < 0.7 else -1,
                   w=rng.randint(1, 10) if rng.random() < 0.1 else 0,
                   minw=rng.randint(1, 10) if rng.random() < 0.12 else 0,
                   maxw=rng.randint(1, 12) if rng.random() < 0.12 else 0,
                   nw=nw, how=how, at=(late_at[c - (nc - n_auto - n_late)] if how == "add" and c >= nc - n_auto - n_late else 0),
                   hdr=rand_cell(rng, cell_key(0, c), nested_p=0.02, tabs_ok=not nw),
                   ftr=rand_cell(rng, cell_key(nr + 1, c), nested_p=0.02, tabs_ok=not nw))
        if how == "auto":                     # nobody gave it a header or a footer
            col["hdr"], col["ftr"] = dict(k="str", s=""), dict(k="str", s="")
        elif how == "str" and col["hdr"]["k"] != "str":
            col["hdr"] = dict(k="str", s=col["hdr"].get("s", ""))
        t["cols"].append(col)
    t["rows"] = []
    first_free = max(late_at) if late_at else 0                     # an add_row can only create columns after the last add_column
    grow_at = sorted(rng.randrange(min(first_free, nr - 1), nr) for _ in range(n_auto)) if n_auto else []
    for i in range(nr):
        # columns that exist once row i is added: everything born before it, plus those it creates itself
        have = nc - n_auto - sum(1 for a in late_at if a > i) + sum(1 for g in grow_at if g <= i)
        n_given = have if (rng.random() < 0.9 or i in grow_at) else rng.randint(0, have)
        cells = [rand_cell(rng, cell_key(i + 1, c), tabs_ok=not t["cols"][c]["nw"]) for c in range(n_given)]
        if rng.random() < 0.08 and cells:
            cells[rng.randrange(len(cells))] = None          # add_row(..., None, ...) = blank cell
        t["rows"].append(dict(cells=cells, end=rng.random() < 0.15, style=rng.choice([None, None, None, "on red", "reverse"])))
    fixup(t)
    into_scope(t, rng)
    if rng.random() < 0.12 and t["mk"] != "grid":
        t["w"] = minw_py(t) + rng.choice([0, 0, 1, 2, 3, 5, 8, 13, 30])
    if rng.random() < 0.15 and t["mk"] != "grid":
        t["prior"] = rand_prior(t, rng)       # the same object was rendered before, in another configuration
    return t


def into_scope(t, rng, p=0.8):
    """most of the time repair the option combinations Table!InScope puts outside (a width / max_width below what the cells of the
    column need, max_width < min_width, a nested renderable in a no_wrap column): a fifth of the random recipes used to be
    rendered and judged only to be called "outside"; the rest still is, on purpose (no alarm there either)"""
    v = tlc_view(t)
    for j, (c, vc) in enumerate(zip(t["cols"], v["cols"])):
        if rng.random() >= p:
            continue
        cells = [g["cells"][j] for g in v["grid"]]
        if c["nw"] and any(x["k"] != "txt" for x in cells):
            c["nw"] = False
        need = max([1] + [max(_cellmin(x), x["wl"] if (c["nw"] and x["k"] == "txt") else 0) for x in cells])
        if c["w"] and c["w"] < need:
            c["w"] = need + rng.choice([0, 0, 1, 2])
        if c["maxw"] and c["maxw"] < max(need, c["minw"]):
            c["maxw"] = max(need, c["minw"]) + rng.choice([0, 0, 1, 2])


GRID_FIXED = dict(box=None, edge=False, sh=False, sf=False, sl=False, lead=0, w=0, minw=0, title=None, caption=None, sb=None)


def fixup(t):
    """make a recipe self-consistent (after generation and after every reduction step); idempotent.
    Columns are numbered in the order they come into being: positional ones (str / obj) first, then add_column() calls and
    columns created by add_row() in the order of their births; Table.grid() takes no headers and fixes most options."""
    nc = t["nc"]
    for r in t["rows"]:
        del r["cells"][nc:]
    if t.get("ctor"):
        for c in t["cols"]:
            c.setdefault("how", "obj")
    stage = 0
    order = dict(str=0, obj=0, add=1, auto=1)
    for c in t["cols"]:
        how = c.get("how", "add")
        if how == "str" and (c["hdr"] or {}).get("k") != "str":
            how = "obj"
        if order[how] < stage:
            how = "add"
        stage = order[how]
        c["how"] = how
    if t.get("mk", "kw") == "grid":
        if any(t.get(k, v) != v for k, v in GRID_FIXED.items()) or t.get("style") or t.get("row_styles"):
            t["mk"] = "kw"
        else:
            for c in t["cols"]:
                if c["how"] in ("str", "obj"):
                    c["how"] = "add"
    # births, left to right.  cols[j].at (add_column only) = the number of rows that exist when the column is added: 0 = before
    # any row, k > 0 = a LATE column (blank in rows 0..k-1); an auto column comes into being in the first row (not earlier than
    # the columns before it) that holds more than j cells - without such a row it cannot be an auto column.  Rows hold no
    # cells for columns that do not exist yet.
    nr = len(t["rows"])
    lo_add = lo_auto = 0          # earliest `at` of the next add_column / earliest row in which add_row can create the next column
    for j, c in enumerate(t["cols"]):
        if c["how"] == "auto":
            born = [i for i in range(lo_auto, nr) if len(t["rows"][i]["cells"]) > j]
            if born:
                for i in range(born[0]):
                    del t["rows"][i]["cells"][j:]
                lo_auto, lo_add = born[0], born[0] + 1      # an add_column after it comes after that row
                c["at"] = 0
                c["hdr"], c["ftr"] = dict(k="str", s=""), dict(k="str", s="")
                continue
            c["how"] = "add"
            c["at"] = lo_add
        if c["how"] == "add":
            c["at"] = lo_add = lo_auto = min(nr, max(lo_add, c.get("at", 0)))
            for i in range(lo_add):
                del t["rows"][i]["cells"][j:]
        else:
            c["at"] = 0
    return t


# ---- hand-listed recipes: the corners of the quantifier, the same list on every run ----------------------------
SWEEP = "unequal ratios, width sweep"
LEGACY_BOXES = ["ROUNDED", "MINIMAL_HEAVY_HEAD", "SIMPLE_HEAVY", "HEAVY", "HEAVY_EDGE", "HEAVY_HEAD"]   # box.LEGACY_WINDOWS_SUBSTITUTIONS


def boundary_recipes():
    """(label, recipe): every option value / combination the random generator reaches only by luck, on small tables.
    Deterministic (a generator of its own); contents are short words in the cell alphabets, one double-width character and
    one multi-line cell per table unless the entry says otherwise."""
    import random
    rng = random.Random(20260929)
    out = []

    def word(k, n=None, wide=False):
        a = alpha(k)
        s = "".join(rng.choice(a["n"]) for _ in range(n or rng.randint(1, 4)))
        return s + a["w"][0] if wide else s

    def text(k, words=2, wide=False, nl=False):
        ws = [word(k, wide=(wide and i == 0)) for i in range(words)]
        return ("\n" if nl else " ").join(ws)

    def mk(label, nc, nr, cols=None, cells=None, rows=None, plain=False, **opts):
        """cols: {j: {column option: value}}; cells: {(i, j): cell recipe or None} (i = 0-based row); rows: {i: {end / style / n}}"""
        t = dict(DEFAULTS)
        t.update(nc=nc, nr=nr)
        t.update(opts)
        t["cols"] = []
        for j in range(nc):
            c = dict(COL_DEFAULTS, ov="fold", hdr=dict(k="str", s=text(cell_key(0, j), 1)), ftr=dict(k="str", s=text(cell_key(nr + 1, j), 1)))
            c.update((cols or {}).get(j, {}))
            t["cols"].append(c)
        t["rows"] = []
        for i in range(nr):
            ro = dict((rows or {}).get(i, {}))
            n = ro.pop("n", nc)
            row = [dict(k="str" if (i + j) % 2 else "text",
                        s=text(cell_key(i + 1, j), 2, wide=(not plain and i == 0 and j == nc - 1), nl=(not plain and i == nr - 1 and j == 0)))
                   for j in range(n)]
            for (ci, cj), cell in (cells or {}).items():
                if ci == i and cj < n:
                    row[cj] = cell
            t["rows"].append(dict(dict(cells=row, end=False, style=None), **ro))
        fixup(t)
        out.append((label, t))
        return t

    # A. structure: no rows x header / footer x box x edge; the largest table; every box with every kind of separator line
    for sh in (True, False):
        for sf in (True, False):
            for box in ("HEAVY_HEAD", None):
                for edge in (True, False):
                    mk("no rows", 2, 0, sh=sh, sf=sf, box=box, edge=edge, ex=(sh != sf))
    for kw in (dict(), dict(sl=True, sf=True), dict(lead=1), dict(box=None, pad=[0, 1, 0, 0]), dict(ex=True, box="SIMPLE")):
        mk("6 columns x 8 rows", 6, 8, plain=True, rows={7: dict(end=True)}, **kw)
    for i, box in enumerate(BOXES):
        mk("every box", 2, 2, box=box, sf=True, sl=(i % 3 == 0), lead=(2 if i % 3 == 1 else 0), rows={0: dict(end=i % 3 == 2)},
           edge=(i % 4 != 3), ex=(i % 2 == 0))
    for kw in (dict(sl=True), dict(lead=2), dict(sl=True, lead=1), dict(sl=True, sf=True)):
        mk("no box, separators asked for", 2, 3, box=None, rows={0: dict(end=True)}, **kw)
    # B / F. every form of `padding` x collapse_padding x pad_edge (vertical padding next to multi-line cells)
    for pi, pad in enumerate([0, 1, [1], [2], [0, 2], [1, 0], [1, 2, 0, 1], [0, 0, 0, 2], [2, 1, 1, 3], [0, 3, 0, 1], [2, 0, 1, 0]]):
        for cp in (False, True):
            for pe in (True, False):
                mk("padding forms", 3, 2, pad=pad, cp=cp, pe=pe, ex=(pi % 2 == 1), box=("HEAVY_HEAD" if pi % 3 else None), sh=(pi % 4 != 2),
                   sl=(pi % 5 == 4))
    # C. column options: ratios (explicit zero, percent-like, mixed with None), ratio x max_width / width / min_width, no_wrap
    for rs in ([0, 1], [1, 0], [0, 0], [1, 2, 0], [40, 60], [1, -1, 0], [3, -1], [0, -1], [2, 2, 2, 0, 1]):
        for ex in (True, False):
            mk("ratios", len(rs), 2, cols={j: dict(ratio=r) for j, r in enumerate(rs)}, ex=ex, plain=(len(rs) > 3))
    # unequal ratios on padded columns, judged over a SWEEP of widths (table_part): a small share must still be one cell plus the
    # padding (flex_minimum) far above the structural minimum
    for rs in ([1, 8, 1], [1, 5], [2, 7, 1], [1, 1, 10], [1, -1, 6]):
        for pad in ([0, 1], [0, 2], [0, 2, 0, 0]):
            mk(SWEEP, len(rs), 2, cols={j: dict(ratio=r) for j, r in enumerate(rs)}, ex=True, pad=pad, plain=True)
    mk("ratio x max_width", 2, 2, cols={0: dict(ratio=1, maxw=5), 1: dict(ratio=2)}, ex=True)
    mk("ratio x width", 2, 2, cols={0: dict(ratio=1, w=6), 1: dict(ratio=1)}, ex=True)
    mk("ratio x min_width", 2, 2, cols={0: dict(ratio=1), 1: dict(ratio=0, minw=4)}, ex=True)
    mk("ratio, Table.width", 2, 2, cols={0: dict(ratio=1), 1: dict(ratio=3)}, w=40)
    for co in (dict(w=5), dict(minw=6), dict(maxw=9), dict(minw=5, maxw=5), dict(nw=True), dict(nw=True, ov="ellipsis"), dict(w=7, nw=True)):
        for ex in (False, True):
            mk("column width options", 3, 2, cols={1: co}, ex=ex)
    for j, jus in enumerate(["left", "center", "right", "full"]):
        for ov in OVERFLOWS:
            mk("justify x overflow", 2, 2, cols={0: dict(jus=jus, ov=ov), 1: dict(jus=jus)}, pad=(0 if j % 2 else [0, 1]))
    # D. expand x Table.width x Table.min_width (w = distance from the structural minimum, resolved below)
    for ex, w, minw in ((True, 0, 0), (False, 5, 0), (True, 5, 0), (False, 0, 30), (True, 0, 30), (False, 3, 40), (False, 0, 5), (False, 1, 0)):
        t = mk("expand x width x min_width", 3, 2, ex=ex, minw=minw)
        if w:
            t["w"] = minw_py(t) + w
    # E. sections and row styles
    mk("end_section on the last row", 2, 3, rows={2: dict(end=True)})
    mk("end_section on every row", 2, 3, rows={i: dict(end=True) for i in range(3)}, sf=True)
    mk("end_section x show_lines", 2, 3, rows={0: dict(end=True)}, sl=True)
    mk("end_section x leading", 2, 3, rows={1: dict(end=True)}, lead=1, box="ASCII")
    mk("end_section, no header", 2, 2, rows={0: dict(end=True)}, sh=False, edge=False)
    mk("more row styles than rows", 2, 1, row_styles=["dim", "on blue", "bold"], rows={0: dict(style="reverse")}, box="SIMPLE", sobj=True, style="italic")
    mk("row styles", 2, 4, row_styles=["none", "on blue"], rows={1: dict(style="on red")}, box="MINIMAL", sobj=False)
    # G. cell contents at the edges of "text"
    specials = [" ", "   ", "\n", " \n ", "Z", "ZZ", "a\tb", "\ta b", "a b\t", "a\t\tb", "\na b", "a b\n", "a\n\nb", "a\n \nb", "  a b", "a b   ", "W", "aW\nWb", ""]
    for si, sp in enumerate(specials):
        def inst(k, sp=sp):
            a = alpha(k)
            return sp.replace("Z", a["z"][0]).replace("W", a["w"][si % 2]).replace("a", word(k, 2)).replace("b", word(k, 3))
        mk("special cell content", 2, 2, cells={(0, 0): dict(k="str", s=inst(cell_key(1, 0))), (1, 1): dict(k="text", s=inst(cell_key(2, 1)))},
           plain=True, ex=(si % 3 == 0), pad=([0, 1] if si % 2 else 0))
    for sp in ("", " ", "Z", "\n"):
        def inst2(k, sp=sp):
            return sp.replace("Z", alpha(k)["z"][0])
        mk("a column of blank cells", 3, 2, plain=True, sh=False, cells={(i, 1): dict(k="text", s=inst2(cell_key(i + 1, 1))) for i in range(2)}, ex=(sp == " "))
        mk("a column of blank cells", 2, 1, plain=True, sh=False, box=None, pad=0, cells={(0, 0): dict(k="str", s=inst2(cell_key(1, 0)))})
    mk("None cells and short rows", 3, 3, cells={(0, 1): None, (2, 2): None}, rows={1: dict(n=1), 2: dict(n=3)})
    mk("an empty row", 2, 3, rows={1: dict(n=0)}, sl=True)
    # H. how columns come into being
    mk("headers as strings", 3, 2, cols={j: dict(how="str") for j in range(3)})
    mk("headers as strings and Column objects", 3, 2, cols={0: dict(how="str"), 1: dict(how="obj", ratio=1), 2: dict(how="str", ov="ellipsis")}, ex=True)
    mk("Column objects then add_column", 3, 2, cols={0: dict(how="obj", minw=4), 1: dict(how="obj")}, cp=True, pad=[0, 1, 0, 3])
    mk("columns added by add_row", 3, 2, cols={1: dict(how="auto"), 2: dict(how="auto")})
    mk("columns added by a later add_row", 3, 3, cols={2: dict(how="auto")}, rows={0: dict(n=2), 1: dict(n=3), 2: dict(n=1)}, sf=True)
    mk("columns added one by one", 4, 4, cols={j: dict(how="auto") for j in (1, 2, 3)}, rows={0: dict(n=1), 1: dict(n=2), 2: dict(n=4), 3: dict(n=3)}, plain=True)
    mk("every column added by add_row", 2, 2, cols={0: dict(how="auto"), 1: dict(how="auto")}, sh=False, box="ASCII")
    mk("every column added by add_row, grid", 3, 2, cols={j: dict(how="auto") for j in range(3)}, mk="grid", **dict(GRID_FIXED, pad=[0, 1], cp=True, pe=False))
    # late columns: add_column() when rows exist - blank in those rows
    mk("late column", 3, 3, cols={2: dict(at=2)})
    mk("late column", 3, 3, cols={1: dict(at=1), 2: dict(at=3)}, sf=True, sl=True)
    mk("late column after the last row", 2, 2, cols={1: dict(at=2)}, ex=True)
    mk("late column, no header", 3, 4, cols={2: dict(at=3)}, sh=False, box=None, rows={3: dict(n=3)})
    mk("late column after Column objects", 3, 2, cols={0: dict(how="obj"), 1: dict(how="str"), 2: dict(at=1)}, lead=1)
    mk("every column late", 2, 2, cols={0: dict(at=1), 1: dict(at=1)}, rows={0: dict(n=0), 1: dict(n=2)})
    mk("late column then a column added by add_row", 4, 4, cols={2: dict(at=1), 3: dict(how="auto")}, rows={2: dict(n=4), 3: dict(n=2)})
    mk("column added by add_row then a late column", 4, 4, cols={2: dict(how="auto"), 3: dict(at=3)}, rows={0: dict(n=2), 1: dict(n=3), 2: dict(n=3), 3: dict(n=4)})
    mk("late column, grid", 3, 3, cols={2: dict(at=2)}, mk="grid", **dict(GRID_FIXED, pad=[0, 1], cp=True, pe=False))
    for pad, cp, pe, ex in ((0, True, False, False), ([0, 1], True, False, True), (1, False, True, False), ([0, 2, 0, 1], True, True, True), ([1], False, False, False)):
        mk("Table.grid()", 3, 2, mk="grid", **dict(GRID_FIXED, pad=pad, cp=cp, pe=pe, ex=ex))
    # I. the console: where the width comes from, console-wide text options, legacy_windows / ascii_only x safe_box
    for cw in (1, 60, -3, -1000):
        for ex in (True, False):
            mk("width through the options", 2, 2, con=dict(via="options", cw=cw), ex=ex)
    for con in (dict(j="center"), dict(j="full"), dict(ov="ellipsis"), dict(ov="crop"), dict(ov="ignore"), dict(nw=True), dict(nw=True, ov="ellipsis", j="right")):
        mk("console-wide text options", 2, 2, con=con, title="".join(rng.choice(TITLE_ALPHA) for _ in range(5)))
    for i, box in enumerate(LEGACY_BOXES + ["DOUBLE", "ASCII", None]):
        for sb in (None, True, False):
            mk("legacy_windows x safe_box", 2, 2, box=box, sb=sb, con=dict(lw=True), sf=(i % 2 == 0), sl=(i % 3 == 0))
    for box in ("HEAVY_HEAD", "ROUNDED", "ASCII2", None):
        mk("ascii_only", 2, 2, box=box, con=dict(asc=True), cols={0: dict(ov="ellipsis")}, sl=True)
    mk("ascii_only and legacy_windows", 2, 2, box="HEAVY", con=dict(asc=True, lw=True), sb=False)
    # J. Text cells with options of their own
    k10, k21 = cell_key(1, 0), cell_key(2, 1)
    for tov in OVERFLOWS:
        mk("Text cell with its own overflow", 2, 2, cells={(0, 0): dict(k="text", s=text(k10, 3, wide=True), tov=tov)}, cols={1: dict(ov="ellipsis")})
        mk("Text cell with its own overflow", 2, 2, cells={(1, 1): dict(k="text", s=text(k21, 3), tov=tov, tnw=True)}, pad=0)
    for tnw in (True, False):
        mk("Text cell with its own no_wrap", 2, 2, cells={(0, 0): dict(k="text", s=text(k10, 3), tnw=tnw)}, cols={0: dict(nw=not tnw)})
        mk("Text cell with its own no_wrap", 2, 2, cells={(0, 0): dict(k="text", s=text(k10, 3), tnw=tnw)})
    for tj in ("left", "center", "right", "full"):
        mk("Text cell with its own justify", 2, 2, cells={(0, 0): dict(k="text", s=text(k10, 4), tj=tj)}, cols={0: dict(jus="right")}, ex=True)
    # K. titles and captions
    wide_title = "".join(rng.choice(TITLE_WIDE) for _ in range(4)) + " " + "".join(rng.choice(TITLE_ALPHA) for _ in range(6))
    long_title = " ".join("".join(rng.choice(TITLE_ALPHA) for _ in range(9)) for _ in range(6))
    caption = " ".join("".join(rng.choice(CAPTION_ALPHA + CAPTION_WIDE[:2]) for _ in range(5)) for _ in range(3))
    for i, tj in enumerate(("center", "left", "right", "full")):
        mk("title / caption", 2, 2, title=(wide_title if i % 2 else long_title), caption=(caption if i != 1 else None), tjus=tj, cjus=tj, ex=(i == 2),
           box=(None if i == 3 else "HEAVY_HEAD"))
    mk("title on a table without rows", 1, 0, title=long_title, caption=caption, sh=False)
    # M. nested renderables at the edges
    for i, nested in enumerate((dict(k="panel", px=0), dict(k="panel", px=2), dict(k="table", box="SQUARE"), dict(k="table", box=None), dict(k="table", box="ASCII"))):
        for j in (0, 2):
            k = cell_key(1, j)
            cell = dict(nested, s=text(k, 2)) if nested["k"] == "panel" else dict(nested, a=word(k), b=word(k))
            mk("nested renderable", 3, 2, cells={(0, j): cell}, pe=(i % 2 == 0), cp=(i % 3 == 0), pad=[0, 1, 0, 2], plain=True, ex=(i == 1))
    # N. the same Table object was rendered before while ONE public attribute still had another value (at the same / another width)
    for ex in (True, False):
        for k in sorted(PRIOR_ATTRS):
            for dW in (0, 3):
                base = dict(ex=ex, sf=True, lead=0)
                other = (None if DEFAULTS["box"] else "SQUARE") if k == "box" else (1 if k == "lead" else not dict(DEFAULTS, **base)[k])
                t = mk("rendered before with another %s" % PRIOR_ATTRS[k], 3, 2, **base)
                t["prior"] = dict(set={k: other}, dW=dW)
    return out


# ---- recipe -> what TLC reads -----------------------------------------------------------------------
def _wide(s):
    from rich.cells import get_character_cell_size as g
    return any(g(ch) == 2 for ch in s)


def _widest_line(s):
    """cells of the widest line; a tab counts as a full tab stop (an upper bound: only no_wrap columns read this number, and a
    larger structural minimum only narrows the scope)"""
    from rich.cells import cell_len
    return max([cell_len(x.replace("\t", " " * 8)) for x in s.split("\n")] or [0])


def inner_recipe(cell):
    """the nested table of a k="table" cell as a recipe of its own (2 columns, 1 row, no header, padding (0,1))"""
    box = cell.get("box")
    return dict(nc=2, nr=1, box=box, edge=True, sh=False, sf=False, sl=False, lead=0, pad=[0, 1], pe=True, cp=False, ex=False,
                w=0, minw=0, title=None, caption=None,
                cols=[dict(ov="fold", ratio=-1, w=0, minw=0, maxw=0, nw=False, hdr=dict(k="str", s=""), ftr=dict(k="str", s="")) for _ in range(2)],
                rows=[dict(cells=[dict(k="text", s=cell["a"]), dict(k="text", s=cell["b"])], end=False, style=None)])


def cell_view(cell):
    if cell is None:
        return dict(k="txt", wide=False, wl=0)
    if cell["k"] in ("str", "text"):
        return dict(k="txt", wide=_wide(cell["s"]), wl=_widest_line(cell["s"]))
    if cell["k"] == "panel":
        return dict(k="panel", pad=2 * cell["px"], c=dict(k="txt", wide=_wide(cell["s"]), wl=_widest_line(cell["s"])))
    return dict(k="table", t=tlc_view(inner_recipe(cell)))


def shown_grid(t):
    """[(rid, [cell recipe or None per column])] for the rows the table is asked to show"""
    nc = t["nc"]
    g = []
    if t["sh"]:
        g.append((0, [c["hdr"] for c in t["cols"]]))
    for i, row in enumerate(t["rows"]):
        cells = list(row["cells"][:nc]) + [None] * (nc - len(row["cells"]))
        g.append((i + 1, cells))
    if t["sf"]:
        g.append((t["nr"] + 1, [c["ftr"] for c in t["cols"]]))
    return g


def tlc_view(t):
    _, pr, _, pl = unpack_padding(t["pad"])
    return dict(nc=t["nc"], nr=t["nr"], box=t["box"] is not None, edge=t["edge"], sh=t["sh"], sf=t["sf"], sl=t["sl"], lead=t["lead"],
                pl=pl, pr=pr, pe=t["pe"], cp=t["cp"], ex=t["ex"], w=t["w"], minw=t["minw"],
                cols=[dict(ov=c["ov"], ratio=c["ratio"], w=c["w"], minw=c["minw"], maxw=c["maxw"], nw=bool(c["nw"])) for c in t["cols"]],
                grid=[dict(rid=rid, cells=[cell_view(x) for x in cells]) for rid, cells in shown_grid(t)])


def _cellmin(v):
    if v["k"] == "txt":
        return 2 if v["wide"] else 1
    if v["k"] == "panel":
        return 2 + v["pad"] + _cellmin(v["c"])
    return _tablemin(v["t"])


def _tablemin(v):
    """mirror of Table!TableMin - used ONLY to choose the widths to render at (TLC reports its own m=)"""
    nc = v["nc"]
    total = (2 if v["box"] and v["edge"] else 0) + (nc - 1 if v["box"] and nc > 0 else 0)
    for j in range(nc):
        c = v["cols"][j]
        need = 1
        for g in v["grid"]:
            x = g["cells"][j]
            m = _cellmin(x)
            if c["nw"] and x["k"] == "txt":
                m = max(m, x["wl"])
            need = max(need, m)
        need = max(need, c["w"], c["minw"])
        pl = 0 if (not v["pe"] and j == 0) else max(0, v["pl"] - v["pr"]) if (v["cp"] and j > 0) else v["pl"]
        pr = 0 if (not v["pe"] and j == nc - 1) else v["pr"]
        total += pl + pr + need
    return total


def minw_py(t):
    return _tablemin(tlc_view(t))


# ---- recipe -> real objects ---------------------------------------------------------------------------
def build_cell(cell):
    from rich.text import Text
    if cell is None:
        return None
    if cell["k"] == "str":
        return cell["s"]
    if cell["k"] == "text":
        kw = {}
        if cell.get("tj"):
            kw["justify"] = cell["tj"]
        if cell.get("tov"):
            kw["overflow"] = cell["tov"]
        if cell.get("tnw") is not None:
            kw["no_wrap"] = cell["tnw"]
        return Text(cell["s"], **kw)
    if cell["k"] == "panel":
        from rich.panel import Panel
        return Panel(Text(cell["s"]), padding=(0, cell["px"]))
    return build(inner_recipe(cell), tags=False)


def build(t, tags=True):
    """recipe -> constructor calls.  Columns come into being the way the recipe says (cols[j].how): "obj" a Column object passed
    positionally to Table(), "str" a plain header string passed positionally, "add" add_column(), "auto" created by add_row()
    when a row holds more cells than there are columns; the options of "str" / "auto" columns (nobody could pass them) are set
    on the public Column objects of table.columns afterwards."""
    from rich import box as B
    from rich.style import Style
    from rich.table import Column, Table
    sobj = bool(t.get("sobj"))

    def sty(x):
        return Style.parse(x) if (sobj and isinstance(x, str)) else x
    pad = t["pad"]
    pad = pad if isinstance(pad, int) else tuple(pad)
    kw = dict(title=t.get("title"), caption=t.get("caption"), width=t["w"] or None, min_width=t["minw"] or None,
              box=getattr(B, t["box"]) if t["box"] else None, padding=pad, collapse_padding=t["cp"], pad_edge=t["pe"],
              expand=t["ex"], show_header=t["sh"], show_footer=t["sf"], show_edge=t["edge"], show_lines=t["sl"],
              leading=t["lead"], style=sty(t.get("style") or "none"),
              row_styles=[sty(x) for x in t["row_styles"]] if t.get("row_styles") else t.get("row_styles"))
    if t.get("sb") is not None:
        kw["safe_box"] = t["sb"]
    if t.get("tjus", "center") != "center":
        kw["title_justify"] = t["tjus"]
    if t.get("cjus", "center") != "center":
        kw["caption_justify"] = t["cjus"]
    if tags:
        kw.update(border_style=sty("color(%d)" % TAG_BORDER), title_style=sty("color(%d)" % TAG_TITLE), caption_style=sty("color(%d)" % TAG_CAPTION))
    colkw = []
    for j, c in enumerate(t["cols"]):
        tag = sty("color(%d)" % (TAG_COL0 + j)) if tags else None
        colkw.append(dict(header=build_cell(c["hdr"]) or "", footer=build_cell(c["ftr"]) or "", style=tag, header_style=tag,
                          footer_style=tag, justify=c.get("jus", "left"), overflow=c["ov"], width=c["w"] or None,
                          min_width=c["minw"] or None, max_width=c["maxw"] or None, ratio=None if c["ratio"] < 0 else c["ratio"],
                          no_wrap=c["nw"]))
    hows = ["obj" if t.get("ctor") else c.get("how", "add") for c in t["cols"]]
    headers = []
    for how, ck in zip(hows, colkw):
        if how == "str":
            headers.append(ck["header"])
        elif how == "obj":
            headers.append(Column(**{k: (v if v is not None else "") if k.endswith("style") else v for k, v in ck.items()}))
        else:
            break
    if t.get("mk", "kw") == "grid":
        table = Table.grid(padding=pad, collapse_padding=t["cp"], pad_edge=t["pe"], expand=t["ex"])
    else:
        table = Table(*headers, **kw)
    pending = [(t["cols"][j].get("at", 0), ck) for j, (how, ck) in enumerate(zip(hows, colkw)) if j >= len(headers) and how == "add"]
    for i, row in enumerate(t["rows"]):
        while pending and pending[0][0] <= i:
            table.add_column(**pending.pop(0)[1])
        table.add_row(*[build_cell(x) for x in row["cells"][:t["nc"]]], style=sty(row.get("style")), end_section=row.get("end", False))
    for _, ck in pending:                     # added after the last row
        table.add_column(**ck)
    for j, (how, ck) in enumerate(zip(hows, colkw)):
        if how in ("str", "auto"):
            column = table.columns[j]
            for k, v in ck.items():
                if k == "header":
                    continue
                setattr(column, k, (v if v is not None else "") if k.endswith("style") else v)
    return table


class _AsciiFile(io.StringIO):
    encoding = "ascii"


def make_console(t, W):
    """(console, options): the width W reaches the table through the console's own width or through the options only; the
    console-wide justify / overflow / no_wrap, legacy_windows and the encoding (ascii_only) are whatever the recipe says"""
    from rich.console import Console
    con = t.get("con") or {}
    cw = W if con.get("via") != "options" else max(1, W + con.get("cw", 7))
    console = Console(width=cw, file=_AsciiFile() if con.get("asc") else io.StringIO(), color_system=None, legacy_windows=bool(con.get("lw")))
    options = console.options
    if con.get("via") == "options":
        options = options.update(width=W)
    if con.get("j") or con.get("ov") or con.get("nw"):
        options = options.update(justify=con.get("j"), overflow=con.get("ov"), no_wrap=con.get("nw"))
    return console, options


# ---- render + lexical projection ----------------------------------------------------------------------
def _box_chars():
    from rich import box as B
    s = set()
    for n in BOXES:
        s |= set(str(getattr(B, n)))
    s -= {"\n", " "}
    return s


PRIOR_ATTRS = dict(edge="show_edge", sh="show_header", sf="show_footer", sl="show_lines", ex="expand", pe="pad_edge", cp="collapse_padding",
                   lead="leading", box="box")


def prior_render(t, table, console, options):
    """t["prior"] = {"set": {recipe key: other value}, "dW": n}: the SAME Table object has been rendered before, when some of its
    public attributes still had other values (and at another width): that earlier render is thrown away, the attributes are
    set to the recipe's values, and the render that follows is the one judged - a table shows what it is NOW."""
    prior = t.get("prior")
    if not prior:
        return
    from rich import box as B
    saved = {}
    for k, v in prior["set"].items():
        attr = PRIOR_ATTRS[k]
        saved[attr] = getattr(table, attr)
        setattr(table, attr, (getattr(B, v) if v else None) if k == "box" else v)
    try:
        list(console.render(table, options.update(width=max(1, options.max_width + prior.get("dW", 0)))))
    except Exception:
        pass                                   # the earlier configuration is not the one under judgement
    for attr, v in saved.items():
        setattr(table, attr, v)


def rand_prior(t, rng):
    keys = rng.sample(sorted(PRIOR_ATTRS), rng.choice([1, 1, 2, 3]))
    other = {}
    for k in keys:
        if k == "box":
            other[k] = None if t["box"] else "SQUARE"
        elif k == "lead":
            other[k] = 0 if t["lead"] else 1
        else:
            other[k] = not t[k]
    return dict(set=other, dW=rng.choice([0, 0, 0, 1, -1, 7]))


def project(t, W):
    """build the real table, render it at W, return the record TLC judges"""
    from rich.cells import cell_len, get_character_cell_size
    t = fixup(_clone(t))
    rec = dict(kind="table", t=tlc_view(t), W=W, exc="none", lines=[], cells=[])
    src = {}
    for rid, cells in shown_grid(t):
        for c, cell in enumerate(cells):
            if t["cols"][c]["ov"] != "fold" or t["cols"][c]["nw"]:
                continue                              # (Table!Demanded says the same; this only keeps the records small)
            if cell is None:
                s, ordered = "", True
            elif cell["k"] == "table":
                s, ordered = cell["a"] + cell["b"], False
            else:
                s, ordered = cell["s"], True
            # cov / cnw: the overflow / no_wrap a Text cell carries itself ("" / FALSE: none) - they win over the column's
            src[(rid, c)] = dict(r=rid, c=c + 1, ord=ordered, src=[ord(ch) for ch in s if not ch.isspace()], out=[],
                                 cov=(cell or {}).get("tov") or "", cnw=bool((cell or {}).get("tnw")))
    try:
        table = build(t)
        console, options = make_console(t, W)
        prior_render(t, table, console, options)
        segments = list(console.render(table, options))
    except Exception as e:  # a crash inside Rich is data for TLC
        rec["exc"] = type(e).__name__
        rec["cells"] = list(src.values())
        return rec
    boxchars = _box_chars()
    lines, cur = [], []
    for seg in segments:
        if seg.is_control:
            continue
        parts = seg.text.split("\n")
        for i, part in enumerate(parts):
            if i > 0:
                lines.append(cur)
                cur = []
            if part:
                cur.append((part, seg.style))
    if cur:
        lines.append(cur)
    drift = None
    for pieces in lines:
        runs, x, flags = [], 0, set()

        def emit(kind, col, row, n):
            if runs and runs[-1][0] == kind and runs[-1][1] == col and runs[-1][2] == row:
                runs[-1][4] += n
            else:
                runs.append([kind, col, row, x, n])
        for text, style in pieces:
            tag = None
            if style is not None and style.color is not None and style.color.number is not None:
                tag = style.color.number
            if text.isspace() and text.isascii():
                n = len(text)
                if tag == TAG_BORDER:
                    emit(0, 0, 0, n)
                elif tag is not None and TAG_COL0 <= tag < TAG_COL0 + NCOLMAX:
                    emit(1, tag - TAG_COL0 + 1, 0, n)
                elif tag in (TAG_TITLE, TAG_CAPTION):
                    flags.add("T" if tag == TAG_TITLE else "C")
                    emit(4, 0, 0, n)
                else:
                    emit(3, 0, 0, n)
                x += n
                continue
            for ch in text:
                n = get_character_cell_size(ch)
                k = _DECODE.get(ch)
                if k is not None:
                    rid, c = divmod(k, NCOLMAX)
                    emit(2, c + 1, rid, n)
                    cellrec = src.get((rid, c))
                    if cellrec is not None:
                        cellrec["out"].append(ord(ch))
                elif ch in TITLE_SET or tag == TAG_TITLE:
                    flags.add("T")
                    emit(4, 0, 0, n)
                elif ch in CAPTION_SET or tag == TAG_CAPTION:
                    flags.add("C")
                    emit(4, 0, 0, n)
                elif tag == TAG_BORDER:
                    emit(0, 0, 0, n)
                elif tag is not None and TAG_COL0 <= tag < TAG_COL0 + NCOLMAX:
                    emit(1, tag - TAG_COL0 + 1, 0, n)
                elif ch == " ":
                    emit(3, 0, 0, n)
                elif ch in boxchars:
                    emit(0, 0, 0, n)
                else:
                    emit(4, 0, 0, n)
                x += n
        w = cell_len("".join(p[0] for p in pieces))
        if w != x:
            drift = "cell_len(line) %d differs from the sum of its characters %d" % (w, x)
        kinds = {r[0] for r in runs}
        if flags and not (kinds & {0, 1, 2, 3}):
            kind = "title" if flags == {"T"} else "caption" if flags == {"C"} else "body"
        else:
            kind = "body"
        rec["lines"].append(dict(k=kind, w=w, runs=runs if kind == "body" else []))
    # an EMPTY line above the first / below the last line that shows anything of the body belongs to the title / caption (a
    # folded title can leave one); anywhere else it stays a body line (of width 0 - and is judged as one)
    solid = [i for i, ln in enumerate(rec["lines"]) if ln["k"] == "body" and ln["w"] > 0]
    for i, ln in enumerate(rec["lines"]):
        if ln["k"] == "body" and ln["w"] == 0 and not ln["runs"]:
            if t.get("title") and (not solid or i < solid[0]) and any(x["k"] == "title" for x in rec["lines"][:i]):
                ln["k"] = "title"
            elif t.get("caption") and (not solid or i > solid[-1]) and any(x["k"] == "caption" for x in rec["lines"][i + 1:] + rec["lines"][:i]):
                ln["k"] = "caption"
    rec["cells"] = list(src.values())
    if drift:
        rec["_drift"] = drift
    return rec


def render_text(t, W):
    try:
        t = fixup(_clone(t))
        console, options = make_console(t, W)
        return "".join(seg.text for seg in console.render(build(t, tags=False), options) if not seg.is_control)
    except Exception as e:
        return "raised %s" % type(e).__name__


# ---- widths to render at --------------------------------------------------------------------------------
def widths_for(t, rng, n):
    m = max(1, t["w"] or minw_py(t))
    cand = [m, m + 1, m + 2, m + 3, m + 5, m + 8, m + rng.randint(9, 40), 80, 200, rng.randint(m, 200) if m <= 200 else m]
    if t["w"]:
        cand.append(max(1, minw_py(t)))      # a W below Table.width: outside
    out = []
    for w in cand:
        if 1 <= w <= 200 and w not in out:
            out.append(w)
    if len(out) > n:
        out = out[:4] + sorted(rng.sample(out[4:], n - 4))
    return out


def _zero_width_only_column(t):
    """a fold column whose shown cells all measure 0 cells wide although one of them holds a (zero-width) character"""
    from rich.cells import cell_len
    for j, c in enumerate(t["cols"]):
        if c["ov"] != "fold" or c["nw"]:
            continue
        cells = [row[j] for _, row in shown_grid(t)]
        if cells and all(x is None or (x["k"] in ("str", "text") and max(cell_len(l) for l in x["s"].split("\n")) == 0) for x in cells) \
                and any(x is not None and x["s"].strip() for x in cells):
            return True
    return False


def held_back(t):
    """recipes that are in the property's domain but are NOT rendered for the time being.
    TODO(audit-1): an expanding table whose LAST flexible column has an explicit ratio of 0 (after at least one column with a
    positive ratio) renders one cell wider than the available width near the structural minimum: ratio_distribute hands the
    zero-ratio slot `max(0, remainder)` = 0 instead of its minimum, _collapse_widths fits the rest into the width and the
    re-measure turns the 0 into 1.  Genuine defect of the tree (witness + one-line patch: audit_artifacts/c07/witness_zero_ratio.py,
    zero-ratio-minimum.diff), signature `expand:wider opts=...col.zero-ratio...`; until it is fixed or recorded as a known
    finding these recipes stay out so that the check is quiet on the unchanged tree (C07_ZERO_RATIO_LAST=1 lets them in).
    Zero ratios before the last positive one, and tables whose ratios are all zero, ARE generated."""
    # TODO(audit-1): a fold column whose every shown cell is zero cells wide but not empty (a lone combining character): the
    # column measures as padding + 0, gets no content cell at any available width, and the character is not printed at all.
    # Genuine (marginal) defect of the tree - it used to hide under the starved-column clause (the column is below padding +
    # one cell), but no solver step squeezed it; signature `cell:missing-in-column-narrower-than-its-peers ...zero-width-cell`;
    # witness audit_artifacts/c07/witness_zero_width_column.py.  (C07_ZERO_WIDTH_COLUMN=1 lets these recipes in.)  Zero-width-only
    # cells next to a cell of positive width in the same column ARE generated.
    if os.environ.get("C07_ZERO_WIDTH_COLUMN") != "1" and _zero_width_only_column(t):
        return "zero-width-only column"
    if not (t["ex"] or t["w"]):
        return False
    flex = [c["ratio"] for c in t["cols"] if c["ratio"] >= 0]
    if any(flex) and flex[-1] == 0 and os.environ.get("C07_ZERO_RATIO_LAST") != "1":
        return "zero ratio last"
    # TODO(audit-1): an expanding table that shows NO row at all (no rows, header and footer hidden) and has a no_wrap column
    # next to another column renders one cell wider than the available width: a column without cells measures as
    # (1, max_width), the no_wrap column may not shrink, the other one is collapsed to 0 and the re-measure turns the 0 into 1.
    # Genuine defect of the tree, older than this audit (the generator reached it about once in a thousand recipes; the
    # signature is `expand:wider opts=col.nw,ex,sh`); witness + one-line patch: audit_artifacts/c07/witness_empty_nowrap.py,
    # empty-column-measure.diff.  Held back like the one above (C07_EMPTY_NOWRAP=1 lets these recipes in).
    if not shown_grid(t) and t["nc"] >= 2 and any(c["nw"] for c in t["cols"]) and os.environ.get("C07_EMPTY_NOWRAP") != "1":
        return "no shown row, no_wrap column"
    return False


def boundary_widths(t, thorough=False, sweep=False):
    """hand-listed recipes: at the structural minimum, just above it, and with room to spare"""
    m = max(1, t["w"] or minw_py(t))
    if sweep:
        return [m + k for k in range(0, 40 if thorough else 28, 1 if thorough else 2)]
    ws = [m, m + 1, m + 2, m + 3, m + 6, m + 19, 80] if thorough else [m, m + 1, m + 3, m + 19]
    if t["w"]:
        ws = [m, m + 4] + ([m + 30] if thorough else [])
    return [w for w in dict.fromkeys(ws) if w <= 200]


def _work(arg):
    t, ws = arg
    return [project(t, W) for W in ws]


def produce(jobs, nproc=None):
    nproc = nproc or min(8, os.cpu_count() or 2)
    if len(jobs) < 16 or nproc <= 1:
        return [_work(j) for j in jobs]
    import multiprocessing as mp
    with mp.get_context("fork").Pool(nproc) as pool:
        return pool.map(_work, jobs, chunksize=max(1, len(jobs) // (nproc * 8)))


# ---- verdicts -------------------------------------------------------------------------------------------
_V = re.compile(r"^(\S+) (-?\d+) m=(-?\d+)(?: d=(\w))?$")


def parse_verdict(v):
    m = _V.match(v)
    if not m:
        return v, 0, None, None
    return m.group(1), int(m.group(2)), int(m.group(3)), m.group(4)


DEFAULTS = dict(box="HEAVY_HEAD", edge=True, sh=True, sf=False, sl=False, lead=0, pad=[0, 1], pe=True, cp=False, ex=False, w=0, minw=0,
                title=None, caption=None, style="", ctor=False, row_styles=None, mk="kw", sb=None, sobj=False, con=None,
                tjus="center", cjus="center")
COL_DEFAULTS = dict(jus="left", ov="ellipsis", ratio=-1, w=0, minw=0, maxw=0, nw=False, how="add", at=0)


def _cell_text(x):
    return x.get("s", "") + x.get("a", "") + x.get("b", "")


def features(t):
    """names of the options that differ from the constructor defaults (+ content features): the shape of a recipe"""
    f = set()
    for k, d in DEFAULTS.items():
        if t.get(k, d) != d:
            if k == "con":
                f.update("con." + x for x in t["con"] if x != "cw")
            elif k == "mk":
                f.add("grid")
            elif k in ("tjus", "cjus"):
                if t.get("title" if k == "tjus" else "caption"):
                    f.add(k)
            else:
                f.add(k if k != "box" else ("box=None" if t["box"] is None else "box"))
    if t.get("prior"):
        f.add("rendered-before:" + "+".join(sorted(t["prior"]["set"])))
    for c in t["cols"]:
        for k, d in COL_DEFAULTS.items():
            if c.get(k, d) != d:
                if k == "ov" and c[k] == "fold":
                    continue                      # fold is the overflow the statement makes demands about: the baseline here
                if k == "at":
                    f.add("order=late-column")    # add_column() after add_row()
                    continue
                f.add("col." + k + ("=" + c[k] if k in ("ov", "how") else ""))
        if c.get("ratio") == 0:
            f.add("col.zero-ratio")
    cells = [x for _, row in shown_grid(t) for x in row if x is not None]
    if any(x["k"] == "panel" for x in cells):
        f.add("nested-panel")
    if any(x["k"] == "table" for x in cells):
        f.add("nested-table")
    if any(_wide(x.get("s", "") + x.get("a", "") + x.get("b", "")) for x in cells):
        f.add("wide-chars")
    if any("\n" in x.get("s", "") for x in cells):
        f.add("multi-line")
    if any("\t" in _cell_text(x) for x in cells):
        f.add("tabs")
    if any(_cell_text(x) and _cell_text(x).isspace() for x in cells):
        f.add("blank-cell")
    if any(_cell_text(x) and all(_DECODE.get(ch) is not None and ch in alpha(_DECODE[ch])["z"] for ch in _cell_text(x)) for x in cells):
        f.add("zero-width-cell")
    if any(k in x for x in cells for k in ("tj", "tov", "tnw")):
        f.add("text-opts")
    if any(r.get("end") for r in t["rows"]):
        f.add("end_section")
    if any(len(r["cells"]) < t["nc"] for r in t["rows"]):
        f.add("short-row")
    return f


def size(t):
    return (t["nc"] * (t["nr"] + 2) * 10 + sum(len(x.get("s", "") + x.get("a", "") + x.get("b", "")) for _, row in shown_grid(t) for x in row if x)
            + 5 * len(features(t)))


def _clone(t):
    return json.loads(json.dumps(t))


def _cell_slots(n):
    """every place that holds a cell recipe: (holder, key)"""
    for c in n["cols"]:
        yield c, "hdr"
        yield c, "ftr"
    for r in n["rows"]:
        for i in range(len(r["cells"])):
            yield r["cells"], i


def reduction_ops(t, phase):
    """single-step simplifications of a recipe, as (label, function mutating a clone).  Operations of one phase
    commute (structure drops are applied in descending index order), so a round can also try them all at once."""
    ops = []
    if phase == "options":
        for k, d in DEFAULTS.items():
            if t.get(k, d) != d:
                ops.append(("%s->default" % k, lambda n, k=k, d=d: n.__setitem__(k, d)))
        if t["box"] not in (None, "HEAVY_HEAD", "ASCII"):
            ops.append(("box->ASCII", lambda n: n.__setitem__("box", "ASCII")))
        if isinstance(t["pad"], list) and len(t["pad"]) == 4:
            ops.append(("pad->horizontal", lambda n: n.__setitem__("pad", [0, n["pad"][1], 0, n["pad"][3]]) if isinstance(n["pad"], list) and len(n["pad"]) == 4 else None))
        if isinstance(t["pad"], int) and t["pad"] > 0:
            ops.append(("pad->(0,n)", lambda n: n.__setitem__("pad", [0, n["pad"]]) if isinstance(n["pad"], int) else None))
        if t["lead"] > 1:
            ops.append(("lead-1", lambda n: n.__setitem__("lead", max(1, n["lead"] - 1))))
        for j in range(t["nc"]):
            for k, d in COL_DEFAULTS.items():
                if k != "ov" and t["cols"][j].get(k, d) != d:
                    ops.append(("col%d.%s->default" % (j, k), lambda n, j=j, k=k, d=d: n["cols"][j].__setitem__(k, d)))
            if t["cols"][j]["ov"] != "fold":
                ops.append(("col%d.ov->fold" % j, lambda n, j=j: n["cols"][j].__setitem__("ov", "fold")))
        for i, r in enumerate(t["rows"]):
            if r.get("end") or r.get("style"):
                ops.append(("row%d plain" % i, lambda n, i=i: n["rows"][i].update(end=False, style=None)))
    elif phase == "structure":
        for i in reversed(range(t["nr"])):
            def drop_row(n, i=i):
                del n["rows"][i]
                n["nr"] -= 1
                for c in n["cols"]:
                    if c.get("at", 0) > i:
                        c["at"] -= 1
            ops.append(("drop row %d" % i, drop_row))
        if t["nc"] > 1:
            for j in reversed(range(t["nc"])):
                def drop_col(n, j=j):
                    if n["nc"] <= 1:
                        return
                    del n["cols"][j]
                    for r in n["rows"]:
                        if len(r["cells"]) > j:
                            del r["cells"][j]
                    n["nc"] -= 1
                ops.append(("drop col %d" % j, drop_col))
    else:
        for idx, (holder, key) in enumerate(_cell_slots(t)):
            x = holder[key]
            if x is None:
                continue
            if x["k"] in ("panel", "table"):
                def flat(n, idx=idx):
                    h, k = list(_cell_slots(n))[idx]
                    y = h[k]
                    h[k] = dict(k="text", s=y.get("s", (y.get("a", "") + " " + y.get("b", "")).strip()))
                ops.append(("cell%d flat" % idx, flat))
            if any(k in x for k in ("tj", "tov", "tnw")):
                def plain(n, idx=idx):
                    h, k = list(_cell_slots(n))[idx]
                    for f in ("tj", "tov", "tnw"):
                        h[k].pop(f, None)
                ops.append(("cell%d no text options" % idx, plain))
            s = x.get("s")
            if s:
                if len(s) > 1:
                    def shorten(n, idx=idx):
                        h, k = list(_cell_slots(n))[idx]
                        h[k]["s"] = h[k]["s"][:max(1, len(h[k]["s"]) // 2)]
                    ops.append(("cell%d half" % idx, shorten))

                    def last_half(n, idx=idx):
                        h, k = list(_cell_slots(n))[idx]
                        h[k]["s"] = h[k]["s"][len(h[k]["s"]) // 2:]
                    ops.append(("cell%d tail" % idx, last_half))
                else:
                    def empty(n, idx=idx):
                        h, k = list(_cell_slots(n))[idx]
                        h[k]["s"] = ""
                    ops.append(("cell%d empty" % idx, empty))
    return ops


def apply_ops(t, ops):
    n = _clone(t)
    for _, fn in ops:
        try:
            fn(n)
        except Exception:
            return None
    rekey(n)
    fixup(n)
    if t["w"]:
        n["w"] = 0
        n["w"] = max(1, minw_py(n) + t["w"] - minw_py(dict(t, w=0)))       # Table.width keeps its distance from the minimum
    return n


def width_candidates(t, W):
    m = max(1, t["w"] or minw_py(t))
    return [w for w in dict.fromkeys((m, m + 1, (W + m) // 2, W - 1)) if m <= w < W]


def rekey(t):
    """after dropping rows / columns rewrite every cell in the alphabet of its new position"""
    def move(cell, k):
        if cell is None:
            return
        for f in ("s", "a", "b"):
            if f in cell:
                cell[f] = "".join(_rechar(ch, k) for ch in cell[f])
    for c, col in enumerate(t["cols"]):
        move(col["hdr"], cell_key(0, c))
        move(col["ftr"], cell_key(t["nr"] + 1, c))
    for i, r in enumerate(t["rows"]):
        for c, cell in enumerate(r["cells"]):
            move(cell, cell_key(i + 1, c))


def _rechar(ch, k):
    old = _DECODE.get(ch)
    if old is None:
        return ch
    a_old, a_new = alpha(old), alpha(k)
    for cls in ("n", "w", "z"):
        if ch in a_old[cls]:
            return a_new[cls][a_old[cls].index(ch)]
    return ch


def judge_tables(chk, recs, label="M3"):
    payload = [{k: v for k, v in r.items() if not k.startswith("_")} for r in recs]
    verdicts, st = tlc.judge("Trace_Table", payload, tag="c07", chunk_min=60)
    chk.add_tlc(st, label)
    return verdicts


def minimise(chk, t, W, clause, max_rounds=16):
    """delta debugging in phases (options, rows/columns, cell contents, width); every round is ONE TLC batch holding each
    single step, all steps together and the first half of them; the clause stays fixed"""
    def same(t0, W0, cands):
        recs = [project(c, w) for c, w in cands]
        vs = judge_tables(chk, recs, "M3-minimise")
        return [parse_verdict(v)[0] == clause for v in vs]

    def keep_slack(old, new, w):
        """candidate width: same distance from the structural minimum"""
        return max(1, w - max(1, old["w"] or minw_py(old)) + max(1, new["w"] or minw_py(new)))
    cur, curW, rounds = t, W, 0
    for phase in ("options", "structure", "options", "cells", "structure", "cells"):
        while rounds < max_rounds:
            ops = reduction_ops(cur, phase)
            if not ops:
                break
            rounds += 1
            groups = [ops, ops[:len(ops) // 2], ops[len(ops) // 2:]] + [[o] for o in ops]
            cands = []
            for g in groups:
                n = apply_ops(cur, g) if g else None
                if n is None:
                    cands.append(None)
                    continue
                cands.append((n, curW if phase == "options" else keep_slack(cur, n, curW)))
            live = [c for c in cands if c is not None]
            ok = same(cur, curW, live)
            res = dict(zip([id(c) for c in live], ok))
            good = [c for c in cands if c is not None and res[id(c)]]
            if not good:
                break
            if cands[0] is not None and res[id(cands[0])]:
                cur, curW = cands[0]
                break                              # everything of this phase applied at once
            best = min(good, key=lambda cw: (size(cw[0]), cw[1]))
            cur, curW = best
    ws = width_candidates(cur, curW)
    if ws and rounds < max_rounds + 2:
        ok = same(cur, curW, [(cur, w) for w in ws])
        for w, o in zip(ws, ok):
            if o:
                curW = w
                break
    return cur, curW


def table_signature(clause, t, W):
    m = max(1, t["w"] or minw_py(t))
    slack = W - m
    return "%s opts=%s slack=%s" % (clause, ",".join(sorted(features(t))) or "-", "0" if slack == 0 else "1-9" if slack < 10 else "10+")


# ---- M1 / M2 for the ratio arithmetic -------------------------------------------------------------------
def _ratio_call(fn, total, rs, bs, off):
    from rich._ratio import ratio_distribute, ratio_reduce
    from rich.table import Table
    if fn == "dist":
        return ratio_distribute(total, list(rs), list(bs))
    if fn == "distn":
        return ratio_distribute(total, list(rs))
    if fn == "red":
        return ratio_reduce(total, list(rs), list(bs), list(bs))
    if fn == "redv":
        return ratio_reduce(total, list(rs), list(bs), [b + off for b in bs])
    return Table._collapse_widths(list(bs), [r == 1 for r in rs], total)


def _ratio_grid(arg):
    """packed real results of one (fn, total, n) block, in the mixed-radix order MC_Ratio!IndexFrom expects"""
    fn, total, n, MR, MB, off = arg
    if fn == "distn":
        codes = [(r, 0) for r in range(MR + 1)]
    elif fn == "col":
        codes = [(r, b) for r in range(2) for b in range(MB + 1)]
    else:
        codes = [(r, b) for r in range(MR + 1) for b in range(MB + 1)]
    out = []
    for sl in itertools.product(codes, repeat=n):
        rs = [s[0] for s in sl]
        bs = [s[1] for s in sl]
        chk = (total + sum((i + 1) * (7 * r + b + 1) for i, (r, b) in enumerate(sl))) % 61
        try:
            o = _ratio_call(fn, total, rs, bs, off)
            if not isinstance(o, list) or len(o) != n or any((not isinstance(x, int)) or x < -31 or x > 30 for x in o):
                digits = [63] * n
            else:
                digits = [x + 32 for x in o]
        except Exception:
            digits = [0] * n
        e = chk
        for d in reversed(digits):
            e = e * 64 + d
        out.append(e)
    return out


def _witness(out, inv):
    """the state TLC printed for the violated invariant `inv`"""
    i = out.find("Invariant %s is violated" % inv)
    seg = out[i:i + 4000] if i >= 0 else ""
    seg = seg[seg.rfind("State "):] if "State " in seg else seg
    w = dict(fn=None, total=None, slots=[], v="")
    m = re.search(r'fn = "(\w+)"', seg)
    w["fn"] = m.group(1) if m else None
    m = re.search(r"total = (-?\d+)", seg)
    w["total"] = int(m.group(1)) if m else None
    m = re.search(r"slots = (<<.*?>>)\s*(/\\|$)", seg, re.S)
    if m:
        w["slots"] = [(int(a), int(b)) for a, b in re.findall(r"\[r \|-> (-?\d+), b \|-> (-?\d+)\]", m.group(1))]
        if not w["slots"]:
            w["slots"] = [(int(b), int(a)) for a, b in re.findall(r"\[b \|-> (-?\d+), r \|-> (-?\d+)\]", m.group(1))]
    m = re.search(r"v = (\[.*?\])", seg, re.S)
    w["v"] = re.sub(r"\s+", " ", m.group(1)) if m else ""
    return w


def ratio_record(fn, total, rs, bs, off=3):
    vals = [b + (off if fn == "redv" else 0) for b in bs]
    rec = dict(kind="ratio", fn=fn, total=total, rs=list(rs), bs=list(bs), vals=vals, wrap=[r == 1 for r in rs], out=[], raised=False)
    try:
        o = _ratio_call(fn, total, rs, bs, off)
        rec["out"] = [int(x) for x in o]
    except Exception as e:
        rec["raised"] = True
        rec["exc"] = type(e).__name__
    return rec


RATIO_CFG = """CONSTANTS
  MaxSlots = %d
  MaxRatio = %d
  MaxBound = %d
  TotalLo = %d
  TotalHi = %d
  ValueOffset = 3
  Fns = {%s}
SPECIFICATION Spec
INVARIANT Aligned
%s
CHECK_DEADLOCK FALSE
"""
_INV_ALL = "INVARIANT RealOK\nINVARIANT RealAgrees\nINVARIANT DesignOK"
_INV_REAL = "INVARIANT RealOK"


def background_m1(chk, result):
    """M1 (ratio grid vs the real functions, table relation) runs in a thread next to the table part"""
    try:
        _ratio_m1(chk, result)
        table_m1(chk, result)
    except BaseException as e:  # re-raised by the main thread
        result["error"] = e


def _ratio_m1(chk, result):
    import multiprocessing as mp
    # (label, fns, MaxSlots, MaxRatio, MaxBound, totals split into chunks of `step`, workers)
    if chk.thorough:
        plans = [("all<=3", ["dist", "distn", "red", "redv", "col"], 3, 3, 6, 0, 14, 15, 6),
                 ("dist=4 (ratios 0..2)", ["dist"], 4, 2, 6, 0, 14, 3, 3),
                 ("red,col=4(ratios 0..1)", ["red", "redv", "col"], 4, 1, 6, 0, 14, 5, 3)]
    else:
        plans = [("all<=3 small", ["dist", "distn", "red", "redv", "col"], 3, 2, 4, 0, 14, 15, 6),
                 ("all<=2", ["dist", "distn", "red", "redv", "col"], 2, 3, 6, 0, 14, 15, 3)]
    runs = []
    for label, fns, ms, mr, mb, lo, hi, step, workers in plans:
        for a in range(lo, hi + 1, step):
            runs.append((label, fns, ms, mr, mb, a, min(hi, a + step - 1), workers))
    wd = tlc.workdir("c07ratio")
    findings, stats = [], dict(states=0, instances=0, runs=0)
    pool = mp.get_context("fork").Pool(min(6, os.cpu_count() or 2))

    def one(run):
        label, fns, ms, mr, mb, a, b, workers = run
        args = [(fn, t, n, mr, mb, 3) for fn in fns for t in range(a, b + 1) for n in range(1, ms + 1)]
        blocks = pool.map(_ratio_grid, args, chunksize=1)
        real = {fn: [[None] * ms for _ in range(a, b + 1)] for fn in fns}
        ninst = 0
        for (fn, t, n, _, _, _), blk in zip(args, blocks):
            real[fn][t - a][n - 1] = blk
            ninst += len(blk)
        path = os.path.join(wd, "real-%s-%d-%d-%d.json" % ("".join(f[0] + f[-1] for f in fns), ms, mr, a))
        with open(path, "w") as f:
            json.dump(real, f, separators=(",", ":"))
        fnset = ", ".join('"%s"' % f for f in fns)
        cfg = RATIO_CFG % (ms, mr, mb, a, b, fnset, _INV_ALL)
        r = tlc.run("MC_Ratio", wd=wd, cfg_text=cfg, env={"TRACE_FILE": path}, workers=workers, coverage=(ms <= 2), heap="6g",
                    timeout=3000, tag="c07ratio")
        out = [(run, r, ninst, ms <= 2)]
        if r.violated and set(r.violated) <= {"RealAgrees", "DesignOK"}:
            # drift (or a flaw of the transcription) stopped the search: look for broken promises of the real code alone
            r2 = tlc.run("MC_Ratio", wd=wd, cfg_text=RATIO_CFG % (ms, mr, mb, a, b, fnset, _INV_REAL), env={"TRACE_FILE": path},
                         workers=workers, heap="6g", timeout=3000, tag="c07ratio")
            out.append((run, r2, 0, False))
        os.remove(path)
        return out

    try:
        from concurrent.futures import ThreadPoolExecutor
        with ThreadPoolExecutor(3) as ex:
            for outs in ex.map(one, runs):
                for run, r, ninst, want_cov in outs:
                    result.setdefault("tlc", []).append(r)      # accounted by the main thread
                    stats["states"] += r.distinct
                    stats["instances"] += ninst
                    stats["runs"] += 1
                    if not r.finished and not r.violated:
                        raise tlc.TLCFailure("MC_Ratio %s did not finish\n%s" % (run[0], r.out[-2000:]))
                    if want_cov and r.rc == 0 and not r.violated:
                        cov = r.coverage()
                        need = {"dist": "AddDistSlot", "distn": "AddDistNSlot", "red": "AddReduceSlot", "col": "AddColumn"}
                        never = [need[f] for f in run[1] if f in need and cov.get(need[f], (0, 0))[1] == 0]
                        if never:
                            raise tlc.TLCFailure("MC_Ratio: actions never fired: %s" % never)
                        result["coverage"] = {k: v[1] for k, v in cov.items()}
                    for inv in r.violated:
                        w = _witness(r.out, inv)
                        if inv == "Aligned":
                            raise tlc.TLCFailure("MC_Ratio: driver grid and model grid are misaligned at %s" % w)
                        findings.append((inv, run[0], w))
    finally:
        pool.terminate()
        tlc.cleanup(wd)
    result["findings"] = findings
    result["stats"] = stats
    result["plans"] = [p[0] for p in plans]


def _rand_ratio(rng):
    """small ratios, and now and then percent-like ones (ratio=40 / ratio=60 is how people split a width)"""
    return rng.randint(0, 5) if rng.random() < 0.85 else rng.choice([7, 10, 25, 33, 40, 60, 100])


def ratio_random(rng, n):
    """real calls at table-like magnitudes (totals <= 250, <= 6 slots) for Trace_Table"""
    recs = []
    for _ in range(n):
        fn = rng.choice(["dist", "distn", "red", "redv", "col"])
        k = rng.randint(1, 6)
        total = rng.choice([rng.randint(0, 20), rng.randint(0, 250)])
        if fn == "col":
            rs = [1 if rng.random() < 0.75 else 0 for _ in range(k)]
            bs = [rng.randint(0, 80) for _ in range(k)]
        elif fn == "distn":
            rs = [_rand_ratio(rng) for _ in range(k)]
            bs = [0] * k
        else:
            rs = [_rand_ratio(rng) for _ in range(k)]
            bs = [rng.choice([0, rng.randint(1, 6), rng.randint(1, 60)]) for _ in range(k)]
        recs.append(ratio_record(fn, total, rs, bs))
    return recs


# ---- M1 / M2 for the table relation ----------------------------------------------------------------------
MC_TABLE_CFG = """CONSTANTS
  MaxCols = %d
  MaxRows = %d
  Mode = "%s"
SPECIFICATION Spec
%s
CHECK_DEADLOCK FALSE
"""


def table_m1(chk, result):
    """M1 for the relation: ideal renders accepted, corrupted ones rejected (runs in the background thread)"""
    rows = chk.pick(1, 2)
    # (-coverage makes TLC run out of memory on this module; the depth of the state graph shows that every builder action fired)
    r, cov, missing = tlc.model_check("MC_Table", cfg_text=MC_TABLE_CFG % (2, rows, "check", "INVARIANT IdealAccepted\nINVARIANT CorruptionsRejected\nINVARIANT MinLaw"),
                                      coverage=False, workers=chk.pick(4, 8), tag="c07mc")
    result["table_m1"] = r
    if r.violated or not r.finished or r.diameter < 3 + rows:
        raise tlc.TLCFailure("MC_Table: violated=%s finished=%s depth=%s\n%s" % (r.violated, r.finished, r.diameter, r.out[-3000:]))
    result["table_m1_note"] = dict(states=r.distinct, depth=r.diameter, max_cols=2, max_rows=rows)


def table_m2(chk):
    """M2: recipes (random builder histories over the full option sets) for the real code"""
    behs, r2 = tlc.behaviours("MC_Table", cfg_text=MC_TABLE_CFG % (4, 3, "emit", "CONSTRAINT Emit"), tag="c07gen",
                              simulate="num=%d" % chk.pick(140, 1800), depth=12, seed=chk.seed + 7)
    chk.add_tlc(r2, "M2")
    if not behs:
        raise tlc.TLCFailure("MC_Table emitted no recipes\n%s" % r2.out[-2000:])
    return [b["beh"] for b in behs]


def complete(opt, rng):
    """TLC-generated option combination -> full recipe with self-identifying contents"""
    nc, nr = opt["nc"], opt["nr"]
    t = dict(DEFAULTS)
    t.update(nc=nc, nr=nr, box=opt["box"] if opt["box"] != "none" else None, edge=opt["edge"], sh=opt["sh"], sf=opt["sf"], sl=opt["sl"],
             lead=opt["lead"], pad=[0, opt["px"]], pe=opt["pe"], cp=opt["cp"], ex=opt["ex"], w=0, minw=0)
    t["cols"] = []
    for c in range(nc):
        o = opt["cols"][c]
        t["cols"].append(dict(jus="left", ov=o["ov"], ratio=o["ratio"], w=0, minw=0, maxw=o["maxw"], nw=False, how="add", at=o.get("at", 0),
                              hdr=dict(k="str", s=rand_words(rng, cell_key(0, c), maxwords=2, empty_p=0)),
                              ftr=dict(k="str", s=rand_words(rng, cell_key(nr + 1, c), maxwords=2, empty_p=0))))
    t["rows"] = [dict(cells=[dict(k="str", s=rand_words(rng, cell_key(i + 1, c), empty_p=0)) for c in range(nc)], end=bool(opt["ends"][i]), style=None)
                 for i in range(nr)]
    return fixup(t)


# ---- the check ---------------------------------------------------------------------------------------------
def run(chk: Check):
    chk.rule = ("ratio arithmetic: every instance of the grid (totals 0..14, slots/ratios/bounds per tier, see notes) is a model state AND "
                "a call of the real function; tables: option combinations enumerated by TLC (MC_Table), seeded random recipes "
                "(1..6 columns, 0..8 rows, every table / column option of the quantifier incl. explicit zero ratios, padding as int / 1- / 2- / "
                "4-tuple, Table.grid(), safe_box, columns created by add_column / Column objects / header strings / add_row with extra cells, "
                "cells that are str / Text with options of its own / None / nested, contents multi-line / wide / zero-width / blank / with tabs; the "
                "width handed over by the console or by the options only, console-wide justify / overflow / no_wrap, legacy_windows, "
                "ascii_only) and a fixed hand-written list of corner recipes, each rendered at widths from the structural minimum to 200; width solver: every instance MC_TableSolver emits "
                "(<=3 columns, content 1..2 / <=6, paddings incl. pad_edge / collapse_padding, ratios, min_width, per tier see notes) is a "
                "call of the real Table._calculate_column_widths at 5..7 available widths from the structural minimum, compared by TLC "
                "with the transcription (DRIFT only).  evaluation = one (recipe, W) record, one ratio call or one solver call; "
                "non-trivial = in scope (W >= TableMin, options not contradictory)")
    chk.trusted = ["drivers/c07.py:project (segments -> lines -> runs: a character is attributed by the alphabet it belongs to, a blank / "
                   "box character by the colour tag of its segment; widths by rich.cells of the tree under test - C13's subject)",
                   "drivers/c07.py:build (recipe -> constructor calls)", "drivers/c07.py:_ratio_grid (enumeration order; checked by MC_Ratio!Aligned)",
                   "drivers/c07_solver.py:real_widths (instance -> Table(box=None) with one row of Text cells of the given content widths; "
                   "the structural minimum TLC printed is recomputed by Trace_TableSolver)"]
    chk.assumptions = ["Console(color_system=None): console.render() yields segments, the colour system never takes part", "style tags (border_style, column styles, title/caption style) do not influence layout",
                       "structural minimum and scope as documented in specs/Table.tla; title / caption lines are not body lines",
                       "Table.width given: exact body width is not demanded (DRIFT note only)"]
    bad = check_alphabets()
    if bad:
        chk.drift_note("cell-width table of the tree under test changes the width of %d generator characters; structural minima of the generated tables are no longer meaningful" % len(bad))
    if chk.replay_only:
        case = chk.replay_only["case"]
        if case.get("kind") == "ratio":
            rec = ratio_record(case["fn"], case["total"], case["rs"], case["bs"])
            vs = judge_tables(chk, [rec])
            chk.traces += 1
            chk.case(case, True)
            if vs[0] != "ok" and not vs[0].startswith("drift"):
                chk.reject(ratio_signature(vs[0], case), vs[0], case)
            return
        rec = project(case["recipe"], case["W"])
        vs = judge_tables(chk, [rec])
        chk.traces += 1
        clause, idx, m, d = parse_verdict(vs[0])
        chk.case(case, clause != "outside")
        print("replay verdict: %s\n%s" % (vs[0], render_text(case["recipe"], case["W"])))
        if clause not in ("ok", "outside"):
            chk.reject(table_signature(clause, case["recipe"], case["W"]), vs[0], case)
        return

    # M1 (ratio) and the solver part (design level + conformance of the transcription) in the background
    from drivers import c07_solver
    ratio_result, solver_result = {}, {}
    th = threading.Thread(target=background_m1, args=(chk, ratio_result))
    th2 = threading.Thread(target=c07_solver.background, args=(chk, solver_result))
    th.start()
    th2.start()
    try:
        table_part(chk)
    finally:
        th.join()
        th2.join()
    chk.mark("M1 ratio + table relation + solver part (overlapped, remainder)")
    if "error" in ratio_result:
        raise ratio_result["error"]
    c07_solver.account(chk, solver_result)
    for r in ratio_result.get("tlc", []) + [ratio_result["table_m1"]]:
        chk.add_tlc(r, "M1")
    chk.notes["m1_table"] = ratio_result["table_m1_note"]
    chk.notes["m1_ratio"] = dict(plans=ratio_result.get("plans"), **ratio_result.get("stats", {}))
    chk.notes["m1_ratio_action_coverage"] = ratio_result.get("coverage")
    chk.traces += ratio_result.get("stats", {}).get("instances", 0)
    chk.evaluations += ratio_result.get("stats", {}).get("instances", 0)
    for inv, label, w in ratio_result.get("findings", []):
        case = dict(kind="ratio", fn=w["fn"], total=w["total"], rs=[s[0] for s in w["slots"]], bs=[s[1] for s in w["slots"]])
        if inv == "RealOK":
            m = re.search(r'real \|-> "([^"]*)"', w["v"])
            clause = m.group(1) if m else "?"
            chk.reject(ratio_signature("ratio:%s %s" % (w["fn"], clause), case), "MC_Ratio %s: %s" % (label, w), case)
        elif inv == "RealAgrees":
            chk.drift_note("%s(total=%s, slots(ratio,bound)=%s) differs from the transcription in Ratio.tla (promised properties still hold)" % (w["fn"], w["total"], w["slots"]))
        else:
            raise tlc.TLCFailure("MC_Ratio: the transcription itself breaks %s at %s" % (inv, w))


def ratio_signature(verdict, case):
    return verdict


def handle_table_verdicts(chk, index, recs, tv, budget):
    # tables
    counts, failing, excs, slack_hist = {}, [], {}, {}
    minw_mismatch = 0
    for (origin, t, W), rec, v in zip(index, recs, tv):
        clause, idx, m, d = parse_verdict(v)
        counts[clause] = counts.get(clause, 0) + 1
        chk.case((t, W), clause != "outside")
        if rec["exc"] != "none":
            excs[rec["exc"]] = excs.get(rec["exc"], 0) + 1
        if m is not None and m != minw_py(t):
            minw_mismatch += 1
        if m is None:
            raise tlc.TLCFailure("Trace_Table gave no verdict for a record: %r" % v)
        if d == "w":
            counts["drift:width-option"] = counts.get("drift:width-option", 0) + 1
        elif d == "a":
            counts["drift:annotation"] = counts.get("drift:annotation", 0) + 1
        elif d == "p":
            counts["drift:padding"] = counts.get("drift:padding", 0) + 1
        if clause not in ("ok", "outside"):
            failing.append((clause, t, W, v))
            h = slack_hist.setdefault(clause, {})
            sl = W - (t["w"] or m)
            key = str(sl) if sl < 5 else "5-9" if sl < 10 else "10-19" if sl < 20 else "20+"
            h[key] = h.get(key, 0) + 1
    chk.notes["verdict_counts"] = counts
    if slack_hist:
        chk.notes["rejections_by_distance_from_structural_minimum"] = slack_hist
    if excs:
        chk.notes["exceptions_while_rendering"] = excs
    if minw_mismatch:
        chk.drift_note("driver: minw_py differs from Table!TableMin on %d records (only the choice of widths is affected)" % minw_mismatch)
    if counts.get("drift:width-option"):
        chk.drift_note("Table(width=n) did not render a body exactly n wide in %d records (statement silent: not demanded)" % counts["drift:width-option"])
    if counts.get("drift:padding"):
        chk.drift_note("cell characters inside the padding the options ask for in %d records (statement speaks of the column's span only)" % counts["drift:padding"])
    if counts.get("drift:annotation"):
        chk.drift_note("title / caption line wider than the body or misplaced in %d records (statement speaks of the body only)" % counts["drift:annotation"])
    # group the rejections: smallest case of a clause is minimised; members whose options include the minimal
    # case's options are explained by it, the rest form the next group
    groups = []
    by_clause = {}
    failing = explained_by_option(chk, failing)
    for f in failing:
        # an open known finding that covers the whole clause (its signature matches whatever the options are): no
        # witness has to be minimised to decide the match
        if any(x.get("status") == "open" and re.search(x["signature"], f[0] + " opts=- slack=0") for x in chk._findings):
            chk.reject(table_signature(f[0], f[1], f[2]), f[3], dict(kind="table", recipe=f[1], W=f[2], verdict=f[0]))
            continue
        by_clause.setdefault(f[0], []).append(f)
    share = max(1, budget // max(1, len(by_clause)))        # every clause gets its share of the minimisation budget
    for clause, members in sorted(by_clause.items(), key=lambda kv: len(kv[1])):
        rest = sorted(members, key=lambda f: (size(f[1]), f[2]))
        mine = share
        while rest and budget > 0 and mine > 0:
            budget -= 1
            mine -= 1
            _, t, W, v = rest[0]
            mt, mW = minimise(chk, t, W, clause)
            feats = features(mt)
            explained = [f for f in rest if feats <= features(f[1])]
            if rest[0] not in explained:
                explained.append(rest[0])
            rest = [f for f in rest if f not in explained]
            groups.append((clause, mt, mW, len(explained)))
        for _, t, W, v in rest[:3]:        # budget exhausted: report unminimised
            groups.append((clause, t, W, 1))
    chk.mark("minimise")
    for clause, t, W, n in groups:
        rec = project(t, W)
        sig = table_signature(clause, t, W)
        detail = "%s; %d rejected record(s) of this shape; minimal witness at W=%d:\n%s" % (clause, n, W, render_text(t, W))
        chk.reject(sig, detail, dict(kind="table", recipe=t, W=W, verdict=clause))


# open findings whose signature names the option that causes them: (clause, feature, the recipe without that option)
def _without_col_minw(t):
    n = _clone(t)
    for c in n["cols"]:
        c["minw"] = 0
    return n


OPTION_FINDINGS = [("expand:wider", "col.minw", _without_col_minw)]


def explained_by_option(chk, failing):
    """A rejection whose clause an open finding attributes to ONE option (expand:wider <- Column.min_width) is re-judged, in one
    batch for all of them, on the same recipe WITHOUT that option at the same width (the structural minimum only gets
    smaller): when the rejection goes away the option is necessary for it and the record is reported under its full option
    list (which names the option, so the finding's signature matches); when it stays, something else is wrong and the record
    takes the ordinary way - minimisation, a signature of its own."""
    rest, cand = [], []
    for f in failing:
        hit = [o for o in OPTION_FINDINGS if o[0] == f[0] and o[1] in features(f[1])]
        if hit:
            cand.append((f, hit[0]))
        else:
            rest.append(f)
    if not cand:
        return rest
    vs = judge_tables(chk, [project(o[2](f[1]), f[2]) for f, o in cand], "M3-minimise")
    explained = 0
    for (f, o), v in zip(cand, vs):
        if parse_verdict(v)[0] == f[0]:
            rest.append(f)
        else:
            explained += 1
            chk.reject(table_signature(f[0], f[1], f[2]), f[3] + " (gone without %s)" % o[1], dict(kind="table", recipe=f[1], W=f[2], verdict=f[0]))
    chk.notes["rejections_explained_by_one_option"] = dict(judged=len(cand), explained=explained)
    return rest


def table_part(chk):
    rng = chk.rng
    recipes = []
    opts = table_m2(chk)
    chk.mark("M2 table")
    n_gen = len(opts)
    keep = chk.pick(100, 1500)
    if len(opts) > keep:
        idx = sorted(rng.sample(range(len(opts)), keep))
        opts = [opts[i] for i in idx]
    for o in opts:
        recipes.append(("tlc", complete(o, rng)))
    for _ in range(chk.pick(240, 3500)):
        recipes.append(("random", gen_table(rng)))
    n_random = len(recipes) - len(opts)
    listed = boundary_recipes()
    for label, t in listed:
        recipes.append(("listed: " + label, t))
    held = {}
    for _, t in recipes:
        why = held_back(t)
        if why:
            held[why] = held.get(why, 0) + 1
    recipes = [(o, t) for o, t in recipes if not held_back(t)]
    chk.notes["recipes"] = dict(tlc_generated=n_gen, tlc_used=len(opts), random=n_random, hand_listed=len(listed), held_back=held)
    per = chk.pick(5, 7)
    jobs = [(t, boundary_widths(t, chk.thorough, origin.endswith(SWEEP)) if origin.startswith("listed") else widths_for(t, rng, per))
            for origin, t in recipes]
    prod = produce(jobs)
    chk.mark("render")
    recs, index = [], []
    for (origin, t), (_, ws), rs in zip(recipes, jobs, prod):
        for W, rec in zip(ws, rs):
            recs.append(rec)
            index.append((origin, t, W))
            if rec.get("_drift"):
                chk.drift_note("rich.cells: " + rec["_drift"])
    ratio_recs = ratio_random(rng, chk.pick(800, 12000))
    verdicts = judge_tables(chk, recs + ratio_recs)
    chk.mark("judge")
    chk.traces += len(recs) + len(ratio_recs)
    tv, rv = verdicts[:len(recs)], verdicts[len(recs):]
    # ratio calls at table magnitudes
    for rec, v in zip(ratio_recs, rv):
        case = dict(kind="ratio", fn=rec["fn"], total=rec["total"], rs=rec["rs"], bs=rec["bs"])
        chk.case(case, True)
        if v.startswith("drift"):
            chk.drift_note("%s(total=%d, ratios=%s, bounds=%s) -> %s differs from the transcription" % (rec["fn"], rec["total"], rec["rs"], rec["bs"], rec["out"]))
        elif v != "ok":
            chk.reject(ratio_signature(v, case), v + " out=%s" % rec["out"], case)
    handle_table_verdicts(chk, index, recs, tv, chk.pick(6, 10))
    for i in (0, len(index) // 2, len(index) - 1):
        origin, t, W = index[i]
        chk.sample(dict(origin=origin, W=W, options=sorted(features(t)), shape="%dx%d" % (t["nc"], t["nr"]), verdict=tv[i],
                        render=render_text(t, W)[:400]))
