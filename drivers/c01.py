"""C01 - rendered output never exceeds the available width.

TLC-generated trees (builder histories of MC_Layout) and seeded random trees (drivers/layout_gen.py) are instantiated
as real Rich renderables and rendered with Console.render (never print: its final crop would mask an overflowing child)
at every W from just below the structural minimum to +12 and on a geometric ladder up to 200; every sub-tree is
additionally rendered stand-alone at the budgets its parent handed down (observed by wrapping Console.render).
TLC (Trace_Layout) computes MinW from the abstract tree and judges Fits for every W >= MinW."""
from engine import tlc
from engine.harness import Check


def sig_extra(word, kv):
    if word == "overflow":
        return "W-m=%d" % (kv.get("W", 0) - kv.get("m", 0))
    return ""


def run(chk: Check):
    from drivers import layout_gen as G
    chk.rule = ("abstract renderable trees (txt, panel, padding, align, constrain, styled, group, table, columns, tree, rule, bar, "
                "progressbar + renderables without __rich_measure__ / cast via __rich__): all builder histories of <= 2 "
                "actions and random histories of <= 9 actions enumerated by TLC, plus seeded random trees of nesting <= 4 over the "
                "option list of the quantifier and contents over ASCII / CJK / emoji / combining / zero-width / newline / tab; each "
                "rendered at every W in MinW-2..MinW+12 and a x1.5 ladder to 200; every sub-tree again stand-alone at the budgets "
                "handed down.  Half of the random trees (a third of TLC's) are rendered under a non-default environment (layout_gen.gen_env): W made "
                "available through ConsoleOptions.update(width= | max_width=) on a wider console, ascii-only encoding, legacy_windows, "
                "safe_box off, colour systems / NO_COLOR (bars), justify / overflow / no_wrap handed in through the options, console tab "
                "size, highlighting off.  Recipe options beyond the layout list: Text spans / base style / tab_size / end, justify "
                "'default', column overflow 'ignore', padding as int / 2-tuple, Panel.fit, Padding.indent, Align.left/center/right, "
                "VerticalCenter, containers.Renderables, Table(*headers | Column objects), Table.grid, short rows / None cells, "
                "end_section on any row, titles as Text, style options, safe_box, up to 6 columns x 8 rows.  "
                "evaluation = one record (tree, all its renders); non-trivial = in scope and at least one W >= MinW judged")
    chk.trusted = ["drivers/layout_gen.py:line_widths (segments -> lines -> rich.cells.cell_len of the tree under test; only the "
                   "distinct widths and the number of lines of a render go to TLC)",
                   "drivers/layout_gen.py:project_text (character -> class, cell width)",
                   "drivers/layout_gen.py:build (abstract tree -> constructor calls)"]
    chk.assumptions = ["default console: Console(color_system=None, legacy_windows=False, utf-8), other environments as listed in the rule; "
                       "highlighting/markup leave widths unchanged (contents avoid '[' and ':')",
                       "Layout.tla C9/C10: overflow='ignore' / no_wrap handed in through the options, and a Text `end` other than the line feed, are in "
                       "scope only beneath a cropping container (like a leaf's own overflow='ignore')",
                       "MinW as documented in specs/Layout.tla (conservative choices C1-C7)",
                       "a rejected record that has a rejected proper sub-tree is attributed to the sub-tree"]
    if chk.replay_only:
        case = chk.replay_only["case"]
        trees = [case["tree"]]
    else:
        trees = G.model_part(chk, tlc)
        n_tlc = len(trees)
        if not chk.thorough and n_tlc > 400:       # quick: all exhaustive small ones are kept up to the cap, deterministic
            keep = sorted(chk.rng.sample(range(n_tlc), 400))
            trees = [trees[i] for i in keep]
        n_tlc_used = len(trees)
        for _ in range(chk.pick(500, 6000)):
            trees.append(G.gen(chk.rng, 4))
        n_rand = len(trees) - n_tlc_used
        trees += G.boundary_trees()         # every kind of renderable x every environment preset (hand-listed, deterministic)
        chk.notes["trees"] = dict(tlc_generated=n_tlc, tlc_used=n_tlc_used, random=n_rand, boundary=len(trees) - n_tlc_used - n_rand)
    prod = G.produce("C01", trees, subs=True, seed=chk.seed)
    items = [it for p in prod for it in p]
    chk.mark("render")
    excs = {}
    for it in items:
        for k, n in it[3].items():
            excs[k] = excs.get(k, 0) + n
    if excs:
        chk.notes["exceptions_while_rendering_(C14's subject)"] = excs
    verdicts = G.judge(chk, tlc, "C01", items)
    chk.mark("judge")
    for (origin, tree, rec, _e), v in zip(items, verdicts):
        word, kv = G.parse_verdict(v)
        chk.case(rec, word == "overflow" or (word == "ok" and kv.get("j", 0) > 0))
    chk.notes["records"] = dict(top=sum(1 for it in items if it[0] == "top"), sub_trees=sum(1 for it in items if it[0] != "top"),
                                renders=sum(len(it[2]["rs"]) for it in items))
    G.handle(chk, tlc, "C01", items, verdicts, sig_extra, cap=chk.pick(24, 80))
    chk.mark("minimise")
    for it, v in list(zip(items, verdicts))[:2] + list(zip(items, verdicts))[-2:]:
        chk.sample(dict(origin=it[0], shape=G.shape(it[1])[:300], renders=it[2]["rs"][:4], verdict=v))
