"""C05 - Text editing operations.  Histories (TLC-enumerated and random) are executed on a real
rich.text.Text; after every call the object's len(), plain and per-character effective style are
projected and TLC (Trace_TextOps) compares them with the reference semantics of TextOps.tla."""
import io

from engine import tlc
from engine.harness import Check

NSTY = 4
ALPHA = ["a", "b", " ", " ", "\t", "\n", "世", "́", "\r", "\x08", "x"]
PADCH = [" ", "-", "*"]
SEPS = ["\n", " ", "\t", "ab"]


ACTIONS = ["New", "AppendStrA", "AppendTextA", "AssembleA", "JoinA", "SplitA", "DivideA", "IndexA", "SliceA", "PadA",
           "AlignA", "TruncateA", "RightCropA", "SetLengthA", "ExpandTabsA", "CopyA", "RstripA", "RstripEndA",
           "RemoveSuffixA", "StylizeA", "CopyStylesA", "SwapA"]


def env():
    from rich.console import Console
    from rich.style import Style
    from rich.text import Text
    from rich.cells import get_character_cell_size
    sty = {0: None,
           1: Style(bold=True, color="red"), 2: Style(italic=True, color="green"),
           3: Style(underline=True, color="blue"), 4: Style(strike=True, color="yellow")}
    console = Console(file=io.StringIO(), width=200)
    return dict(Console=Console, Style=Style, Text=Text, w=get_character_cell_size, sty=sty, console=console)


def S(E, s):
    """python str -> [[code, width]]"""
    return [[ord(c), E["w"](c)] for c in s]


def tostr(pairs):
    return "".join(chr(p[0]) for p in pairs)


def mk(E, lit):
    """text operand literal {str, base, spans} -> real Text"""
    Text = E["Text"]
    t = Text(tostr(lit["str"]), style=E["sty"][lit["base"]] or "")
    for a, b, k in lit["spans"]:
        t.stylize(E["sty"][k], a, b)
    return t


_ATTR = ["bold", "italic", "underline", "strike"]
_COL = {"red": 1, "green": 2, "blue": 3, "yellow": 4}


def observe(E, t):
    """What a real Text shows: len(), plain, per-character effective style."""
    try:
        n = len(t)
    except Exception:
        n = -1
    plain = t.plain
    chars = []
    try:
        for seg in t.render(E["console"]):
            st = seg.style
            ids = []
            top = 0
            if st is not None:
                ids = [i + 1 for i, a in enumerate(_ATTR) if getattr(st, a)]
                if st.color is not None:
                    top = _COL.get(st.color.name, 9)
            for ch in seg.text:
                chars.append([ord(ch), ids, top])
    except Exception as ex:
        return dict(len=n, chars=[[ord(c), [], 0] for c in plain], render_exc=type(ex).__name__)
    if len(chars) != len(plain):
        # render disagrees with plain: show plain, mark through length
        return dict(len=n, chars=chars, render_exc="render-length-%d-plain-%d" % (len(chars), len(plain)))
    return dict(len=n, chars=chars)


def execute(E, ops):
    """Run a history; returns list of events (op + observation)."""
    Text, sty = E["Text"], E["sty"]
    t = Text("")
    sib = Text("")          # the object the current text was derived from; it stays alive
    events = []
    for op in ops:
        e = dict(op)
        e["exc"] = "none"
        k = op["k"]
        pieces = None
        before = t
        try:
            if k == "swap":
                t, sib = sib, t
                before = t
            elif k == "new":
                t = mk(E, op["t"])
            elif k == "append_str":
                t.append(tostr(op["str"]), sty[op["sty"]])
            elif k == "append_text":
                o = mk(E, op["t"])
                via = op.get("via", "append")
                if via == "append":
                    t.append(o)
                elif via == "append_text":
                    t.append_text(o)
                else:
                    t = t + o
            elif k == "assemble":
                parts = []
                for p in op["parts"]:
                    if p["kind"] == "cur":
                        parts.append(t)
                    elif p["kind"] == "str":
                        parts.append((tostr(p["str"]), sty[p["sty"]]) if p["sty"] else tostr(p["str"]))
                    else:
                        parts.append(mk(E, p["t"]))
                t = Text.assemble(*parts, style=sty[op["base"]] or "")
            elif k == "join":
                lines = [mk(E, o) for o in op["others"]]
                lines.insert(op["pos"], t)
                t = mk(E, op["sep"]).join(lines)
            elif k == "split":
                pieces = list(t.split(tostr([[c, 1] for c in op["sep"]]), include_separator=op["inc"], allow_blank=op["ab"]))
            elif k == "divide":
                pieces = list(t.divide(op["offs"]))
            elif k == "index":
                try:
                    t = t[op["i"]]
                except IndexError:
                    e["exc"] = "IndexError"
            elif k == "slice":
                t = t[(op["a"] if op["hasA"] else None):(op["b"] if op["hasB"] else None)]
            elif k == "pad":
                t.pad(op["n"], chr(op["ch"][0]))
            elif k == "pad_left":
                t.pad_left(op["n"], chr(op["ch"][0]))
            elif k == "pad_right":
                t.pad_right(op["n"], chr(op["ch"][0]))
            elif k == "align":
                t.align(op["how"], op["width"], chr(op["ch"][0]))
            elif k == "truncate":
                t.truncate(op["w"], overflow=op["ov"], pad=op["pad"])
            elif k == "right_crop":
                t.right_crop(op["n"])
            elif k == "set_length":
                t.set_length(op["n"])
            elif k == "expand_tabs":
                t.expand_tabs(op["n"])
            elif k == "copy":
                t = t.copy()
            elif k == "rstrip":
                t.rstrip()
            elif k == "rstrip_end":
                t.rstrip_end(op["n"])
            elif k == "remove_suffix":
                t.remove_suffix("".join(chr(c) for c in op["suffix"]))
            elif k == "stylize":
                t.stylize(sty[op["sty"]], op["a"], op["b"] if op["hasB"] else None)
            elif k == "copy_styles":
                o = Text(t.plain)
                for a, b, kk in op["spans"]:
                    o.stylize(sty[kk], a, b)
                t.copy_styles(o)
            elif k == "highlight":
                if op["how"] == "regex":
                    t.highlight_regex(op["pat"], sty[op["sty"]])
                else:
                    t.highlight_words(op["words"], sty[op["sty"]])
        except Exception as ex:
            e["exc"] = type(ex).__name__
        if pieces is not None:
            e["pieces"] = [observe(E, p) for p in pieces]
            if 1 <= op["pick"] <= len(pieces):
                t = pieces[op["pick"] - 1]
        if t is not before and k != "swap":
            sib = before
        e["obs"] = observe(E, t)
        if "render_exc" in e["obs"] and e["exc"] == "none":
            e["exc"] = "render:" + e["obs"]["render_exc"]
        events.append(e)
    return events


# ---- random histories ------------------------------------------------------------------------

def rstr(rng, lo=0, hi=6):
    return "".join(rng.choice(ALPHA) for _ in range(rng.randint(lo, hi)))


def rlit(E, rng, hi=5):
    s = rstr(rng, 0, hi)
    n = len(s)
    spans = [[rng.randint(-2, n + 1), rng.randint(-2, n + 2), rng.randint(1, NSTY)] for _ in range(rng.randint(0, 3))]
    return dict(str=S(E, s), base=rng.choice([0, 0, 1, 2, 3, 4]), spans=spans)


def roff(rng, n):
    return rng.choice([0, n, n - 1, n + 1, 1, -1, -n, -n - 1, rng.randint(-n - 2, n + 3), rng.randint(0, max(0, n))])


def random_op(E, rng, n):
    if rng.random() < 0.08:
        return dict(k="swap")
    k = rng.choice(["append_str", "append_str", "append_text", "assemble", "join", "split", "split", "divide", "index",
                    "slice", "slice", "pad", "pad_left", "pad_right", "align", "truncate", "truncate", "right_crop",
                    "set_length", "expand_tabs", "copy", "rstrip", "rstrip_end", "remove_suffix", "stylize", "stylize",
                    "copy_styles", "highlight", "new"])
    if k == "new":
        return dict(k=k, t=rlit(E, rng, 7))
    if k == "append_str":
        return dict(k=k, str=S(E, rstr(rng, 0, 4)), sty=rng.randint(0, NSTY))
    if k == "append_text":
        return dict(k=k, t=rlit(E, rng), via=rng.choice(["append", "append_text", "add"]))
    if k == "assemble":
        parts = []
        for _ in range(rng.randint(1, 3)):
            r = rng.random()
            parts.append(dict(kind="cur") if r < 0.4 else dict(kind="str", str=S(E, rstr(rng, 0, 3)), sty=rng.randint(0, NSTY))
                         if r < 0.7 else dict(kind="text", t=rlit(E, rng, 3)))
        return dict(k=k, parts=parts, base=rng.randint(0, NSTY))
    if k == "join":
        others = [rlit(E, rng, 3) for _ in range(rng.randint(0, 2))]
        return dict(k=k, sep=rlit(E, rng, 2), others=others, pos=rng.randint(0, len(others)))
    if k == "split":
        return dict(k=k, sep=[ord(c) for c in rng.choice(SEPS)], inc=rng.random() < 0.5, ab=rng.random() < 0.5, pick=rng.randint(1, 3))
    if k == "divide":
        offs = sorted(rng.randint(0, n) for _ in range(rng.randint(0, 3)))
        return dict(k=k, offs=offs, pick=rng.randint(1, 3))
    if k == "index":
        return dict(k=k, i=roff(rng, n))
    if k == "slice":
        return dict(k=k, hasA=rng.random() < 0.8, a=roff(rng, n), hasB=rng.random() < 0.8, b=roff(rng, n))
    if k in ("pad", "pad_left", "pad_right"):
        return dict(k=k, n=rng.choice([0, 1, 2, 3]), ch=S(E, rng.choice(PADCH))[0])
    if k == "align":
        return dict(k=k, how=rng.choice(["left", "center", "right"]), width=rng.randint(0, n + 4), ch=S(E, rng.choice(PADCH))[0])
    if k == "truncate":
        ov = rng.choice(["crop", "fold", "ellipsis", "ignore"])
        return dict(k=k, w=rng.randint(1 if ov == "ellipsis" else 0, n + 3), ov=ov, pad=rng.random() < 0.5)
    if k == "right_crop":
        return dict(k=k, n=rng.choice([0, 1, 1, 2, n, n + 1, n + 3, rng.randint(0, n + 1)]))
    if k == "set_length":
        return dict(k=k, n=rng.randint(0, n + 3))
    if k == "expand_tabs":
        return dict(k=k, n=rng.choice([1, 2, 4, 8]))
    if k in ("copy", "rstrip"):
        return dict(k=k)
    if k == "rstrip_end":
        return dict(k=k, n=rng.randint(0, n + 1))
    if k == "remove_suffix":
        return dict(k=k, suffix=[ord(c) for c in rng.choice(["", "a", " ", "\n", "b ", "ab"])])
    if k == "stylize":
        return dict(k=k, sty=rng.randint(1, NSTY), a=roff(rng, n), hasB=rng.random() < 0.7, b=roff(rng, n))
    if k == "copy_styles":
        return dict(k=k, spans=[[rng.randint(0, n), rng.randint(0, n), rng.randint(1, NSTY)] for _ in range(rng.randint(0, 3))])
    if k == "highlight":
        if rng.random() < 0.5:
            return dict(k=k, how="regex", pat=rng.choice(["a+", r"\s", "b|x", "(?P<g>a)b", "."]), sty=rng.randint(1, NSTY))
        return dict(k=k, how="words", words=rng.choice([["a"], ["ab", "b"], [" "]]), sty=rng.randint(1, NSTY))
    raise AssertionError(k)


def random_history(E, rng, nops):
    """Ops are generated against the evolving real object so that arguments straddle its ends."""
    Text = E["Text"]
    ops = [dict(k="new", t=rlit(E, rng, 7))]
    for _ in range(nops - 1):
        ev = execute(E, ops)
        n = len(ev[-1]["obs"]["chars"])
        ops.append(random_op(E, rng, n))
    return ops


def rewidth(E, o):
    """Character widths are data of the tree under test: recompute every <<code, width>> pair of a
    TLC-generated operation from rich.cells."""
    if isinstance(o, dict):
        return {k: rewidth(E, v) for k, v in o.items()}
    if isinstance(o, list):
        if len(o) == 2 and all(isinstance(x, int) for x in o) and o[0] > 8 and o[1] in (0, 1, 2):
            return [o[0], E["w"](chr(o[0]))]
        return [rewidth(E, v) for v in o]
    return o


def shape(op):
    """Argument shape for signatures."""
    k = op["k"]
    if k == "right_crop":
        return "n=%s" % ("0" if op["n"] == 0 else "pos")
    if k == "remove_suffix":
        return "suffix=%s" % ("empty" if not op["suffix"] else "nonempty")
    if k == "index":
        return "i=%s" % ("neg" if op["i"] < 0 else "nonneg")
    if k == "new":
        return "ctl=%s" % any(p[0] in (8, 11, 12, 13) for p in op["t"]["str"])
    if k in ("append_text", "assemble", "join"):
        return ""
    return ""


def run(chk: Check):
    E = env()
    chk.rule = ("a case is a history of Text editing calls starting with a constructor: every history of D calls over the "
                "MC_TextOps operation set enumerated by TLC, plus seeded random histories of 2..12 calls whose arguments "
                "straddle the ends of the evolving text (negative, at, beyond); distinct by (op list); non-trivial = "
                "contains at least one styled character and one length-changing call")
    chk.trusted = ["drivers/c05.py:observe (len(), plain, per-character style read back with Text.render; "
                   "style -> {attribute ids, colour id})", "rich.cells.get_character_cell_size for argument widths (subject of C13)"]
    chk.assumptions = ["pad counts, truncate/align widths, crop amounts, set_length, tab sizes are non-negative "
                       "(ellipsis width >= 1); divide offsets sorted within 0..len; separators do not overlap themselves"]
    hists = []
    if chk.replay_only:
        hists.append(chk.replay_only["case"]["ops"])
    else:
        inv = [l for l in open(tlc.SPECS + "/MC_TextOps.cfg").read().splitlines() if l.startswith("INVARIANT")]
        m1 = "CONSTANTS\n  GenDepth = 0\n  MCDepth = %d\nSPECIFICATION Spec\nVIEW View\nCONSTRAINT DepthBound\n%s\nCHECK_DEADLOCK FALSE\n" % (
            chk.pick(2, 3), "\n".join(inv))
        r, cov, missing = tlc.model_check("MC_TextOps", cfg_text=m1, require_actions=ACTIONS)
        chk.add_tlc(r, "M1")
        if r.violated or missing:
            raise tlc.TLCFailure("MC_TextOps violated=%s missing=%s\n%s" % (r.violated, missing, r.out[-3000:]))
        chk.notes["m1_action_coverage"] = {k: v[1] for k, v in cov.items()}
        # design level: the span representation (transcribed from text.py) refines the reference semantics
        base = open(tlc.SPECS + "/MC_TextSpans.cfg").read().replace("MCDepth = 3", "MCDepth = %d" % chk.pick(3, 4))
        rs, covs, miss = tlc.model_check("MC_TextSpans", cfg_text=base,
                                         require_actions=["New", "AppendA", "StylizeA", "PadA", "CropA", "SetLengthA", "TruncateA"])
        chk.add_tlc(rs, "M1-span-design-refines")
        if rs.violated or miss:
            raise tlc.TLCFailure("MC_TextSpans violated=%s missing=%s\n%s" % (rs.violated, miss, rs.out[-3000:]))
        for sw in ("CropClamp", "StartClamp", "CtorLen"):      # each 9.10.0 behaviour must be caught by TLC
            rg, _, _ = tlc.model_check("MC_TextSpans", cfg_text=open(tlc.SPECS + "/MC_TextSpans.cfg").read().replace("%s = TRUE" % sw, "%s = FALSE" % sw))
            chk.add_tlc(rg, "M1-span-design-guard")
            if not rg.violated:
                raise tlc.TLCFailure("vacuity guard: MC_TextSpans with %s = FALSE was not rejected" % sw)
        chk.notes["span_design_defect_switches_caught"] = ["CropClamp", "StartClamp", "CtorLen"]
        cfgt = "CONSTANTS\n  GenDepth = %d\n  MCDepth = 0\nSPECIFICATION Spec\nCONSTRAINT Emit\nCHECK_DEADLOCK FALSE\n"
        behs, r2 = tlc.behaviours("MC_TextOps", cfg_text=cfgt % 2, timeout=3000)
        chk.add_tlc(r2, "M2-exhaustive-depth-2")
        sims, r3 = tlc.behaviours("MC_TextOps", cfg_text=cfgt % 7, simulate="num=%d" % chk.pick(1500, 30000), depth=9,
                                  seed=chk.seed + 1, timeout=3000)
        chk.add_tlc(r3, "M2-simulate-depth-7")
        behs += sims
        chk.notes["tlc_generated_histories"] = len(behs)
        if not behs:
            raise tlc.TLCFailure("MC_TextOps generated no behaviours\n" + r2.out[-2000:])
        for b in behs:
            hists.append([dict(o, **{k: rewidth(E, o[k]) for k in ("t", "str", "ch", "parts", "sep2", "others") if k in o},
                               **({"sep": rewidth(E, o["sep"])} if o["k"] == "join" else {})) for o in b["beh"]])
        for i in range(chk.pick(2500, 40000)):
            hists.append(random_history(E, chk.rng, chk.rng.randint(2, 12)))
    recs = []
    for ops in hists:
        ev = execute(E, ops)
        recs.append(ev)
        styled = any(c[1] for e in ev for c in e["obs"]["chars"])
        chk.case(ops, styled and len(ops) >= 2)
    verdicts, st = tlc.judge("Trace_TextOps", recs)
    chk.add_tlc(st, "M3")
    chk.traces += len(recs)
    for ops, ev, v in zip(hists, recs, verdicts):
        if v != "ok":
            parts = v.split(" ")
            step = int(parts[1]) if parts[0] == "step" and parts[1].isdigit() else 0
            op = ops[step - 1] if 1 <= step <= len(ops) else {"k": "?"}
            clause = v.split(": ")[-1]
            sig = "%s op=%s %s" % (clause, op["k"], shape(op))
            chk.reject(sig.strip(), v, dict(ops=ops[:step] if step else ops, observed=ev[step - 1] if step else None))
    chk.sample(dict(ops=hists[0], observed=recs[0][-1]["obs"]))
    chk.sample(dict(ops=hists[-1], observed=recs[-1][-1]["obs"]))
