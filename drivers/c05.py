"""C05 - Text editing operations.  Histories (TLC-enumerated and random) are executed on a real
rich.text.Text; after every call the object's len(), plain and per-character effective style are
projected and TLC (Trace_TextOps) compares them with the reference semantics of TextOps.tla."""
import io
import os

from engine import tlc
from engine.harness import Check
from engine.watch import cpu_deadline

NSTY = 4
# characters of generated strings: letters, blanks, tab, newline, wide, zero-width, every control code the
# constructor strips (BS VT FF CR) and one it keeps (BEL), regex-special characters (split / highlight go through re),
# a digit and brackets (what the repr highlighter looks for)
ALPHA = ["a", "b", " ", " ", "\t", "\n", "世", "́", "\r", "\x08", "x", "a", " ", "\t", "\n", "世",
         "\x0b", "\x0c", "\x07", ".", "|", "(", "1", "A", "$", "+", "*", "?", "[", ".", "a"]
META = ".|$+(*?[\\^)]{}"
ALPHA_META = [".", "|", "$", "+", "(", "*", "?", "[", "\\", "^", ")", "a", "b", " ", "\n", "a", ".", "世", "\t"]      # texts for split / highlight
SAFE = [c for c in ALPHA if c not in "\r\x08\x0b\x0c"]      # for entry points whose control-code handling the statement leaves open
PADCH = [" ", "-", "*", "世", "."]
# separators: split() goes through re - every regex metacharacter, alone and inside multi-character separators, and
# separators that occur in the alphabet above (a separator that never occurs takes the early exit)
SEPS = ["\n", " ", "\t", "ab", ".", "|", "(", "$", "+", "*", "?", "[", "\\", "^", "a.", ". ", "a|b", "a+", "a?", "a*", "b$", "(a", "[a]",
        "..", ".\n", " a", "世", "a世", "\n\n", "1", "x"]


ACTIONS = ["New", "AppendStrA", "AppendTextA", "AssembleA", "JoinA", "SplitA", "DivideA", "IndexA", "SliceA", "PadA",
           "AlignA", "TruncateA", "RightCropA", "SetLengthA", "ExpandTabsA", "CopyA", "RstripA", "RstripEndA",
           "RemoveSuffixA", "StylizeA", "CopyStylesA", "SwapA", "AppendSelfA", "AppendTokensA", "FitA", "JustifyA",
           "BlankCopyA", "SetPlainA"]


def env():
    from rich.console import Console
    from rich.style import Style
    from rich.text import Text
    from rich.cells import get_character_cell_size
    sty = {0: None,
           1: Style(bold=True, color="red"), 2: Style(italic=True, color="green"),
           3: Style(underline=True, color="blue"), 4: Style(strike=True, color="yellow")}
    # the same styles the way a user writes them (every style parameter is Union[str, Style])
    sty_s = {0: None, 1: "bold red", 2: "italic green", 3: "underline blue", 4: "strike yellow"}
    # named styles the repr highlighter refers to are mapped onto the four test styles (the default theme's
    # repr.* styles switch attributes OFF, which the additive style abstraction {ids present, top colour} cannot express)
    import re
    from rich import highlighter as _hl
    from rich.theme import Theme
    names = sorted({"repr." + g for pat in _hl.ReprHighlighter.highlights for g in re.compile(pat).groupindex})
    console = Console(file=io.StringIO(), width=200, theme=Theme({n: sty_s[1 + i % 4] for i, n in enumerate(names)}))
    from rich.text import Span
    from rich.containers import Lines
    from rich import highlighter as hl
    return dict(Console=Console, Style=Style, Text=Text, Span=Span, Lines=Lines, hl=hl, w=get_character_cell_size, sty=sty, sty_s=sty_s,
                console=console)


def styles(E, op):
    """style table for one call: Style objects, or (op["sf"]) the equivalent style definitions as strings"""
    return E["sty_s"] if op.get("sf") else E["sty"]


def S(E, s):
    """python str -> [[code, width]]"""
    return [[ord(c), E["w"](c)] for c in s]


def tostr(pairs):
    return "".join(chr(p[0]) for p in pairs)


def mk(E, lit):
    """text operand literal {str, base, spans} -> real Text.  Optional (invisible to the model, same meaning):
    via = stylize (default) | spans (the constructor's spans= argument; in-range spans only) | styled (Text.styled:
    one span over everything); sf = styles given as strings; tov / tab = the Text's own overflow / tab_size"""
    Text = E["Text"]
    sty = styles(E, lit)
    kw = {}
    if lit.get("tov"):
        kw["overflow"] = lit["tov"]
    if lit.get("tab"):
        kw["tab_size"] = lit["tab"]
    via = lit.get("via", "stylize")
    if via == "styled":
        (a, b, k), = lit["spans"]
        t = Text.styled(tostr(lit["str"]), sty[k], **({"overflow": kw["overflow"]} if "overflow" in kw else {}))
        if "tab_size" in kw:
            t.tab_size = kw["tab_size"]
        return t
    if via == "spans":
        return Text(tostr(lit["str"]), style=sty[lit["base"]] or "", spans=[E["Span"](a, b, sty[k]) for a, b, k in lit["spans"]], **kw)
    t = Text(tostr(lit["str"]), style=sty[lit["base"]] or "", **kw)
    for a, b, k in lit["spans"]:
        t.stylize(sty[k], a, b)
    return t


EMPTY_LIT = dict(str=[], base=0, spans=[])


_ATTR = ["bold", "italic", "underline", "strike"]
_COL = {"red": 1, "green": 2, "blue": 3, "yellow": 4}


def observe(E, t):
    """What a real Text shows: len(), plain, per-character effective style."""
    try:
        n = len(t)
    except Exception:
        n = -1
    plain = t.plain
    chars = []
    try:
        with cpu_deadline(4.0):
            segs = list(t.render(E["console"]))
        for seg in segs:
            st = seg.style
            ids = []
            top = 0
            if st is not None:
                ids = [i + 1 for i, a in enumerate(_ATTR) if getattr(st, a)]
                if st.color is not None:
                    top = _COL.get(st.color.name, 9)
            for ch in seg.text:
                chars.append([ord(ch), ids, top])
    except Exception as ex:
        return dict(len=n, chars=[[ord(c), [], 0] for c in plain], render_exc=type(ex).__name__)
    if len(chars) != len(plain):
        # render disagrees with plain: show plain, mark through length
        return dict(len=n, chars=chars, render_exc="render-length-%d-plain-%d" % (len(chars), len(plain)))
    return dict(len=n, chars=chars)


KINDS = {"swap", "new", "append_str", "append_text", "append_tokens", "assemble", "join", "split", "divide", "fit", "index", "slice",
         "pad", "pad_left", "pad_right", "align", "truncate", "justify", "right_crop", "set_length", "expand_tabs", "copy", "blank_copy",
         "set_plain", "rstrip", "rstrip_end", "remove_suffix", "stylize", "copy_styles", "highlight", "highlighter"}


_DEADLINE, _HANGS = [4.0], [0]          # CPU seconds allowed to one call into Rich (real calls take well under a millisecond)


def _maybe_iter(op, seq):
    """Iterable parameters are also given as one-shot iterators"""
    return iter(seq) if op.get("it") else seq


def execute(E, ops, want_text=False):
    """Run a history; returns list of events (op + observation)."""
    Text = E["Text"]
    t = Text("")
    sib = Text("")          # the object the current text was derived from; it stays alive
    events = []
    for op in ops:
        e = dict(op)
        e["exc"] = "none"
        k = op["k"]
        if k not in KINDS:
            raise RuntimeError("unknown operation %r" % k)
        sty = styles(E, op)
        pieces = None
        before = t
        try:
            with cpu_deadline(_DEADLINE[0]):      # a call that spins (and allocates) is an observation, not a dead check
                if k == "swap":
                    t, sib = sib, t
                    before = t
                elif k == "new":
                    t = mk(E, op["t"])
                elif k == "append_str":
                    if op.get("via", "append") == "add":
                        t = t + tostr(op["str"])
                    elif op["sty"] == 0 and op.get("dflt"):
                        t.append(tostr(op["str"]))
                    else:
                        t.append(tostr(op["str"]), sty[op["sty"]])
                elif k == "append_text":
                    src = op.get("src", "lit")
                    o = sib if src == "sib" else t if src == "cur" else mk(E, op["t"])
                    via = op.get("via", "append")
                    if via == "append":
                        t.append(o)
                    elif via == "append_text":
                        t.append_text(o)
                    else:
                        t = t + o
                elif k == "append_tokens":
                    t.append_tokens(_maybe_iter(op, [(tostr(x["str"]), sty[x["sty"]]) for x in op["toks"]]))
                elif k == "assemble":
                    parts = []
                    for p in op["parts"]:
                        if p["kind"] == "cur":
                            parts.append(t)
                        elif p["kind"] == "sib":
                            parts.append(sib)
                        elif p["kind"] == "str":
                            parts.append((tostr(p["str"]), sty[p["sty"]]) if p["sty"] else tostr(p["str"]))
                        else:
                            parts.append(mk(E, p["t"]))
                    t = Text.assemble(*parts, style=sty[op["base"]] or "")
                elif k == "join":
                    lines = [mk(E, o) for o in op["others"]]
                    lines.insert(op["pos"], t)
                    if op.get("sibpos", -1) >= 0:
                        lines.insert(op["sibpos"], sib)
                    ss = op.get("sepsrc", "lit")
                    sep = sib if ss == "sib" else t if ss == "cur" else mk(E, op["sep"])
                    t = sep.join(_maybe_iter(op, lines))
                elif k == "split":
                    if op.get("dflt"):
                        pieces = list(t.split())
                    else:
                        pieces = list(t.split(tostr([[c, 1] for c in op["sep"]]), include_separator=op["inc"], allow_blank=op["ab"]))
                elif k == "divide":
                    pieces = list(t.divide(_maybe_iter(op, op["offs"])))
                elif k == "fit":
                    pieces = list(t.fit(op["w"]))
                elif k == "index":
                    try:
                        t = t[op["i"]]
                    except IndexError:
                        e["exc"] = "IndexError"
                elif k == "slice":
                    t = t[(op["a"] if op["hasA"] else None):(op["b"] if op["hasB"] else None)]
                elif k in ("pad", "pad_left", "pad_right"):
                    getattr(t, k)(op["n"], *([] if op.get("dflt") else [chr(op["ch"][0])]))
                elif k == "align":
                    e["ov"] = t.overflow or "fold"           # align() truncates with the text's own overflow setting
                    t.align(op["how"], op["width"], *([] if op.get("dflt") else [chr(op["ch"][0])]))
                elif k == "truncate":
                    if op.get("dflt"):                       # overflow=None: "use self.overflow" (documented)
                        e["ov"] = t.overflow or "fold"
                        if op["pad"]:
                            t.truncate(op["w"], pad=True)
                        else:
                            t.truncate(op["w"])
                    else:
                        t.truncate(op["w"], overflow=op["ov"], pad=op["pad"])
                elif k == "justify":
                    lines = E["Lines"]([t])
                    lines.justify(E["console"], op["w"], op["how"], op["ov"])
                    t = lines[0]
                elif k == "right_crop":
                    t.right_crop(*([] if op.get("dflt") else [op["n"]]))
                elif k == "set_length":
                    t.set_length(op["n"])
                elif k == "expand_tabs":
                    if op.get("dflt"):                       # tab_size=None: the text's own tab_size
                        e["n"] = t.tab_size
                        t.expand_tabs()
                    else:
                        t.expand_tabs(op["n"])
                elif k == "copy":
                    t = t.copy()
                elif k == "blank_copy":
                    t = t.blank_copy()
                elif k == "set_plain":
                    t.plain = tostr(op["str"])
                elif k == "rstrip":
                    t.rstrip()
                elif k == "rstrip_end":
                    t.rstrip_end(op["n"])
                elif k == "remove_suffix":
                    t.remove_suffix("".join(chr(c) for c in op["suffix"]))
                elif k == "stylize":
                    if op.get("dflt"):
                        t.stylize(sty[op["sty"]])
                    else:
                        t.stylize(sty[op["sty"]], op["a"], op["b"] if op["hasB"] else None)
                elif k == "copy_styles":
                    o = Text(t.plain)
                    for a, b, kk in op["spans"]:
                        o.stylize(sty[kk], a, b)
                    t.copy_styles(o)
                elif k == "highlight":
                    if op["how"] == "regex":
                        t.highlight_regex(op["pat"], sty[op["sty"]])
                    elif op["how"] == "regex-callable":
                        st = sty[op["sty"]]
                        t.highlight_regex(op["pat"], lambda m: st if len(m) % 2 else None, style_prefix="repr.")
                    elif op["how"] == "regex-groups":
                        t.highlight_regex(op["pat"], style_prefix="repr.")
                    else:
                        t.highlight_words(_maybe_iter(op, op["words"]), sty[op["sty"]], case_sensitive=not op.get("nocase"))
                elif k == "highlighter":
                    h = {"repr": E["hl"].ReprHighlighter, "null": E["hl"].NullHighlighter}[op["cls"]]()
                    if op["how"] == "call":
                        t = h(t)
                    else:
                        h.highlight(t)
        except Exception as ex:
            e["exc"] = type(ex).__name__
            if e["exc"] == "Hang":            # after a few the tree under test is known to be faulty: later ones are cut short
                _HANGS[0] += 1
                if _HANGS[0] >= 5:
                    _DEADLINE[0] = 0.3
        if pieces is not None:
            e["pieces"] = [observe(E, p) for p in pieces]
            if 1 <= op["pick"] <= len(pieces):
                t = pieces[op["pick"] - 1]
        if t is not before and k != "swap":
            sib = before
        e["obs"] = observe(E, t)
        if "render_exc" in e["obs"] and e["exc"] == "none":
            e["exc"] = "render:" + e["obs"]["render_exc"]
        events.append(e)
    return (events, t, sib) if want_text else events


# ---- random histories ------------------------------------------------------------------------

def rstr(rng, lo=0, hi=6, alpha=ALPHA):
    return "".join(rng.choice(alpha) for _ in range(rng.randint(lo, hi)))


STRIPPED = "\r\x08\x0b\x0c"


def rlit(E, rng, hi=5, meta=False):
    """a Text literal; construction path (stylize calls / spans= / Text.styled), style notation (objects / strings) and -
    with meta - the Text's own overflow and tab_size vary"""
    s = rstr(rng, 0, hi, ALPHA_META if rng.random() < 0.2 else ALPHA)
    n = len(s)
    spans = [[rng.randint(-2, n + 1), rng.randint(-2, n + 2), rng.randint(1, NSTY)] for _ in range(rng.randint(0, 3))]
    lit = dict(str=S(E, s), base=rng.choice([0, 0, 1, 2, 3, 4]), spans=spans)
    r = rng.random()
    if r < 0.15:
        lit.update(via="styled", base=0, spans=[[0, 1000, rng.randint(1, NSTY)]])
    elif r < 0.35:
        # the constructor takes the spans as given: only spans inside the (control-free) text
        s = "".join(c for c in s if c not in STRIPPED)
        n = len(s)
        lit.update(via="spans", str=S(E, s),
                   spans=[[a, b, k] for a, b, k in ([rng.randint(0, n), rng.randint(0, n), rng.randint(1, NSTY)] for _ in range(rng.randint(0, 3))) if a < b])
    if rng.random() < 0.3:
        lit["sf"] = 1
    if meta and rng.random() < 0.35:
        lit["tov"] = rng.choice(["fold", "crop", "ellipsis", "ignore"])
    if meta and rng.random() < 0.35:
        lit["tab"] = rng.choice([1, 2, 3, 4, 8])
    return lit


def self_overlapping(sep):
    return any(sep[:k] == sep[-k:] for k in range(1, len(sep)))


def roff(rng, n):
    return rng.choice([0, n, n - 1, n + 1, 1, -1, -n, -n - 1, rng.randint(-n - 2, n + 3), rng.randint(0, max(0, n))])


OPS = ["append_str", "append_str", "append_text", "append_text", "append_tokens", "assemble", "join", "split", "split", "divide",
       "fit", "index", "slice", "slice", "pad", "pad_left", "pad_right", "align", "truncate", "truncate", "justify", "right_crop",
       "set_length", "expand_tabs", "copy", "blank_copy", "set_plain", "rstrip", "rstrip_end", "remove_suffix", "stylize", "stylize",
       "copy_styles", "highlight", "highlighter", "new"]


def random_op(E, rng, n, cur=None):
    """n: length of the current text; cur: the current real Text (only its public overflow attribute is read, to keep
    the width of an ellipsis truncation >= 1)"""
    if rng.random() < 0.08:
        return dict(k="swap")
    k = rng.choice(OPS)
    op = _random_op(E, rng, n, k, cur)
    if rng.random() < 0.3 and k not in ("new", "swap"):
        op["sf"] = 1
    return op


def _random_op(E, rng, n, k, cur):
    own_ov = (getattr(cur, "overflow", None) or "fold") if cur is not None else "fold"
    if k == "new":
        return dict(k=k, t=rlit(E, rng, 7, meta=True))
    if k == "append_str":
        r = rng.random()
        if r < 0.15:
            return dict(k=k, str=S(E, rstr(rng, 0, 4)), sty=0, via="add")
        if r < 0.3:
            return dict(k=k, str=S(E, rstr(rng, 0, 4)), sty=0, via="append", dflt=True)
        return dict(k=k, str=S(E, rstr(rng, 0, 4)), sty=rng.randint(0, NSTY), via="append")
    if k == "append_text":
        via = rng.choice(["append", "append_text", "add"])
        r = rng.random()
        # src = "cur": a text appended to itself, in place or through `+` (9.10.0 extended the span list by a generator over
        # itself and never returned: fixed in /repo f3b612d; every call runs under a CPU deadline, see execute)
        src = "sib" if r < 0.25 else "cur" if r < 0.35 else "lit"
        return dict(k=k, t=rlit(E, rng) if src == "lit" else EMPTY_LIT, via=via, src=src)
    if k == "append_tokens":
        toks = [dict(str=S(E, rstr(rng, 0, 3, SAFE)), sty=rng.randint(0, NSTY)) for _ in range(rng.randint(0, 4))]
        return dict(k=k, toks=toks, it=rng.random() < 0.5)
    if k == "assemble":
        parts = []
        for _ in range(rng.randint(1, 3)):
            r = rng.random()
            parts.append(dict(kind="cur") if r < 0.3 else dict(kind="sib") if r < 0.45
                         else dict(kind="str", str=S(E, rstr(rng, 0, 3)), sty=rng.randint(0, NSTY)) if r < 0.75
                         else dict(kind="text", t=rlit(E, rng, 3)))
        return dict(k=k, parts=parts, base=rng.randint(0, NSTY))
    if k == "join":
        others = [rlit(E, rng, 3) for _ in range(rng.randint(0, 2))]
        ss = rng.choice(["lit", "lit", "lit", "cur", "sib"])
        return dict(k=k, sep=rlit(E, rng, 2) if ss == "lit" else EMPTY_LIT, sepsrc=ss, others=others, pos=rng.randint(0, len(others)),
                    sibpos=rng.choice([-1, -1, -1, rng.randint(0, len(others) + 1)]), it=rng.random() < 0.4)
    if k == "split":
        if rng.random() < 0.12:
            return dict(k=k, sep=[10], inc=False, ab=False, dflt=True, pick=rng.randint(1, 3))
        sep = rng.choice(SEPS)
        plain = cur.plain if cur is not None else ""
        if plain and rng.random() < 0.6:
            # a separator that occurs: a piece of the current text, preferably around a regex metacharacter
            metas = [i for i, ch in enumerate(plain) if ch in META]
            i = rng.choice(metas) if metas and rng.random() < 0.75 else rng.randrange(len(plain))
            i = max(0, i - rng.choice([0, 0, 1]))
            sep = plain[i:i + rng.choice([1, 1, 2, 2, 3])] or sep
        # (separators that overlap themselves - "  " in "a   " - are in: 9.10.0 dropped the last piece there, fixed in /repo 37247ec)
        return dict(k=k, sep=[ord(c) for c in sep], inc=rng.random() < 0.5, ab=rng.random() < 0.5, pick=rng.randint(1, 3))
    if k == "divide":
        offs = sorted(rng.randint(0, n + (2 if rng.random() < 0.2 else 0)) for _ in range(rng.randint(0, 3)))
        return dict(k=k, offs=offs, pick=rng.randint(1, 3), it=rng.random() < 0.4)
    if k == "fit":
        return dict(k=k, w=rng.choice([0, 1, 2, 3, n, n + 2]), pick=rng.randint(1, 3))
    if k == "index":
        return dict(k=k, i=roff(rng, n))
    if k == "slice":
        return dict(k=k, hasA=rng.random() < 0.8, a=roff(rng, n), hasB=rng.random() < 0.8, b=roff(rng, n))
    if k in ("pad", "pad_left", "pad_right"):
        if rng.random() < 0.2:
            return dict(k=k, n=rng.choice([0, 1, 2, 3]), ch=[32, 1], dflt=True)
        return dict(k=k, n=rng.choice([0, 1, 2, 3]), ch=S(E, rng.choice(PADCH))[0])
    if k == "align":
        # (a width of 0 with an ellipsis overflow of the text itself would ask for a -1 cell truncation: excluded like in truncate)
        lo = 1 if own_ov == "ellipsis" else 0
        if rng.random() < 0.2:
            return dict(k=k, how=rng.choice(["left", "center", "right"]), width=rng.randint(lo, n + 4), ch=[32, 1], dflt=True, ov="?")
        return dict(k=k, how=rng.choice(["left", "center", "right"]), width=rng.randint(lo, n + 4), ch=S(E, rng.choice(PADCH))[0], ov="?")
    if k == "truncate":
        if rng.random() < 0.25:
            return dict(k=k, w=rng.randint(1 if own_ov == "ellipsis" else 0, n + 3), ov="?", pad=rng.random() < 0.5, dflt=True)
        ov = rng.choice(["crop", "fold", "ellipsis", "ignore"])
        return dict(k=k, w=rng.randint(1 if ov == "ellipsis" else 0, n + 3), ov=ov, pad=rng.random() < 0.5)
    if k == "justify":
        ov = rng.choice(["crop", "fold", "ellipsis", "ignore"])
        return dict(k=k, how=rng.choice(["left", "center", "right"]), w=rng.randint(1 if ov == "ellipsis" else 0, n + 4), ov=ov)
    if k == "right_crop":
        if rng.random() < 0.15:
            return dict(k=k, n=1, dflt=True)
        return dict(k=k, n=rng.choice([0, 1, 1, 2, n, n + 1, n + 3, rng.randint(0, n + 1), -1, -rng.randint(1, n + 2)]))
    if k == "set_length":
        return dict(k=k, n=rng.randint(0, n + 3))
    if k == "expand_tabs":
        if rng.random() < 0.3:
            return dict(k=k, n=0, dflt=True)
        return dict(k=k, n=rng.choice([1, 2, 3, 4, 8]))
    if k in ("copy", "rstrip", "blank_copy"):
        return dict(k=k)
    if k == "set_plain":
        return dict(k=k, str=S(E, rstr(rng, 0, n + 2, SAFE)))
    if k == "rstrip_end":
        return dict(k=k, n=rng.randint(0, n + 1))
    if k == "remove_suffix":
        return dict(k=k, suffix=[ord(c) for c in rng.choice(["", "a", " ", "\n", "b ", "ab", ".", "a" * (n + 1), "\t", "世"])])
    if k == "stylize":
        if rng.random() < 0.12:
            return dict(k=k, sty=rng.randint(1, NSTY), a=0, hasB=False, b=0, dflt=True)
        return dict(k=k, sty=rng.randint(1, NSTY), a=roff(rng, n), hasB=rng.random() < 0.7, b=roff(rng, n))
    if k == "copy_styles":
        return dict(k=k, spans=[[rng.randint(0, n), rng.randint(0, n), rng.randint(1, NSTY)] for _ in range(rng.randint(0, 3))])
    if k == "highlight":
        r = rng.random()
        pats = ["a+", r"\s", "b|x", "(?P<g>a)b", ".", r"\.", r"(?P<number>1)|(?P<brace>\()", "^", "a*", r"\w+"]
        if r < 0.35:
            return dict(k=k, how="regex", pat=rng.choice(pats), sty=rng.randint(1, NSTY))
        if r < 0.5:
            return dict(k=k, how="regex-callable", pat=rng.choice(pats), sty=rng.randint(1, NSTY))
        if r < 0.6:
            return dict(k=k, how="regex-groups", pat=rng.choice(pats), sty=0)
        return dict(k=k, how="words", words=rng.choice([["a"], ["ab", "b"], [" "], ["."], ["(", "|"], ["A"], ["世", "1"]]), sty=rng.randint(1, NSTY),
                    nocase=rng.random() < 0.3, it=rng.random() < 0.3)
    if k == "highlighter":
        return dict(k=k, cls=rng.choice(["repr", "repr", "null"]), how=rng.choice(["call", "inplace"]))
    raise AssertionError(k)


def random_history(E, rng, nops):
    """Ops are generated against the evolving real object so that arguments straddle its ends."""
    ops = [dict(k="new", t=rlit(E, rng, 7, meta=True))]
    while len(ops) < nops:
        ev, cur, sib = execute(E, ops, want_text=True)
        if "Hang" in ev[-1]["exc"]:          # the judge cuts the history here anyway; do not pay the deadline again and again
            break
        n = len(ev[-1]["obs"]["chars"])
        op = random_op(E, rng, n, cur)
        ops.append(op)
        if shares_objects(op) and rng.random() < 0.4:
            # aliasing probe: the call produced a new object from, or combined, two live objects - edit the OTHER one and come
            # back: the edit must not show here (no shared span list / text list)
            m = len(sib.plain) if op["k"] not in DERIVING else n
            ops += [dict(k="swap"), _random_op(E, rng, m, rng.choice(["stylize", "stylize", "append_str", "pad_left", "right_crop", "set_plain"]), None),
                    dict(k="swap")]
    return ops


DERIVING = {"new", "assemble", "join", "split", "divide", "fit", "index", "slice", "copy", "blank_copy", "highlighter"}


def shares_objects(op):
    """the call hands the other live object (sib) to the current one, or derives a new object from the current one"""
    k = op["k"]
    return (k in DERIVING and k != "new") or op.get("via") == "add" or op.get("src") == "sib" or op.get("sepsrc") in ("sib", "cur") \
        or op.get("sibpos", -1) >= 0 or any(p.get("kind") in ("sib", "cur") for p in op.get("parts", []))


def rewidth(E, o):
    """Character widths are data of the tree under test: recompute every <<code, width>> pair of a
    TLC-generated operation from rich.cells."""
    if isinstance(o, dict):
        return {k: rewidth(E, v) for k, v in o.items()}
    if isinstance(o, list):
        if len(o) == 2 and all(isinstance(x, int) for x in o) and o[0] > 8 and o[1] in (0, 1, 2):
            return [o[0], E["w"](chr(o[0]))]
        return [rewidth(E, v) for v in o]
    return o


def shape(op):
    """Argument shape for signatures."""
    k = op["k"]
    if k == "right_crop":
        return "n=%s" % ("0" if op["n"] == 0 else "neg" if op["n"] < 0 else "pos")
    if k == "remove_suffix":
        return "suffix=%s" % ("empty" if not op["suffix"] else "nonempty")
    if k == "index":
        return "i=%s" % ("neg" if op["i"] < 0 else "nonneg")
    if k == "new":
        return "ctl=%s" % any(p[0] in (8, 11, 12, 13) for p in op["t"]["str"])
    if k == "split":
        return "sep=overlapping" if self_overlapping("".join(map(chr, op["sep"]))) else ""
    if k == "append_text":
        return "src=self" if op.get("src") == "cur" else ""
    return ""


def run(chk: Check):
    E = env()
    chk.rule = ("a case is a history of Text editing calls starting with a constructor: every history of D calls over the "
                "MC_TextOps operation set enumerated by TLC, plus seeded random histories of 2..12 calls whose arguments "
                "straddle the ends of the evolving text (negative, at, beyond); distinct by (op list); non-trivial = "
                "contains at least one styled character and one length-changing call")
    chk.trusted = ["drivers/c05.py:observe (len(), plain, per-character style read back with Text.render; "
                   "style -> {attribute ids, colour id})", "rich.cells.get_character_cell_size for argument widths (subject of C13)"]
    chk.assumptions = ["pad counts, truncate/align/justify widths, crop amounts, set_length, tab sizes are non-negative "
                       "(ellipsis width >= 1); divide offsets sorted within 0..len+2; split follows re.finditer / str.split: matches are taken left to right, non-overlapping",
                       "append_tokens / the plain setter are given strings without the control codes the constructor strips (the statement "
                       "does not say whether these entry points strip); spans handed to the constructor lie inside the text",
                       "a call made without an optional argument is judged with the documented default (right_crop 1, pad character blank, "
                       "split on newline); truncate()/align() without overflow and expand_tabs() without a size use the Text's own public "
                       "overflow / tab_size attribute, read just before the call",
                       "the plain setter and the highlighters only constrain characters and len(); the styling they leave is adopted",
                       ]
    hists = []
    if chk.replay_only:
        hists.append(chk.replay_only["case"]["ops"])
    elif os.environ.get("VERIF_C05_PARTS") == "random":          # development aid (trying mutants): random histories only
        chk.notes["parts_run"] = "random"
        hists += [random_history(E, chk.rng, chk.rng.randint(2, 12)) for _ in range(chk.pick(2500, 40000))]
    else:
        # the model checks and the history generation by TLC run side by side (independent JVMs); the random histories are
        # generated on the real code meanwhile
        from concurrent.futures import ThreadPoolExecutor
        inv = [l for l in open(tlc.SPECS + "/MC_TextOps.cfg").read().splitlines() if l.startswith("INVARIANT")]
        m1 = "CONSTANTS\n  GenDepth = 0\n  MCDepth = %d\nSPECIFICATION Spec\nVIEW View\nCONSTRAINT DepthBound\n%s\nCHECK_DEADLOCK FALSE\n" % (
            chk.pick(2, 3), "\n".join(inv))
        spans_cfg = open(tlc.SPECS + "/MC_TextSpans.cfg").read()
        cfgt = "CONSTANTS\n  GenDepth = %d\n  MCDepth = 0\nSPECIFICATION Spec\nCONSTRAINT Emit\nCHECK_DEADLOCK FALSE\n"
        pool = ThreadPoolExecutor(7)
        f_m1 = pool.submit(tlc.model_check, "MC_TextOps", cfg_text=m1, require_actions=ACTIONS, workers=8, tag="c05m1")
        # design level: the span representation (transcribed from text.py) refines the reference semantics
        f_sp = pool.submit(tlc.model_check, "MC_TextSpans", cfg_text=spans_cfg.replace("MCDepth = 3", "MCDepth = %d" % chk.pick(3, 4)), workers=4, tag="c05sp",
                           require_actions=["New", "AppendA", "StylizeA", "PadA", "CropA", "SetLengthA", "TruncateA"])
        f_guard = {sw: pool.submit(tlc.model_check, "MC_TextSpans", cfg_text=spans_cfg.replace("%s = TRUE" % sw, "%s = FALSE" % sw), workers=2, tag="c05g")
                   for sw in ("CropClamp", "StartClamp", "CtorLen", "CropUpper")}      # each 9.10.0 behaviour must be caught by TLC
        f_ex = pool.submit(tlc.behaviours, "MC_TextOps", cfg_text=cfgt % 2, timeout=3000, tag="c05ex")
        f_sim = pool.submit(tlc.behaviours, "MC_TextOps", cfg_text=cfgt % 7, simulate="num=%d" % chk.pick(1500, 30000), depth=9,
                            seed=chk.seed + 1, timeout=3000, tag="c05sim")
        rnd = [random_history(E, chk.rng, chk.rng.randint(2, 12)) for _ in range(chk.pick(2500, 40000))]
        chk.mark("random-generate")
        r, cov, missing = f_m1.result()
        chk.add_tlc(r, "M1")
        if r.violated or missing:
            raise tlc.TLCFailure("MC_TextOps violated=%s missing=%s\n%s" % (r.violated, missing, r.out[-3000:]))
        chk.notes["m1_action_coverage"] = {k: v[1] for k, v in cov.items()}
        rs, covs, miss = f_sp.result()
        chk.add_tlc(rs, "M1-span-design-refines")
        if rs.violated or miss:
            raise tlc.TLCFailure("MC_TextSpans violated=%s missing=%s\n%s" % (rs.violated, miss, rs.out[-3000:]))
        for sw, f in f_guard.items():
            rg, _, _ = f.result()
            chk.add_tlc(rg, "M1-span-design-guard")
            if not rg.violated:
                raise tlc.TLCFailure("vacuity guard: MC_TextSpans with %s = FALSE was not rejected" % sw)
        chk.notes["span_design_defect_switches_caught"] = ["CropClamp", "StartClamp", "CtorLen", "CropUpper"]
        behs, r2 = f_ex.result()
        chk.add_tlc(r2, "M2-exhaustive-depth-2")
        sims, r3 = f_sim.result()
        chk.add_tlc(r3, "M2-simulate-depth-7")
        pool.shutdown()
        behs += sims
        chk.notes["tlc_generated_histories"] = len(behs)
        chk.mark("M1+M2 (concurrent)")
        if not behs:
            raise tlc.TLCFailure("MC_TextOps generated no behaviours\n" + r2.out[-2000:])
        for b in behs:
            hists.append([dict(o, **{k: rewidth(E, o[k]) for k in ("t", "str", "ch", "parts", "sep2", "others", "toks") if k in o},
                               **({"sep": rewidth(E, o["sep"])} if o["k"] == "join" else {})) for o in b["beh"]])
        hists += rnd
    recs = []
    for ops in hists:
        ev = execute(E, ops)
        recs.append(ev)
        styled = any(c[1] for e in ev for c in e["obs"]["chars"])
        chk.case(ops, styled and len(ops) >= 2)
    chk.mark("execute")
    verdicts, st = tlc.judge("Trace_TextOps", recs)
    chk.mark("M3-judge")
    chk.add_tlc(st, "M3")
    chk.traces += len(recs)
    for ops, ev, v in zip(hists, recs, verdicts):
        if v != "ok":
            parts = v.split(" ")
            step = int(parts[1]) if parts[0] == "step" and parts[1].isdigit() else 0
            op = ops[step - 1] if 1 <= step <= len(ops) else {"k": "?"}
            clause = v.split(": ")[-1]
            sig = "%s op=%s %s" % (clause, op["k"], shape(op))
            chk.reject(sig.strip(), v, dict(ops=ops[:step] if step else ops, observed=ev[step - 1] if step else None))
    chk.sample(dict(ops=hists[0], observed=recs[0][-1]["obs"]))
    chk.sample(dict(ops=hists[-1], observed=recs[-1][-1]["obs"]))
