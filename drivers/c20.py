"""C20 - theme stack.  TLC enumerates / we sample push/pop/use_theme histories; each is run on a
real Console (or a bare ThemeStack); the observed lookup table after every call goes back to TLC
(Trace_ThemeStack).  Second part: Theme -> .config -> Theme.from_file / Theme.read (Trace_ThemeConfig).

Dimensions the generators vary (audit-2): theme values given as Style objects or definition strings, null
styles and link styles as theme entries, names with upper case / dots / underscores / digits, names that are
also (multi-word, link) style definitions, definitions no theme defines, Theme() constructor forms, the
console's default theme, omitted `inherit` arguments, re-used ThemeContext objects, Theme objects shared by
pushes and by two consoles run interleaved, bare ThemeStack histories, lookups before the first push, sparse
lookups, get_style(name, default=...)."""
import io
import json
import os
import random
import shutil
import tempfile

from engine import tlc
from engine.harness import Check

NAMES = {
    "n1": "vn1", "n2": "vn2",
    "n3": "Vn_3.X9-z",                           # upper case, underscore, dot, digit, hyphen: names are compared as given
    "d1": "repr.number", "d2": "rule.line",      # names of DEFAULT_STYLES
    "q1": "#102030",                             # a name that is also a valid style definition: the theme entry must win
    "q2": "not bold link http://e.x/a=b;c#d",    # several words, `not`, a link - as a theme name and as a definition
    "u1": "bold italic red on color(7)",         # a definition no theme ever defines
}
ORDER = ["n1", "n2", "n3", "d1", "d2", "q1", "q2", "u1"]
DEFINABLE = ["n1", "n2", "n3", "d1", "d2", "q1", "q2"]
SID_DEFS = {"s0": ["none", ""], "s1": ["bold red", "b RED"], "s2": ["underline blue", "u  blue"],
            "s3": ["italic link https://example.org/x?y=1;z#f"]}
# constants of the M1/M2 model (four names are enough there; the trace judge knows all eight)
CFG_CONST = 'CONSTANTS\n  Names = {"n1", "n2", "d1", "q1"}\n  DefaultNames = {"d1"}\n  Sids = {"s1", "s2"}\n'
BAD_DEFAULT = "vn9 !!"


class Env:
    def __init__(self):
        from rich.console import Console
        from rich.style import Style
        from rich.theme import Theme, ThemeStack, ThemeStackError
        from rich.default_styles import DEFAULT_STYLES
        from rich import errors
        self.Console, self.Style, self.Theme, self.ThemeStack, self.ThemeStackError = Console, Style, Theme, ThemeStack, ThemeStackError
        self.errors = errors
        self.DEFAULT_STYLES = DEFAULT_STYLES
        self.sid = {"s0": Style(), "s1": Style(bold=True, color="red"), "s2": Style(underline=True, color="blue"),
                    "s3": Style(italic=True, link="https://example.org/x?y=1;z#f")}
        self.X = Style(frame=True, color="magenta")          # a Style object given as `default=`
        from rich import themes
        self.themes_default = lambda: themes.DEFAULT
        # what the default names meant before any theme was built (a tree that lets themes write into
        # DEFAULT_STYLES must not move the reference)
        self.dflt = {n: DEFAULT_STYLES.get(NAMES[n]) for n in ("d1", "d2")}
        self.parsed = {}
        for n, real in NAMES.items():
            try:
                self.parsed[n] = Style.parse(real)
            except errors.StyleSyntaxError:
                self.parsed[n] = None
        # the projection below is only lexical if the reference styles are pairwise distinct
        for n in NAMES:
            ref = list(self.sid.values()) + [v for v in (self.dflt.get(n), self.parsed[n]) if v is not None]
            for i in range(len(ref)):
                for j in range(i):
                    if ref[i] == ref[j]:
                        raise RuntimeError("c20: reference styles for %s are not distinct in this tree" % n)


def make_theme(th, env, cache=None):
    """Build the Theme a spec describes: dict(styles={name: sid}, ti, forms={name: "obj"|"str"|"str2"}, ctor)."""
    key = json.dumps(th, sort_keys=True)
    if cache is not None and key in cache:
        return cache[key]
    forms = th.get("forms") or {}
    styles = {}
    for n, v in (th["styles"] or {}).items():
        f = forms.get(n, "obj")
        if f == "obj":
            styles[NAMES[n]] = env.sid[v]
        elif f == "new":
            styles[NAMES[n]] = env.Style.parse(SID_DEFS[v][0]) + env.Style()     # an equal style object of its own
        else:
            defs = SID_DEFS[v]
            styles[NAMES[n]] = defs[(1 if f == "str2" else 0) % len(defs)]
    ctor, ti = th.get("ctor", "kw"), th["ti"]
    if ctor == "none" and not styles:
        t = env.Theme(inherit=ti) if not ti else (env.Theme() if th.get("bare") else env.Theme(None, inherit=True))
    elif ctor == "omit" and ti:
        t = env.Theme(styles)
    elif ctor == "pos":
        t = env.Theme(styles, ti)
    else:
        t = env.Theme(styles, inherit=ti)
    if cache is not None:
        cache[key] = t
    return t


def token(n, out, env):
    """Lexical projection of the outcome of one lookup of name n: a style id, "D" (the DEFAULT_STYLES entry),
    "P" (what parsing the name as a definition gives: an equal style, or MissingStyle when it does not parse)."""
    if out[0] == "exc":
        return "exc:" + out[1]
    if out[0] == "absent":
        return "P"
    parsed = env.parsed[n]
    if out[0] == "missing":
        return "P" if parsed is None else "missing"
    st = out[1]
    if not isinstance(st, env.Style):
        return "nonstyle"
    for k, v in env.sid.items():
        if st == v:
            return k
    if env.dflt.get(n) is not None and st == env.dflt[n]:
        return "D"
    if parsed is not None and st == parsed:
        return "P"
    return "other"


def lookup(target, via, real, env, **kw):
    try:
        if via == "stack":
            st = target.get(real)
            return ("absent",) if st is None else ("style", st)      # no theme in effect defines it
        return ("style", target.get_style(real, **kw))
    except env.errors.MissingStyle:
        return ("missing",)
    except Exception as e:  # undocumented
        return ("exc", type(e).__name__)


def observe(target, via, look, env):
    """look = None (all names, plain lookups) or dict(names=[...], dflt=[[n, dk, dn], ...], dfirst=bool)."""
    obs = {n: "-" for n in ORDER}
    obsd = {n: dict(tn="-", dk="none", dn="n1", tm="-") for n in ORDER}
    names = ORDER if look is None else look["names"]
    dq = [] if look is None or via == "stack" else look.get("dflt", [])

    def plain():
        for n in names:
            obs[n] = token(n, lookup(target, via, NAMES[n], env), env)

    def withdefault():
        for n, dk, dn in dq:
            if dk == "name":
                out = lookup(target, via, NAMES[n], env, default=NAMES[dn])
                tm = token(dn, out, env)
            elif dk == "style":
                out = lookup(target, via, NAMES[n], env, default=env.X)
                tm = "X" if out[0] == "style" and isinstance(out[1], env.Style) and out[1] == env.X else "other"
            elif dk == "bad":
                out = lookup(target, via, NAMES[n], env, default=BAD_DEFAULT)
                tm = "P" if out[0] == "missing" else "other"
            else:
                out = lookup(target, via, NAMES[n], env, default=None)
                tm = "-"
            obsd[n] = dict(tn=token(n, out, env), dk=dk, dn=dn, tm=tm)

    if look is not None and look.get("dfirst"):
        withdefault(); plain()
    else:
        plain(); withdefault()
    return obs, obsd


class Runner:
    """One history on one real Console / ThemeStack, stepped from outside so that two can be interleaved."""

    def __init__(self, case, env, cache):
        self.case, self.env, self.cache = case, env, cache
        self.via = case.get("via", "console")
        self.looks = case.get("looks")
        self.i = 0
        self.events, self.ctxs, self.made = [], [], {}
        self.target = self.new_target()
        first = self.target if case.get("pre") else self.new_target()
        obs, obsd = observe(first, self.via, self.looks[0] if self.looks else None, env)
        self.init = dict(obs=obs, obsd=obsd)

    def new_target(self):
        env, base = self.env, self.case["base"]
        if self.via == "stack":
            return env.ThemeStack(env.themes_default() if base.get("default") else make_theme(base, env, self.cache))
        if base.get("default"):
            return env.Console(file=io.StringIO()) if base.get("omit") else env.Console(file=io.StringIO(), theme=None)
        return env.Console(file=io.StringIO(), theme=make_theme(base, env, self.cache))

    def more(self):
        return self.i < len(self.case["ops"])

    def step(self):
        env, op, t = self.env, self.case["ops"][self.i], self.target
        self.i += 1
        e = dict(op)
        e["err"] = "none"
        try:
            k = op["k"]
            if k == "push":
                th = make_theme(op["th"], env, self.cache)
                if self.via == "stack":
                    if op.get("inhd") and op["inh"]:
                        t.push_theme(th)
                    elif op.get("pos"):
                        t.push_theme(th, op["inh"])
                    else:
                        t.push_theme(th, inherit=op["inh"])
                elif op.get("inhd") and op["inh"]:
                    t.push_theme(th)
                else:
                    t.push_theme(th, inherit=op["inh"])
            elif k in ("pop", "popbase"):
                e["k"] = "pop"
                try:
                    t.pop_theme()
                except env.ThemeStackError:
                    e["err"] = "ThemeStackError"
            elif k == "enter":
                e["reused"] = False
                c = self.made.get(op.get("ctx")) if op.get("ctx") is not None else None
                if c is not None:
                    e["reused"] = True
                else:
                    th = make_theme(op["th"], env, self.cache)
                    c = t.use_theme(th) if (op.get("inhd") and op["inh"]) else t.use_theme(th, inherit=op["inh"])
                    self.made[self.i - 1] = c
                self.ctxs.append(None)          # replaced when __enter__ came back
                c.__enter__()
                self.ctxs[-1] = c
            elif k == "exit":
                c = self.ctxs.pop()
                if c is None:                    # the enter of this block raised: there is no block to leave
                    e["k"] = "noop"
                elif op.get("exc"):
                    try:
                        raise KeyError("body")
                    except KeyError as ex:
                        swallowed = c.__exit__(type(ex), ex, ex.__traceback__)
                    e["propagated"] = not swallowed
                else:
                    c.__exit__(None, None, None)
                    e["propagated"] = True
        except Exception as ex:
            e["err"] = "exc:" + type(ex).__name__
        e["obs"], e["obsd"] = observe(t, self.via, self.looks[self.i] if self.looks else None, env)
        self.events.append(e)

    def record(self):
        return dict(base=self.case["base"], init=self.init, events=self.events)


def execute_group(group, env):
    """A group is one history, or two histories run interleaved (sched) on two consoles; with share the
    Theme objects of equal specs are one object (pushed several times, base of both consoles)."""
    cache = {} if group.get("share") else None
    runners = [Runner(c, env, cache) for c in group["cases"]]
    for i in group.get("sched", []):
        if runners[i].more():
            runners[i].step()
    for r in runners:
        while r.more():
            r.step()
    return [r.record() for r in runners]


# ---- generators ---------------------------------------------------------------------------------------
THEME_POOL = [
    dict(styles={"n1": "s1"}, ti=False), dict(styles={"n1": "s2", "n2": "s1"}, ti=False),
    dict(styles={"d1": "s2"}, ti=False), dict(styles={"n2": "s2"}, ti=True),
    dict(styles={"q1": "s1"}, ti=False), dict(styles={}, ti=False), dict(styles={}, ti=True),
    dict(styles={"n1": "s1", "n2": "s2", "d1": "s1", "q1": "s2"}, ti=False),
    dict(styles={"q1": "s2", "d1": "s1"}, ti=True),
    # audit-2: null-style and link-style entries, the other names
    dict(styles={"n1": "s0"}, ti=False), dict(styles={"d1": "s0", "q1": "s0"}, ti=False),
    dict(styles={"n3": "s1"}, ti=False), dict(styles={"n3": "s3", "q2": "s1"}, ti=True),
    dict(styles={"q2": "s0", "d2": "s3"}, ti=False), dict(styles={"n1": "s3", "d2": "s2"}, ti=True),
]


def dress(rng, th):
    """choose how the theme is written down (does not change what it means)"""
    th = dict(styles=dict(th["styles"]), ti=th["ti"])
    th["forms"] = {n: rng.choice(["obj", "obj", "str", "str2", "new"]) for n in th["styles"]}
    if not th["styles"]:
        th["ctor"] = rng.choice(["kw", "none", "none", "pos"])
        if th["ctor"] == "none" and th["ti"]:
            th["bare"] = rng.random() < 0.5
    else:
        th["ctor"] = rng.choice(["kw", "kw", "pos"] + (["omit"] if th["ti"] else []))
    return th


def random_theme(rng, pool=None):
    if pool and rng.random() < 0.7:
        return rng.choice(pool)              # the same spec again: with share it is the same Theme OBJECT
    if rng.random() < 0.6:
        return dress(rng, rng.choice(THEME_POOL))
    k = rng.choice([0, 1, 1, 2, 2, 3, 5, 7])
    return dress(rng, dict(styles={n: rng.choice(["s0", "s1", "s2", "s3"]) for n in rng.sample(DEFINABLE, k)}, ti=rng.random() < 0.4))


def random_base(rng, pool=None):
    if pool and rng.random() < 0.3:
        return rng.choice(pool)              # a Theme object that is a console's base and is pushed as well
    if rng.random() < 0.25:
        return dict(styles={}, ti=True, default=True, omit=rng.random() < 0.5)   # Console() / Console(theme=None)
    return random_theme(rng)


def random_history(rng, n, via="console", pool=None):
    ops, depth, blocks, enters = [], 1, [], []
    for _ in range(n):
        floor = (blocks[-1] + 1) if blocks else 1
        choices = ["push", "enter"] if via == "console" else ["push", "push"]
        if depth > floor:
            choices += ["pop", "pop"]
        if blocks and depth == blocks[-1] + 1:
            choices += ["exit", "exit"]
        if depth == 1 and not blocks:
            choices += ["popbase"]
        k = rng.choice(choices)
        if k in ("push", "enter"):
            op = dict(k=k, th=random_theme(rng, pool), inh=rng.random() < 0.5)
            if k == "enter" and enters and rng.random() < 0.25:
                j = rng.choice(enters)                      # the same ThemeContext object entered again
                op = dict(k=k, th=ops[j]["th"], inh=ops[j]["inh"], ctx=j)
            else:
                if op["inh"] and rng.random() < 0.35:
                    op["inhd"] = True                       # leave `inherit` to its documented default
                if via == "stack" and rng.random() < 0.4:
                    op["pos"] = True
                if k == "enter":
                    enters.append(len(ops))
            ops.append(op)
            if k == "enter":
                blocks.append(depth)
            depth += 1
        elif k == "pop":
            ops.append(dict(k="pop"))
            depth -= 1
        elif k == "popbase":
            ops.append(dict(k="popbase"))
        else:
            ops.append(dict(k="exit", exc=rng.random() < 0.5))
            blocks.pop()
            depth -= 1
    return ops


def random_looks(rng, nsteps, via):
    """which names are looked up after which step, and how (None = every name, plainly)"""
    r = rng.random()
    if r < 0.35:
        return None
    looks = []
    p = rng.choice([0.3, 0.6, 1.0])
    for _ in range(nsteps + 1):
        names = [n for n in ORDER if rng.random() < p]
        dflt = []
        if via == "console":
            for n in ORDER:
                if rng.random() < 0.35:
                    dflt.append([n, rng.choice(["name", "name", "style", "bad", "none"]), rng.choice(ORDER)])
        looks.append(dict(names=names, dflt=dflt, dfirst=rng.random() < 0.5))
    return looks


def deep_history(rng, via, pool=None):
    """a tall stack: 17-40 nested pushes, nearly all inheriting (a run of non-inheriting pushes keeps a stack shallow in effect),
    looked up all the way up and all the way down again - implementations that change representation with depth live here"""
    ops = []
    up = rng.randint(17, 40)
    for _ in range(up):
        op = dict(k="push", th=random_theme(rng, pool), inh=rng.random() < 0.93)
        if via == "stack" and rng.random() < 0.4:
            op["pos"] = True
        ops.append(op)
    for _ in range(rng.choice([up, up, rng.randint(0, up)])):
        ops.append(dict(k="pop"))
    return ops


def random_case(rng, pool=None):
    via = "stack" if rng.random() < 0.2 else "console"
    ops = deep_history(rng, via, pool) if rng.random() < 0.05 else random_history(rng, rng.randint(1, 14), via, pool)
    return dict(base=random_base(rng, pool), ops=ops, via=via, pre=rng.random() < 0.5, looks=random_looks(rng, len(ops), via))


def random_group(rng):
    share = rng.random() < 0.65
    # a small pool of theme specs per group: with share each is ONE Theme object, pushed several times at different
    # depths, over different underlying stacks, with both inherit values, by push_theme / use_theme / ThemeStack
    pool = [random_theme(rng) for _ in range(rng.randint(2, 4))] if share else None
    a = random_case(rng, pool)
    if share and rng.random() < 0.6:
        b = random_case(rng, pool)
        if rng.random() < 0.6:
            b["base"] = a["base"]                       # one Theme object is the base of both consoles
        sched = [0] * len(a["ops"]) + [1] * len(b["ops"])
        rng.shuffle(sched)
        return dict(cases=[a, b], sched=sched, share=True)
    return dict(cases=[a], sched=[], share=share)


def norm_theme(th):
    st = th.get("styles")
    return dict(styles=dict(st) if isinstance(st, dict) else {}, ti=th["ti"])


def relabel(rng, base, ops):
    """The model is symmetric in names of one kind and in style ids: rename those of a TLC-generated history."""
    ns = rng.sample(["n1", "n2", "n3"], 2)
    nm = {"n1": ns[0], "n2": ns[1], "d1": rng.choice(["d1", "d2"]), "q1": rng.choice(["q1", "q2"])}
    ss = rng.sample(["s0", "s1", "s2", "s3"], 2)
    sm = {"s1": ss[0], "s2": ss[1]}

    memo = {}

    def th(t):
        key = json.dumps(t, sort_keys=True)      # one way of writing it per theme: equal themes of the history are one object under share
        if key not in memo:
            memo[key] = dress(rng, dict(styles={nm[n]: sm[v] for n, v in t["styles"].items()}, ti=t["ti"]))
        return memo[key]
    out = []
    for o in ops:
        o = dict(o)
        if "th" in o:
            o["th"] = th(o["th"])
            if o["inh"] and rng.random() < 0.25:
                o["inhd"] = True
        out.append(o)
    return th(base), out


def op_sig(o):
    if not o:
        return "op=None inherit=None"
    return "op=%s inherit=%s" % (o.get("k"), o.get("inh"))


def run(chk: Check):
    env = Env()
    chk.rule = ("histories of push_theme/pop_theme/use_theme(enter/exit, with exception) enumerated by TLC (all histories of "
                "GenDepth ops over 6 themes x inherit, names and style ids renamed at random within their kind) plus seeded "
                "random histories of up to 14 ops over 15 listed + random themes (entries: null / attribute+colour / link "
                "styles, given as Style objects or definition strings), run on a Console (own theme or the default theme) or "
                "a bare ThemeStack, alone or two interleaved on consoles sharing their Theme objects; after every call a "
                "chosen set of 8 names (custom, upper case/dotted, two DEFAULT_STYLES names, two names that are definitions, "
                "one definition no theme defines) is looked up plainly and/or with default=name/Style/invalid/None; "
                "a case is a distinct (base theme, op list, lookups); non-trivial = at least one push with a pop/exit after it "
                "or a non-inheriting push.  Config part: a case is a theme (0..300 names, styles over 13 attributes x colour "
                "kinds x links, built by constructor / parse / + / copy / update_link / without_color / from_color / chain "
                "or given as definition strings) written with .config and read with from_file / read, inherit on or off")
    chk.trusted = ["drivers/c20.py:token (maps the outcome of a lookup to a style id / D / P by ==)",
                   "drivers/c20.py:proj_style (Style -> attribute/colour/link record via the public getters)"]
    chk.assumptions = ["use_theme blocks are well nested (pushes inside a block are popped before it exits)",
                       "get_style(name, default=...) is judged where the statement speaks: the name is defined by a theme in "
                       "effect, or parses as a definition; what an undefined, unparsable name gives with a default is DRIFT only",
                       "a ThemeContext entered a second time may refuse (raise without pushing); if it does not raise it must push",
                       "config round trip: links without whitespace, names without configparser syntax "
                       "(':', '=', leading '#', ';', '[', outer blanks) - see TODO(audit-2) in the driver"]
    groups = []
    if chk.replay_only:
        c = chk.replay_only["case"]
        if c.get("kind") == "config":
            config_roundtrip(chk, env, only=c)
            _disarm_watchdog()
            return
        if "group" in c:
            groups.append(c["group"])
        else:                                                # replay files written before audit-2
            groups.append(dict(cases=[dict(base=c["base"], ops=c["ops"])], sched=[], share=False))
    else:
        # M1: the design (collapse dictionaries at push) agrees with the declarative rule
        r, cov, missing = tlc.model_check("MC_ThemeStack", require_actions=["Push", "Pop", "PopBase", "UseEnter", "UseExit"])
        chk.add_tlc(r, "M1")
        if r.violated or missing:
            raise tlc.TLCFailure("MC_ThemeStack: violated=%s never-fired=%s\n%s" % (r.violated, missing, r.out[-2000:]))
        chk.notes["m1_action_coverage"] = {k: v[1] for k, v in cov.items()}
        # M2: every history of GenDepth operations
        depth = chk.pick(3, 4)
        cfgt = CFG_CONST + "  GenDepth = %d\nSPECIFICATION Spec\nCONSTRAINT Emit\nCHECK_DEADLOCK FALSE\n" % depth
        behs, r2 = tlc.behaviours("MC_ThemeStack", cfg_text=cfgt)
        chk.add_tlc(r2, "M2")
        base = dict(styles={"n1": "s1"}, ti=True)
        for b in behs:
            ops = [dict(o, th=norm_theme(o["th"])) if "th" in o else dict(o) for o in b["beh"]]
            if chk.rng.random() < 0.5:
                groups.append(dict(cases=[dict(base=base, ops=ops)], sched=[], share=False))      # as TLC wrote it
            else:
                b2, ops2 = relabel(chk.rng, base, ops)
                groups.append(dict(cases=[dict(base=b2, ops=ops2, pre=chk.rng.random() < 0.5)], sched=[], share=chk.rng.random() < 0.5))
        chk.notes["tlc_generated_histories"] = len(behs)
        if not behs:
            raise tlc.TLCFailure("no behaviours generated")
        for i in range(chk.pick(2500, 30000)):
            groups.append(random_group(chk.rng))
    recs, owner = [], []
    feats = {}
    for g in groups:
        out = execute_group(g, env)
        for j, rec in enumerate(out):
            recs.append(rec)
            owner.append((g, j))
            case = g["cases"][j]
            ops = case["ops"]
            nontrivial = any(o["k"] in ("pop", "exit") for o in ops) or any(o.get("inh") is False for o in ops)
            chk.case((case["base"], ops, case.get("via"), case.get("pre"), case.get("looks")), nontrivial)
            for f, on in (("via=stack", case.get("via") == "stack"), ("two-consoles", len(g["cases"]) == 2), ("shared-theme-objects", bool(g.get("share"))),
                          ("default-base", bool(case["base"].get("default"))), ("lookups-before-first-op", bool(case.get("pre"))),
                          ("sparse/default lookups", case.get("looks") is not None), ("context-reused", any("ctx" in o for o in ops)),
                          ("inherit-omitted", any(o.get("inhd") for o in ops)),
                          ("string-values", any(f2 != "obj" for o in ops if "th" in o for f2 in (o["th"].get("forms") or {}).values()))):
                feats[f] = feats.get(f, 0) + (1 if on else 0)
    chk.notes["history_feature_counts"] = feats
    verdicts, st = tlc.judge("Trace_ThemeStack", recs)
    chk.add_tlc(st, "M3")
    chk.traces += len(recs)
    for (g, j), rec, v in zip(owner, recs, verdicts):
        if v != "ok":
            case = g["cases"][j]
            ops = case["ops"]
            clause = v.split(": ")[-1]
            step = v.split(" ")[1] if v.startswith("step") else "0"
            k = step.isdigit() and int(step) >= 1 and int(step) <= len(ops) and ops[int(step) - 1] or {}
            sig = "%s %s" % (clause, op_sig(k))
            if case.get("via") == "stack":
                sig += " via=stack"
            chk.reject(sig, v, dict(base=case["base"], ops=ops, group=g, which=j, observed=rec["events"], init=rec["init"]))
    g0, gl = groups[0], groups[-1]
    chk.sample(dict(base=g0["cases"][0]["base"], ops=g0["cases"][0]["ops"], observed_tables=[e["obs"] for e in recs[0]["events"]]))
    chk.sample(dict(group=gl))
    if not chk.replay_only:
        config_roundtrip(chk, env)
    _disarm_watchdog()


def _disarm_watchdog():
    """engine/watch.py leaves its repeating ITIMER_VIRTUAL armed when the check exits; the interpreter resets the
    SIGVTALRM handler to the default early in its shutdown, so a tick that falls into the shutdown kills the process
    (exit status 128+26 after the result line was printed - seen when the run's CPU time ends near a multiple of the
    20 s tick, which the thorough tier of this driver does reproducibly).  No call into Rich follows run()."""
    import signal
    signal.setitimer(signal.ITIMER_VIRTUAL, 0)


# ---- config round trip --------------------------------------------------------------------------------
ATTRS = ["bold", "dim", "italic", "underline", "blink", "blink2", "reverse", "conceal", "strike", "underline2", "frame", "encircle", "overline"]
ABBREV = {"bold": "b", "dim": "d", "italic": "i", "underline": "u", "reverse": "r", "conceal": "c", "strike": "s", "underline2": "uu", "overline": "o"}
LINKS = ["https://example.org/a?b=c", "foo", "#top", ";x", "a=b;c:d#e", "x:y=z", "mailto:a@b.c", "[x]", "bold", "http://x.y/?q=1#f", "on", "a\\b",
         # percent signs: configparser would interpolate them (fixed in /repo a6e8678: interpolation=None)
         "file:///tmp/R%20ich", "http://x/%20y?q=50%", "%(x)s", "100%%"]
# Style names with upper-case letters, and names that differ only in case, are generated: configparser would lower-case
# option names (fixed in /repo 25fc381: optionxform = str).
# TODO(audit-2): names using configparser syntax (':' / '=' inside, leading '#' ';' '[', outer blanks, empty) do not
#   survive the round trip (witness audit_artifacts/C20/witness_keys.py); no small repair - not generated.
NAME_FORMS = ["st%d.x-%d", "my_style_%d_%d", "a.b.c%d.%d", "with space %d %d", "9lives%d-%d", "x%d!%d", "markdown.h%d%d",
              "Warn%d.Level-%d", "UPPER_%d_%d"]
FIXED_NAMES = ["repr.number", "rule.line", "bold", "red", "none", "on", "link", "not", "default", "styles", "x", "a#b", "a;b",
               "Warning", "warning", "WARNING", "DEFAULT", "Repr.Number", "X"]


def proj_color(c):
    if c is None:
        return dict(k="unset", a=0, b=0, c=0)
    if c.is_default:
        return dict(k="def", a=0, b=0, c=0)
    if c.triplet is not None and c.number is None:
        return dict(k="rgb", a=c.triplet.red, b=c.triplet.green, c=c.triplet.blue)
    return dict(k="idx", a=c.number, b=0, c=0)


def proj_style(st):
    return dict(attrs=[{None: 0, True: 1, False: 2}[getattr(st, a)] for a in ATTRS], fg=proj_color(st.color), bg=proj_color(st.bgcolor),
                link=[ord(ch) for ch in (st.link or "")])


def random_style(rng, Style):
    dens = rng.choice([0.1, 0.4, 0.4, 1.0])
    kw = {a: (rng.choice([True, False]) if rng.random() < dens else None) for a in ATTRS}

    def col():
        r = rng.random()
        if r < 0.3:
            return None
        if r < 0.4:
            return "default"
        if r < 0.6:
            return rng.choice(["red", "bright_blue", "grey50", "dark_orange3", "black", "white"])
        if r < 0.75:
            return "color(%d)" % rng.randrange(256)
        if r < 0.9:
            return "#%02x%02x%02x" % (rng.randrange(256), rng.randrange(256), rng.randrange(256))
        return "rgb(%d,%d,%d)" % (rng.randrange(256), rng.randrange(256), rng.randrange(256))
    link = rng.choice(LINKS) if rng.random() < 0.4 else None
    return Style(color=col(), bgcolor=col(), link=link, **kw)


def respell(rng, text):
    """another documented spelling of the same definition (abbreviations, upper case, blanks)"""
    words, out, keep = text.split(), [], False
    for w in words:
        if keep:
            out.append(w); keep = False
            continue
        if w in ("link", "not"):
            keep = True
        elif w in ABBREV and rng.random() < 0.5:
            w = ABBREV[w]
        if rng.random() < 0.3 and w != "none":
            w = w.upper()
        out.append(w)
    return rng.choice([" ", " ", "  ", "\t"]).join(out)


def derived_style(rng, Style):
    """a style of the C06 space reached by one of its construction routes (value may be a definition string)"""
    a, b = random_style(rng, Style), random_style(rng, Style)
    route = rng.choice(["ctor", "ctor", "ctor", "parse", "add", "copy", "ulink", "nocolor", "fromcolor", "chain", "null", "str", "str"])
    if route == "parse":
        return route, Style.parse(str(a))
    if route == "add":
        return route, a + b
    if route == "copy":
        str(a)
        return route, a.copy()
    if route == "ulink":
        str(a)
        return route, a.update_link(rng.choice(LINKS + [None]))
    if route == "nocolor":
        str(a)
        return route, a.without_color
    if route == "fromcolor":
        return route, Style.from_color(a.color, a.bgcolor)
    if route == "chain":
        return route, rng.choice([Style.chain(a, b), Style.combine([a, b])])
    if route == "null":
        return route, rng.choice([Style.null(), Style(), "none", ""])
    if route == "str":
        return route, respell(rng, str(a))
    return route, a


def gen_config_case(seed, i, Style):
    rng = random.Random(seed * 1000003 + i * 7919 + 20)
    r = rng.random()
    n = 0 if r < 0.06 else (rng.randint(150, 300) if r < 0.09 else rng.randint(1, 6))
    styles, routes = {}, {}
    for j in range(n):
        name = rng.choice(FIXED_NAMES) if rng.random() < 0.15 else rng.choice(NAME_FORMS) % (i, j)
        routes[name], styles[name] = derived_style(rng, Style)
    how = dict(inherit=rng.random() < 0.3, ctor_omit=False, via=rng.choice(["file", "file", "file-source", "read"]),
               rinh=rng.choice([False, False, True, "omit"]))
    if how["inherit"] and rng.random() < 0.5:
        how["ctor_omit"] = True
    return styles, routes, how


def config_roundtrip(chk, env, only=None):
    """Theme -> config text -> Theme.from_file / Theme.read; TLC compares the projected styles name by name."""
    Style, Theme = env.Style, env.Theme
    recs, cases = [], []
    tmp = tempfile.mkdtemp(prefix="c20-", dir="/tmp")
    defaults = sorted(env.DEFAULT_STYLES)
    try:
        todo = [(only["seed"], only["i"])] if only else [(chk.seed, i) for i in range(chk.pick(600, 6000))]
        for seed, i in todo:
            styles, routes, how = gen_config_case(seed, i, Style)
            rinh = how["rinh"]
            rec = dict(names=[], exc="none", before=[], after=[], namesAfter=[], extra=defaults if rinh is not False else [])
            try:
                th = Theme(styles) if how["ctor_omit"] else Theme(styles, inherit=how["inherit"])
                rec["names"] = names = sorted(th.styles)
                rec["before"] = [proj_style(th.styles[k]) for k in names]
                text = th.config
                kw = {} if rinh == "omit" else dict(inherit=rinh)
                if how["via"] == "read":
                    path = os.path.join(tmp, "t%d.ini" % i)
                    with open(path, "wt") as f:
                        f.write(text)
                    back = Theme.read(path, **kw)
                elif how["via"] == "file-source":
                    back = Theme.from_file(io.StringIO(text), source="theme-%d.ini" % i, **kw)
                else:
                    back = Theme.from_file(io.StringIO(text), **kw)
                rec["namesAfter"] = sorted(back.styles)
                rec["after"] = [proj_style(back.styles[k]) if k in back.styles else proj_style(Style()) for k in names]
            except Exception as ex:
                rec["exc"] = type(ex).__name__
                rec["before"], rec["after"] = [], []
            recs.append(rec)
            cases.append(dict(kind="config", seed=seed, i=i, how=how, routes=routes, styles={k: str(v) for k, v in styles.items()}))
    finally:
        shutil.rmtree(tmp, ignore_errors=True)
    verdicts, st = tlc.judge("Trace_ThemeConfig", recs)
    chk.add_tlc(st, "M3-config-roundtrip")
    chk.traces += len(recs)
    for case, v in zip(cases, verdicts):
        chk.case(("config", case["styles"], case["how"]), True)
        if v != "ok":
            sig = v
            if v in ("config-names-differ",) or v.startswith("config-raises"):
                sig = "%s via=%s inherit=%s" % (v, "read" if case["how"]["via"] == "read" else "file", case["how"]["rinh"])
            chk.reject(sig, v, case)
    chk.sample(dict(kind="config-roundtrip", case=cases[-1] if len(cases[-1]["styles"]) < 10 else dict(cases[-1], styles="(%d styles)" % len(cases[-1]["styles"]))))
