"""C20 - theme stack.  TLC enumerates / we sample push/pop/use_theme histories; each is run on a
real Console; the observed get_style() table after every call goes back to TLC (Trace_ThemeStack)."""
import io

from engine import tlc
from engine.harness import Check

NAMES = {"n1": "vn1", "n2": "vn2", "d1": "repr.number", "q1": "#102030"}
CFG_CONST = 'CONSTANTS\n  Names = {"n1", "n2", "d1", "q1"}\n  DefaultNames = {"d1"}\n  Sids = {"s1", "s2"}\n'


def _env():
    from rich.console import Console
    from rich.style import Style
    from rich.theme import Theme
    from rich.default_styles import DEFAULT_STYLES
    from rich import errors
    sid = {"s1": Style(bold=True, color="red"), "s2": Style(underline=True, color="blue")}
    return Console, Style, Theme, DEFAULT_STYLES, errors, sid


def make_theme(th, env):
    Console, Style, Theme, DEFAULT_STYLES, errors, sid = env
    styles = th["styles"] or {}
    return Theme({NAMES[n]: sid[v] for n, v in styles.items()}, inherit=th["ti"])


def observe(console, env):
    Console, Style, Theme, DEFAULT_STYLES, errors, sid = env
    obs = {}
    for n, real in NAMES.items():
        try:
            st = console.get_style(real)
        except errors.MissingStyle:
            obs[n] = "P"
            continue
        except Exception as e:  # undocumented
            obs[n] = "exc:" + type(e).__name__
            continue
        if st == sid["s1"]:
            obs[n] = "s1"
        elif st == sid["s2"]:
            obs[n] = "s2"
        elif real in DEFAULT_STYLES and st == DEFAULT_STYLES[real]:
            obs[n] = "D"
        else:
            try:
                obs[n] = "P" if st == Style.parse(real) else "other"
            except Exception:
                obs[n] = "other"
    return obs


def execute(base, ops, env):
    """Run one history on a real Console, return the trace record."""
    Console, Style, Theme, DEFAULT_STYLES, errors, sid = env
    from rich.theme import ThemeStackError
    console = Console(file=io.StringIO(), theme=make_theme(base, env))
    events = []
    ctxs = []
    for op in ops:
        e = dict(op)
        e["err"] = "none"
        try:
            k = op["k"]
            if k == "push":
                console.push_theme(make_theme(op["th"], env), inherit=op["inh"])
            elif k in ("pop", "popbase"):
                e["k"] = "pop"
                try:
                    console.pop_theme()
                except ThemeStackError:
                    e["err"] = "ThemeStackError"
            elif k == "enter":
                c = console.use_theme(make_theme(op["th"], env), inherit=op["inh"])
                c.__enter__()
                ctxs.append(c)
            elif k == "exit":
                c = ctxs.pop()
                if op.get("exc"):
                    try:
                        raise KeyError("body")
                    except KeyError as ex:
                        swallowed = c.__exit__(type(ex), ex, ex.__traceback__)
                    e["propagated"] = not swallowed
                else:
                    c.__exit__(None, None, None)
                    e["propagated"] = True
        except Exception as ex:
            e["err"] = "exc:" + type(ex).__name__
        e["obs"] = observe(console, env)
        events.append(e)
    c0 = Console(file=io.StringIO(), theme=make_theme(base, env))
    return dict(base=base, init=dict(obs=observe(c0, env)), events=events)


THEME_POOL = [
    dict(styles={"n1": "s1"}, ti=False), dict(styles={"n1": "s2", "n2": "s1"}, ti=False),
    dict(styles={"d1": "s2"}, ti=False), dict(styles={"n2": "s2"}, ti=True),
    dict(styles={"q1": "s1"}, ti=False), dict(styles={}, ti=False), dict(styles={}, ti=True),
    dict(styles={"n1": "s1", "n2": "s2", "d1": "s1", "q1": "s2"}, ti=False),
    dict(styles={"q1": "s2", "d1": "s1"}, ti=True),
]


def random_history(rng, n):
    ops, depth, blocks = [], 1, []
    for _ in range(n):
        floor = (blocks[-1] + 1) if blocks else 1
        choices = ["push", "enter"]
        if depth > floor:
            choices += ["pop", "pop"]
        if blocks and depth == blocks[-1] + 1:
            choices += ["exit", "exit"]
        if depth == 1 and not blocks:
            choices += ["popbase"]
        k = rng.choice(choices)
        if k in ("push", "enter"):
            ops.append(dict(k=k, th=rng.choice(THEME_POOL), inh=rng.random() < 0.5))
            if k == "enter":
                blocks.append(depth)
            depth += 1
        elif k == "pop":
            ops.append(dict(k="pop"))
            depth -= 1
        elif k == "popbase":
            ops.append(dict(k="popbase"))
        else:
            ops.append(dict(k="exit", exc=rng.random() < 0.5))
            blocks.pop()
            depth -= 1
    return ops


def norm_theme(th):
    st = th.get("styles")
    return dict(styles=dict(st) if isinstance(st, dict) else {}, ti=th["ti"])


def run(chk: Check):
    env = _env()
    chk.rule = ("histories of push_theme/pop_theme/use_theme(enter/exit, with exception) enumerated by TLC "
                "(all histories of GenDepth ops over 6 themes x inherit) plus seeded random histories of "
                "up to 14 ops over 9 themes; a case is a distinct (base theme, op list); non-trivial = at least "
                "one push with a pop/exit after it or a non-inheriting push")
    chk.trusted = ["drivers/c20.py:observe (maps a Style to its id by ==)"]
    chk.assumptions = ["use_theme blocks are well nested (pushes inside a block are popped before it exits)"]
    cases = []
    if chk.replay_only:
        c = chk.replay_only["case"]
        cases.append((c["base"], c["ops"]))
    else:
        # M1: the design (collapse dictionaries at push) agrees with the declarative rule
        r, cov, missing = tlc.model_check("MC_ThemeStack", require_actions=["Push", "Pop", "PopBase", "UseEnter", "UseExit"])
        chk.add_tlc(r, "M1")
        if r.violated or missing:
            raise tlc.TLCFailure("MC_ThemeStack: violated=%s never-fired=%s\n%s" % (r.violated, missing, r.out[-2000:]))
        chk.notes["m1_action_coverage"] = {k: v[1] for k, v in cov.items()}
        # M2: every history of GenDepth operations
        depth = chk.pick(3, 4)
        cfgt = CFG_CONST + "  GenDepth = %d\nSPECIFICATION Spec\nCONSTRAINT Emit\nCHECK_DEADLOCK FALSE\n" % depth
        behs, r2 = tlc.behaviours("MC_ThemeStack", cfg_text=cfgt)
        chk.add_tlc(r2, "M2")
        base = dict(styles={"n1": "s1"}, ti=True)
        for b in behs:
            ops = [dict(o, th=norm_theme(o["th"])) if "th" in o else dict(o) for o in b["beh"]]
            cases.append((base, ops))
        chk.notes["tlc_generated_histories"] = len(behs)
        if not behs:
            raise tlc.TLCFailure("no behaviours generated")
        for i in range(chk.pick(1500, 20000)):
            cases.append((chk.rng.choice(THEME_POOL), random_history(chk.rng, chk.rng.randint(1, 14))))
    recs = []
    for base, ops in cases:
        recs.append(execute(base, ops, env))
        nontrivial = any(o["k"] in ("pop", "exit") for o in ops) or any(o.get("inh") is False for o in ops)
        chk.case((base, ops), nontrivial)
    verdicts, st = tlc.judge("Trace_ThemeStack", recs)
    chk.add_tlc(st, "M3")
    chk.traces += len(recs)
    for (base, ops), rec, v in zip(cases, recs, verdicts):
        if v != "ok":
            clause = v.split(": ")[-1]
            step = v.split(" ")[1] if v.startswith("step") else "0"
            k = step.isdigit() and int(step) >= 1 and int(step) <= len(ops) and ops[int(step) - 1] or {}
            sig = "%s op=%s inherit=%s" % (clause, k.get("k"), k.get("inh"))
            chk.reject(sig, v, dict(base=base, ops=ops, observed=rec["events"]))
    chk.sample(dict(base=cases[0][0], ops=cases[0][1], observed_tables=[e["obs"] for e in recs[0]["events"]]))
    chk.sample(dict(base=cases[-1][0], ops=cases[-1][1]))
    config_roundtrip(chk, env)


ATTRS = ["bold", "dim", "italic", "underline", "blink", "blink2", "reverse", "conceal", "strike", "underline2", "frame", "encircle", "overline"]


def proj_color(c):
    if c is None:
        return dict(k="unset", a=0, b=0, c=0)
    if c.is_default:
        return dict(k="def", a=0, b=0, c=0)
    if c.triplet is not None and c.number is None:
        return dict(k="rgb", a=c.triplet.red, b=c.triplet.green, c=c.triplet.blue)
    return dict(k="idx", a=c.number, b=0, c=0)


def proj_style(st):
    return dict(attrs=[{None: 0, True: 1, False: 2}[getattr(st, a)] for a in ATTRS], fg=proj_color(st.color), bg=proj_color(st.bgcolor),
                link=[ord(ch) for ch in (st.link or "")])


def random_style(rng, Style):
    kw = {a: rng.choice([None, None, None, True, False]) for a in ATTRS}
    def col():
        r = rng.random()
        if r < 0.3:
            return None
        if r < 0.4:
            return "default"
        if r < 0.6:
            return rng.choice(["red", "bright_blue", "grey50", "dark_orange3", "black", "white"])
        if r < 0.75:
            return "color(%d)" % rng.randrange(256)
        if r < 0.9:
            return "#%02x%02x%02x" % (rng.randrange(256), rng.randrange(256), rng.randrange(256))
        return "rgb(%d,%d,%d)" % (rng.randrange(256), rng.randrange(256), rng.randrange(256))
    link = rng.choice([None, None, "https://example.org/a?b=c", "foo"])
    return Style(color=col(), bgcolor=col(), link=link, **kw)


def config_roundtrip(chk, env):
    """Theme -> config text -> Theme.from_file; TLC compares the projected styles name by name."""
    Console, Style, Theme, DEFAULT_STYLES, errors, sid = env
    recs, cases = [], []
    if chk.replay_only:
        return
    for i in range(chk.pick(400, 5000)):
        n = chk.rng.randint(1, 5)
        styles = {"st%d.x-%d" % (i, j): random_style(chk.rng, Style) for j in range(n)}
        inherit = chk.rng.random() < 0.3
        rec = dict(names=sorted(styles) if not inherit else [], exc="none", before=[], after=[], namesAfter=[])
        try:
            th = Theme(styles, inherit=inherit)
            back = Theme.from_file(io.StringIO(th.config), inherit=False)
            names = sorted(th.styles)
            rec["names"] = names
            rec["namesAfter"] = sorted(back.styles)
            rec["before"] = [proj_style(th.styles[k]) for k in names]
            rec["after"] = [proj_style(back.styles[k]) if k in back.styles else proj_style(Style()) for k in names]
        except Exception as ex:
            rec["exc"] = type(ex).__name__
        recs.append(rec)
        cases.append({k: str(v) for k, v in styles.items()})
    verdicts, st = tlc.judge("Trace_ThemeConfig", recs)
    chk.add_tlc(st, "M3-config-roundtrip")
    chk.traces += len(recs)
    for case, v in zip(cases, verdicts):
        chk.case(("config", case), True)
        if v != "ok":
            chk.reject(v, v, dict(kind="config", styles=case))
    chk.sample(dict(kind="config-roundtrip", styles=cases[-1]))
