"""C08 - framing renderables draw exact rectangles around intact content.

Real Panel / Padding / Align / Constrain / Styled / Rule / Bar / ProgressBar / Columns / Tree objects of the tree under
test are rendered with Console.render; what happened is projected lexically (one integer per character: code point * 4 +
cell width from rich.cells of the tree under test; optionally one style id per character) and judged by TLC
(specs/Trace_Frames.tla, relations of specs/Frames.tla).  For the single-child frames the driver observes the
ConsoleOptions the frame hands to its child (Console.render is wrapped), renders the child ALONE with exactly those
options and logs both renders: "the child's own rendered lines" and "the inner width" are observations, never computed
from the frame arithmetic under test.  Columns items and tree labels are self-identifying (every item / node has its own
character).  MC_Frames (M1) shows the relations satisfiable by the design arithmetic and not by three classic wrong
designs; its compositions (M2) are replayed on the real classes."""
import io
import json

from engine import tlc
from engine.harness import Check

ASCII_IDS = "abcdefghijklmnopqrstuvwxyzABCDEFGHIJKLMNOPQRSTUVWXYZ"
FRAMES = ("panel", "padding", "align", "constrain", "styled")
PADS = [0, 1, [0, 1], [1, 2], [0, 0, 0, 0], [1, 2, 0, 3], [0, 3, 1, 0], [2], [0, 0], [1, 0, 0, 4], 3, [0, 5]]
ENVS = [dict(asc=False, legacy=False, color="none")] * 6 + [dict(asc=True, legacy=False, color="none"),
                                                             dict(asc=False, legacy=True, color="none"),
                                                             dict(asc=True, legacy=True, color="none"),
                                                             dict(asc=False, legacy=False, color="truecolor")]


# ---------------------------------------------------------------------------------------------------------------------
class Ctx:
    """classes of the tree under test, consoles, the render hook"""

    def __init__(self):
        from rich import box as rbox
        from rich.align import Align
        from rich.bar import Bar
        from rich.cells import get_character_cell_size
        from rich.columns import Columns
        from rich.console import Console, RenderGroup
        from rich.constrain import Constrain
        from rich.padding import Padding
        from rich.panel import Panel
        from rich.progress_bar import ProgressBar
        from rich.rule import Rule
        from rich.styled import Styled
        from rich.table import Table
        from rich.text import Text
        from rich.tree import Tree
        self.__dict__.update(locals())
        self.cw = get_character_cell_size
        self.box_names = sorted(n for n in dir(rbox) if n.isupper() and isinstance(getattr(rbox, n), rbox.Box))
        self.legacy_subst = getattr(rbox, "LEGACY_WINDOWS_SUBSTITUTIONS", {})
        self._consoles = {}
        self.log = None
        self.G = None
        self.Genv = None
        try:                                   # build-c01's generator (optional, read-only)
            from drivers import layout_gen as G
            self.G, self.Genv = G, G.Env()
        except Exception:                      # pragma: no cover
            self.G = None
        ctx = self
        if getattr(Console, "_c08_orig_render", None) is None:
            Console._c08_orig_render = Console.render
        orig = Console._c08_orig_render

        def render(self, renderable, options=None):
            log = ctx.log
            if log is not None:
                log.append((renderable, options or self.options))
            return orig(self, renderable, options)
        Console.render = render

    def close(self):
        self.Console.render = self.Console._c08_orig_render

    def console(self, W, env):
        key = (W, env["asc"], env["legacy"], env["color"])
        c = self._consoles.get(key)
        if c is None:
            f = io.StringIO()
            if env["asc"]:
                class F(io.StringIO):
                    encoding = "ascii"
                f = F()
            cs = env["color"]
            c = self.Console(width=W, height=25, file=f, color_system=None if cs in ("none",) else ("truecolor" if cs == "nocolor" else cs),
                             legacy_windows=env["legacy"], no_color=cs == "nocolor")
            self._consoles[key] = c
        return c

    # ---- lexical projection ------------------------------------------------------------------------------------
    def cells(self, s):
        cw = self.cw
        return [ord(ch) * 4 + cw(ch) for ch in s]

    def lines(self, segs, styles=None):
        """segments -> lines of cells (and, aligned, lines of style ids when `styles` (a dict) is given)"""
        cw = self.cw
        out, sty = [[]], [[]]
        for seg in segs:
            if seg.is_control:
                continue
            sid = 0
            if styles is not None and seg.style is not None:
                key = str(seg.style) + "|" + (seg.style.link or "")
                sid = 0 if key == "none|" else styles.setdefault(key, len(styles) + 1)
            for ch in seg.text:
                if ch == "\n":
                    out.append([])
                    sty.append([])
                else:
                    out[-1].append(ord(ch) * 4 + cw(ch))
                    sty[-1].append(sid)
        if not out[-1]:
            out.pop()
            sty.pop()
        return out, sty

    def box_cells(self, b):
        return self.cells(b.top_left + b.top + b.top_right + b.mid_left + b.mid_right + b.bottom_left + b.bottom + b.bottom_right)

    # ---- construction ------------------------------------------------------------------------------------------
    def build(self, s):
        k = s["k"]
        if k == "text":
            if s.get("str"):
                return "".join(s["s"])
            return self.Text(s["s"], justify=s.get("j"), overflow=s.get("o"), style=s.get("st") or "")
        if k == "table":
            t = self.Table(box=getattr(self.rbox, s["box"]) if s.get("box") else None, show_header=bool(s.get("hdr")), expand=bool(s.get("exp")))
            for j in range(len(s["cells"][0])):
                t.add_column(s["hdr"][j] if s.get("hdr") else "")
            for row in s["cells"]:
                t.add_row(*row)
            return t
        if k == "group":
            return self.RenderGroup(*[self.build(c) for c in s["ch"]])
        if k in FRAMES:
            return self.frame(s, self.build(s["c"]))
        if k == "rule":
            title = s["title"]
            if s.get("ttext"):
                title = self.Text(title)
            return self.Rule(title, characters=s["chars"], align=s["al"])
        if k == "bar":
            return self.Bar(s["size"], s["begin"], s["end"], width=s.get("w"))
        if k == "pbar":
            return self.ProgressBar(total=s["total"], completed=s["completed"], width=s.get("w"), pulse=s.get("pulse", False),
                                    animation_time=s.get("at", 0.0))
        if k == "g":
            return self.G.build(s["tree"], self.Genv)
        raise ValueError(k)

    @staticmethod
    def padarg(p):
        return p if isinstance(p, int) else tuple(p)

    def frame(self, s, child):
        k = s["k"]
        if k == "panel":
            kw = {}
            if s.get("style"):
                kw["style"] = s["style"]
            if s.get("bstyle"):
                kw["border_style"] = s["bstyle"]
            title = s.get("title")
            if title and s.get("ttext"):
                title = self.Text(title)
            return self.Panel(child, getattr(self.rbox, s["box"]), title=title or None, title_align=s.get("ta", "center"),
                              expand=s["ex"], width=s.get("w"), padding=self.padarg(s["pad"]), **kw)
        if k == "padding":
            return self.Padding(child, self.padarg(s["pad"]), expand=s["ex"], **({"style": s["style"]} if s.get("style") else {}))
        if k == "align":
            return self.Align(child, s["al"], style=s.get("style"), pad=s["pad"], width=s.get("w"))
        if k == "constrain":
            return self.Constrain(child, s.get("w"))
        if k == "styled":
            return self.Styled(child, s["style"])
        raise ValueError(k)


# ---------------------------------------------------------------------------------------------------------------------
# structural minimum (Layout!MinW) - used only to CHOOSE widths; TLC re-checks W >= m from the logged m
def unpack(p):
    if isinstance(p, int):
        return p, p, p, p
    if len(p) == 1:
        return p[0], p[0], p[0], p[0]
    if len(p) == 2:
        return p[0], p[1], p[0], p[1]
    return tuple(p)


def text_min(ctx, s):
    return 2 if any(ctx.cw(c) == 2 for c in s) else 1


def minw(ctx, s):
    k = s["k"]
    if k == "text":
        return text_min(ctx, s["s"])
    if k == "table":
        nc = len(s["cells"][0])
        cols = []
        for j in range(nc):
            cm = max([text_min(ctx, row[j]) for row in s["cells"]] + ([text_min(ctx, s["hdr"][j])] if s.get("hdr") else []) + [1])
            cols.append(cm + 2)
        return sum(cols) + ((2 + nc - 1) if s.get("box") else 0)
    if k == "group":
        return max([minw(ctx, c) for c in s["ch"]] + [1])
    if k == "panel":
        _, r, _, l = unpack(s["pad"])
        return 2 + l + r + minw(ctx, s["c"])
    if k == "padding":
        _, r, _, l = unpack(s["pad"])
        return l + r + minw(ctx, s["c"])
    if k in ("align", "constrain", "styled"):
        return minw(ctx, s["c"])
    if k == "rule":
        return (2 if text_min(ctx, s["chars"] + s["title"]) == 2 else 1) + (4 if s["title"] else 0)
    if k in ("bar", "pbar"):
        return 1
    if k == "columns":
        return max([minw(ctx, c) for c in s["items"]] + [1] + ([text_min(ctx, s["title"])] if s.get("title") else []))
    if k == "tree":
        def tm(n, d):
            return max([4 * d + minw(ctx, n["label"])] + ([tm(c, d + 1) for c in n["ch"]] if n["exp"] else []))
        return tm(s, 0)
    if k == "g":
        return ctx.G.minw_py(s["tree"])
    raise ValueError(k)


# ---------------------------------------------------------------------------------------------------------------------
# random content
class Ids:
    """hands out identifying characters: each line / item / node gets its own"""

    def __init__(self):
        self.n = 0
        self.nw = 0

    def narrow(self):
        i = self.n
        self.n += 1
        return ASCII_IDS[i] if i < 52 else chr(0x0430 + (i - 52) % 30)      # cyrillic: width 1

    def wide(self):
        i = self.nw
        self.nw += 1
        return chr(0x4E00 + i)


def gen_line(rng, ids, flavour, maxwords=4, maxlen=6):
    """one self-identifying line: words made of this line's own character"""
    if flavour == "wide" or (flavour == "mixed" and rng.random() < 0.4):
        c = ids.wide()
    else:
        c = ids.narrow()
    words = []
    for _ in range(rng.randint(1, maxwords)):
        w = c * rng.randint(1, maxlen)
        if flavour in ("zero", "mixed") and rng.random() < 0.5:
            w = w[:1] + rng.choice(["\u0301", "\u200d", "\u0300\u0301"]) + w[1:]
        words.append(w)
    return " ".join(words)


def gen_text(rng, ids, flavour=None, multiline=None):
    flavour = flavour or rng.choice(["ascii", "ascii", "ascii", "wide", "zero", "mixed"])
    n = 1
    if multiline or (multiline is None and rng.random() < 0.4):
        n = rng.randint(2, 4)
    s = "\n".join(gen_line(rng, ids, flavour) for _ in range(n))
    t = dict(k="text", s=s)
    r = rng.random()
    if r < 0.2:
        t["str"] = True
    elif r < 0.5:
        t["j"] = rng.choice([None, "left", "center", "right", "full"])
        t["o"] = rng.choice([None, "fold", "crop", "ellipsis"])
    if not t.get("str") and rng.random() < 0.25:
        t["st"] = rng.choice(["bold", "red", "italic on blue", "underline"])
    return t


def gen_table(rng, ids):
    nc, nr = rng.randint(1, 3), rng.randint(1, 3)
    flav = rng.choice(["ascii", "ascii", "wide", "mixed"])
    return dict(k="table", box=rng.choice([None, "SQUARE", "ASCII", "ROUNDED", "SIMPLE", "HEAVY_HEAD"]),
                hdr=[gen_line(rng, ids, flav, 1, 4) for _ in range(nc)] if rng.random() < 0.5 else None,
                cells=[[gen_line(rng, ids, flav, 2, 4) for _ in range(nc)] for _ in range(nr)], exp=rng.random() < 0.3)


def gen_frame_opts(ctx, rng, kind, child, ids, inner=False):
    """options of one frame around `child` (a spec)"""
    if kind == "panel":
        s = dict(k="panel", c=child, box=rng.choice(ctx.box_names), ex=rng.random() < 0.6, pad=rng.choice(PADS), ta=rng.choice(["left", "center", "right"]))
        r = rng.random()
        if r < 0.5:
            pass
        elif r < 0.7:
            s["title"] = rng.choice(["t", "Title", "ab cd"])
        elif r < 0.8:
            s["title"] = rng.choice(["\u4e16\u754c", "a\u4e16", "e\u0301x"])
        else:
            s["title"] = " ".join(["long" + "x" * rng.randint(0, 12)] * rng.randint(1, 4))
        if s.get("title") and rng.random() < 0.3:
            s["ttext"] = True
        if rng.random() < 0.25:
            m = minw(ctx, s)
            s["w"] = m + rng.choice([0, 0, 1, 2, 3, 5, 9, 20])
        if rng.random() < 0.15:
            s["style"] = rng.choice(["red", "on blue", "bold"])
        if rng.random() < 0.1:
            s["bstyle"] = rng.choice(["green", "dim"])
        return s
    if kind == "padding":
        s = dict(k="padding", c=child, pad=rng.choice(PADS), ex=rng.random() < 0.6)
        if rng.random() < 0.15:
            s["style"] = rng.choice(["on red", "bold"])
        return s
    if kind == "align":
        s = dict(k="align", c=child, al=rng.choice(["left", "center", "center", "right"]), pad=rng.random() < 0.7)
        if rng.random() < 0.3:
            s["w"] = minw(ctx, child) + rng.choice([0, 0, 1, 2, 3, 5, 9, 20])
        if rng.random() < 0.15:
            s["style"] = rng.choice(["on red", "bold"])
        return s
    if kind == "constrain":
        return dict(k="constrain", c=child, w=None if rng.random() < 0.15 else minw(ctx, child) + rng.choice([0, 0, 1, 2, 3, 5, 9, 20, 60]))
    return dict(k="styled", c=child, style=rng.choice(["bold", "red on white", "none", "italic"]))


def gen_child(ctx, rng, ids, depth):
    r = rng.random()
    if depth <= 0 or r < 0.42:
        return gen_text(rng, ids)
    if r < 0.52:
        return gen_table(rng, ids)
    if r < 0.60:
        return dict(k="group", ch=[gen_text(rng, ids, multiline=False) for _ in range(rng.randint(1, 3))])
    if r < 0.64:
        return dict(k="rule", title=rng.choice(["", "", "r"]), chars=rng.choice(["\u2500", "-", "=-"]), al="center")
    if r < 0.68:
        if rng.random() < 0.5:
            return dict(k="bar", size=100, begin=rng.choice([0, 10, 33.3]), end=rng.choice([50, 100, 66.6]), w=rng.choice([None, None, 5]))
        return dict(k="group", ch=[dict(k="pbar", total=100, completed=rng.choice([0, 30, 100]), w=rng.choice([None, 6]), pulse=False),
                                   gen_text(rng, ids, multiline=False)])
    if r < 0.80 and ctx.G is not None:
        for _ in range(20):
            t = ctx.G.gen(rng, min(depth, 2), True, False)
            if ctx.G.inscope_py(t, True) and len(json.dumps(t)) < 6000:
                return dict(k="g", tree=t)
        return gen_text(rng, ids)
    kind = rng.choice(FRAMES)
    return gen_frame_opts(ctx, rng, kind, gen_child(ctx, rng, ids, depth - 1), ids, inner=True)


def pick_widths(rng, m, n, top=120):
    cand = [m, m, m + 1, m + 2, m + 3, m + 4, m + 5, m + 7, m + 8, m + 13, m + 20, 2 * m + 11, 40, 41, 80, top]
    ws = {m} if rng.random() < 0.7 else set()
    while len(ws) < n:
        w = rng.choice(cand)
        if m <= w <= 200:
            ws.add(w)
    return sorted(ws)


def gen_frame_cases(ctx, rng, kind, ncases, nwidths):
    out = []
    for _ in range(ncases):
        ids = Ids()
        child = gen_child(ctx, rng, ids, rng.choice([0, 0, 1, 1, 2, 3]))
        spec = gen_frame_opts(ctx, rng, kind, child, ids)
        m = minw(ctx, spec)
        env = rng.choice(ENVS)
        for W in pick_widths(rng, m, nwidths):
            out.append(dict(kind=kind, spec=spec, W=W, env=env))
    return out


RULE_CHARS = ["\u2500", "\u2500", "-", "=-", "\u4e16", "\u2501\u4e16", "a\u0301", "* ", "ab\u4e16", "\u2550", "\u4e16\u754c"]


def gen_rule_cases(ctx, rng, ncases, nwidths):
    out = []
    for _ in range(ncases):
        r = rng.random()
        if r < 0.3:
            title = ""
        elif r < 0.6:
            title = rng.choice(["t", "Title", "two words", "x y z"])
        elif r < 0.75:
            title = rng.choice(["\u4e16\u754c", "a\u4e16b", "e\u0301te\u0301", "\u4e16 \u754c \u4e16", "\u200dzw"])
        else:
            title = " ".join(["long" + "y" * rng.randint(0, 20)] * rng.randint(1, 5))
        spec = dict(k="rule", title=title, chars=rng.choice(RULE_CHARS), al=rng.choice(["left", "center", "center", "right"]))
        if title and rng.random() < 0.3:
            spec["ttext"] = True
        m = minw(ctx, spec)
        env = rng.choice(ENVS)
        for W in pick_widths(rng, m, nwidths):
            out.append(dict(kind="rule", spec=spec, W=W, env=env))
    return out


BAR_ENVS = [dict(asc=False, legacy=False, color="truecolor")] * 4 + [dict(asc=False, legacy=False, color="standard"), dict(asc=False, legacy=False, color="none"),
                                                                   dict(asc=False, legacy=False, color="nocolor"), dict(asc=True, legacy=False, color="truecolor"),
                                                                   dict(asc=False, legacy=True, color="standard"), dict(asc=True, legacy=False, color="none")]


def gen_bar_cases(ctx, rng, ncases, nwidths):
    out = []
    for _ in range(ncases):
        if rng.random() < 0.45:
            size = rng.choice([100, 100, 1, 7, 0.5, 3])
            b = rng.choice([0, 0, -1, size * 0.1, size / 3, size / 2, size * 0.99, size, size * rng.random()])
            e = rng.choice([0, size * 0.1, size / 2, size * 2 / 3, size * 0.999, size, size * 1.5, size * rng.random()])
            spec = dict(k="bar", size=size, begin=b, end=e, w=rng.choice([None, None, None, 1, 2, 3, 10, 40, 300]))
        else:
            total = rng.choice([100, 100, 100, 7, 1, 0, 0.3, 1000])
            spec = dict(k="pbar", total=total, completed=rng.choice([0, 3, 50, 99.9, 100, 250, -5, total, total / 2, total * rng.random()]),
                        w=rng.choice([None, None, None, 1, 2, 3, 10, 40, 300]), pulse=rng.random() < 0.3, at=rng.choice([0.0, 0.33, 1.234, 77.7]))
        env = rng.choice(BAR_ENVS)
        for W in pick_widths(rng, 1, nwidths):
            out.append(dict(kind="bar", spec=spec, W=W, env=env))
    return out


def gen_columns_cases(ctx, rng, ncases, nwidths):
    out = []
    for _ in range(ncases):
        ids = Ids()
        n = rng.choice([0, 1, 2, 3, 4, 5, 6, 7, 8, 9, 11, 12, 13])
        shape = rng.choice(["word", "word", "words", "multi", "mixed", "panel", "long"])
        items = []
        for _i in range(n):
            sh = rng.choice(["word", "words", "multi", "panel", "wide"]) if shape == "mixed" else shape
            if sh == "word":
                it = dict(k="text", s=ids.narrow() * rng.randint(1, 9))
            elif sh == "wide":
                it = dict(k="text", s=ids.wide() * rng.randint(1, 5))
            elif sh == "words":
                it = dict(k="text", s=gen_line(rng, ids, rng.choice(["ascii", "wide", "zero"]), 3, 5))
            elif sh == "long":
                c = ids.narrow()
                it = dict(k="text", s=" ".join(c * rng.randint(1, 12) for _ in range(rng.randint(2, 8))))
            elif sh == "multi":
                c = ids.narrow()
                it = dict(k="text", s="\n".join(c * rng.randint(1, 6) for _ in range(rng.randint(1, 3))))
            else:
                it = dict(k="panel", c=dict(k="text", s=ids.narrow() * rng.randint(1, 7)), box="ROUNDED", ex=rng.random() < 0.5, pad=[0, 1])
            if it["k"] == "text" and rng.random() < 0.3:
                it["str"] = True
            items.append(it)
        spec = dict(k="columns", items=items, pad=rng.choice([[0, 1], [0, 1], [0, 1], 0, 1, [0, 2], [1, 2, 0, 3], [0, 4, 0, 0], [0, 0, 1, 3]]),
                    ex=rng.random() < 0.4, eq=rng.random() < 0.4, cf=rng.random() < 0.45, rtl=rng.random() < 0.4,
                    al=rng.choice([None, None, "left", "center", "right"]), title=rng.choice([None, None, None, "##", "#### ####"]))
        m = minw(ctx, spec)
        env = rng.choice(ENVS)
        for W in pick_widths(rng, m, nwidths):
            out.append(dict(kind="columns", spec=spec, W=W, env=env))
    return out


def gen_tree_cases(ctx, rng, ncases, nwidths):
    out = []
    for _ in range(ncases):
        ids = Ids()
        budget = [rng.choice([1, 2, 3, 4, 6, 8, 12, 16])]
        lab_kind = rng.choice(["line", "line", "multi", "mixed"])

        def label():
            k = rng.choice(["line", "multi", "wide", "panel", "table", "wrap"]) if lab_kind == "mixed" else lab_kind
            if k == "line":
                return dict(k="text", s=gen_line(rng, ids, "ascii", 2, 5))
            if k == "multi":
                return dict(k="text", s="\n".join(gen_line(rng, ids, "ascii", 2, 4) for _ in range(rng.randint(2, 3))))
            if k == "wide":
                return dict(k="text", s=gen_line(rng, ids, rng.choice(["wide", "zero", "mixed"]), 3, 4))
            if k == "wrap":
                return dict(k="text", s=gen_line(rng, ids, "ascii", 8, 8))
            if k == "panel":
                return dict(k="panel", c=dict(k="text", s=gen_line(rng, ids, "ascii", 2, 4)), box=rng.choice(["ROUNDED", "ASCII"]), ex=rng.random() < 0.5, pad=[0, 1])
            return gen_table(rng, ids)

        def node(level):
            budget[0] -= 1
            n = dict(k="tree", label=label(), exp=rng.random() < 0.8, gs=rng.choice([None, None, None, "bold", "underline2", "red", "bold red"]),
                     st=rng.choice([None, None, None, "green", "on blue"]), ch=[])
            if level < 4:
                for _c in range(rng.choice([0, 1, 1, 2, 2, 3, 4] if level else [1, 2, 3, 4])):
                    if budget[0] > 0:
                        n["ch"].append(node(level + 1))
            return n
        spec = node(0)
        m = minw(ctx, spec)
        env = rng.choice(ENVS)
        for W in pick_widths(rng, m, nwidths):
            out.append(dict(kind="tree", spec=spec, W=W, env=env))
    return out


# ---------------------------------------------------------------------------------------------------------------------
# one case -> one record (a real render, projected)
def observe(ctx, console, obj):
    ctx.log = []
    try:
        segs = list(console.render(obj, console.options))
    finally:
        log, ctx.log = ctx.log, None
    return segs, log


def rec_frame(ctx, case):
    spec, env = case["spec"], case["env"]
    kind = spec["k"]
    console = ctx.console(case["W"], env)
    rec = dict(kind=kind, W=console.options.max_width, exc="", m=case.get("m") or minw(ctx, spec), out=[], ch=[], cw=0, ncw=0, sty=False,
               asc=bool(env["asc"]), wopt=spec.get("w") or 0)
    if kind in ("panel", "padding"):
        rec["pad"] = [spec["pad"]] if isinstance(spec["pad"], int) else list(spec["pad"])
        rec["ex"] = bool(spec["ex"])
    if kind == "panel":
        rec["title"] = ctx.cells(spec.get("title") or "")
        rec["ta"] = spec.get("ta", "center")
        b = getattr(ctx.rbox, spec["box"])
        cands = [b]
        if env["legacy"] and b in ctx.legacy_subst:
            cands.append(ctx.legacy_subst[b])
        if env["asc"]:
            cands.append(ctx.rbox.ASCII)
        rec["boxes"] = [ctx.box_cells(x) for x in cands]
    if kind == "align":
        rec["al"], rec["padr"] = spec["al"], bool(spec["pad"])
    for f in ("model", "top", "box"):
        if f in case:
            rec[f] = case[f]
    try:
        child = ctx.build(spec["c"])
        obj = ctx.frame(spec, child)
        segs, log = observe(ctx, console, obj)
    except Exception as e:
        rec["exc"] = type(e).__name__
        return rec
    seen = [o for (x, o) in log if x is child]
    rec["ncw"] = len({o.max_width for o in seen})
    use_styles = kind in ("panel", "padding", "constrain") and not spec.get("style") and not spec.get("bstyle")
    styles = {} if use_styles else None
    rec["out"], outs = ctx.lines(segs, styles)
    if seen:
        opts = seen[-1]
        rec["cw"] = opts.max_width
        try:
            rec["ch"], chs = ctx.lines(list(console.render(child, opts)), styles)
        except Exception as e:
            rec["exc"] = "child:" + type(e).__name__
            return rec
        if use_styles and len(styles) < 200:
            rec["sty"], rec["outs"], rec["chs"] = True, outs, chs
    return rec


def rec_rule(ctx, case):
    spec, env = case["spec"], case["env"]
    console = ctx.console(case["W"], env)
    rec = dict(kind="rule", W=console.options.max_width, exc="", m=minw(ctx, spec), out=[], title=ctx.cells(spec["title"]), chars=ctx.cells(spec["chars"]),
               al=spec["al"], asc=bool(env["asc"]))
    try:
        rec["out"], _ = ctx.lines(list(console.render(ctx.build(spec), console.options)))
    except Exception as e:
        rec["exc"] = type(e).__name__
    return rec


def rec_bar(ctx, case):
    spec, env = case["spec"], case["env"]
    console = ctx.console(case["W"], env)
    rec = dict(kind="bar", W=console.options.max_width, exc="", m=1, out=[], wopt=spec.get("w") or 0, solid=spec["k"] == "bar",
               color=env["color"] in ("truecolor", "standard"))
    try:
        rec["out"], _ = ctx.lines(list(console.render(ctx.build(spec), console.options)))
    except Exception as e:
        rec["exc"] = type(e).__name__
    return rec


def rec_columns(ctx, case):
    spec, env = case["spec"], case["env"]
    console = ctx.console(case["W"], env)
    rec = dict(kind="columns", W=console.options.max_width, exc="", m=minw(ctx, spec), items=[], runs=[], lw=[], cf=bool(spec["cf"]), rtl=bool(spec["rtl"]),
               ex=bool(spec["ex"]))
    owner = {}

    def idchars(s, i):
        if s["k"] == "text":
            n = 0
            for ch in s["s"]:
                if ch.isalpha():
                    owner[ch] = i
                    n += 1
            return n
        return idchars(s["c"], i)
    want = [idchars(it, i + 1) for i, it in enumerate(spec["items"])]
    try:
        objs = [ctx.build(it) for it in spec["items"]]
        obj = ctx.Columns(objs, padding=ctx.padarg(spec["pad"]), expand=spec["ex"], equal=spec["eq"],
                          column_first=spec["cf"], right_to_left=spec["rtl"], align=spec["al"], title=spec.get("title"))
        segs, log = observe(ctx, console, obj)
        lines, _ = ctx.lines(segs)
        for i, o in enumerate(objs):
            if isinstance(o, str):      # Columns turns a str into a Text before rendering it: recognised by its (unique) content
                seen = [(x, op) for (x, op) in log if isinstance(x, ctx.Text) and x.plain == o]
            else:
                seen = [(x, op) for (x, op) in log if x is o]
            item = dict(seen=bool(seen), n=0, dy=0)
            if seen:
                own, _ = ctx.lines(list(console.render(seen[-1][0], seen[-1][1])))
                hits = [y for y, line in enumerate(own) for c in line if owner.get(chr(c // 4)) == i + 1]
                item["n"], item["dy"] = len(hits), (hits[0] if hits else 0)
            rec["items"].append(item)
    except Exception as e:
        rec["exc"] = type(e).__name__
        return rec
    for y, line in enumerate(lines):
        x, cur = 0, None
        for c in line:
            i = owner.get(chr(c // 4))
            if i is not None and cur is not None and cur["id"] == i and cur["x"] + cur["w"] == x:
                cur["n"] += 1
                cur["w"] += c % 4
            elif i is not None:
                cur = dict(id=i, y=y, x=x, n=1, w=c % 4)
                rec["runs"].append(cur)
            elif c % 4 > 0:
                cur = None
            x += c % 4
        rec["lw"].append(x)
    return rec


def rec_tree(ctx, case):
    spec, env = case["spec"], case["env"]
    console = ctx.console(case["W"], env)
    rec = dict(kind="tree", W=console.options.max_width, exc="", m=minw(ctx, spec), out=[], nodes=[], asc=bool(env["asc"]))
    labels = []

    def mk(n, parent, d):
        label = ctx.build(n["label"])
        kw = dict(expanded=n["exp"])
        if n.get("gs"):
            kw["guide_style"] = n["gs"]
        if n.get("st"):
            kw["style"] = n["st"]
        node = ctx.Tree(label, **kw) if parent is None else parent.add(label, **kw)
        labels.append(label)
        rec["nodes"].append(dict(d=d, exp=bool(n["exp"]), seen=False, cw=0, lines=[]))
        for c in n["ch"]:
            mk(c, node, d + 1)
        return node
    try:
        obj = mk(spec, None, 0)
        segs, log = observe(ctx, console, obj)
        rec["out"], _ = ctx.lines(segs)
        for j, label in enumerate(labels):
            seen = [o for (x, o) in log if x is label]
            if seen:
                nd = rec["nodes"][j]
                nd["seen"], nd["cw"] = True, seen[-1].max_width
                nd["lines"], _ = ctx.lines(list(console.render(label, seen[-1])))
    except Exception as e:
        rec["exc"] = type(e).__name__
    return rec


RECORDERS = dict(panel=rec_frame, padding=rec_frame, align=rec_frame, constrain=rec_frame, styled=rec_frame, rule=rec_rule, bar=rec_bar,
                 columns=rec_columns, tree=rec_tree)


# ---------------------------------------------------------------------------------------------------------------------
def shape(case):
    s, env = case["spec"], case["env"]
    k = case["kind"]
    e = ("asc" if env["asc"] else "") + ("legacy" if env["legacy"] else "")
    if k == "panel":
        d = "title=%d ex=%d wopt=%d%s" % (bool(s.get("title")), s["ex"], bool(s.get("w")), " W<4" if case["W"] < 4 else "")
    elif k == "padding":
        d = "ex=%d" % s["ex"]
    elif k == "align":
        d = "al=%s pad=%d wopt=%d" % (s["al"], s["pad"], bool(s.get("w")))
    elif k == "rule":
        d = "title=%d al=%s chars=%s" % (bool(s["title"]), s["al"], "1" if len(s["chars"]) == 1 and ord(s["chars"]) < 0x2E80 else "multi")
    elif k == "bar":
        d = "cls=%s pulse=%d color=%s" % (s["k"], bool(s.get("pulse")), env["color"])
    elif k == "columns":
        d = "cf=%d rtl=%d eq=%d ex=%d al=%s" % (s["cf"], s["rtl"], s["eq"], s["ex"], s["al"])
    else:
        d = ""
    if k in ("tree",):
        d = e
    return ("kind=%s %s" % (k, d)).strip()


def clause(v):
    import re
    return re.sub(r" (line|id|l)=\d+", "", v)


def model_part(chk, ctx):
    """M1 (design satisfies / wrong designs rejected) + M2 (compositions for replay)"""
    nest = chk.pick(2, 3)
    invs = ["DesignAccepted", "ExpandFills", "RejectsInnerOffByOne", "RejectsCentreRoundedUp", "RejectsSwappedPadding"]
    head = "CONSTANTS\n  MaxNest = %d\n  GenDepth = %d\nSPECIFICATION Spec\n" % (nest, 2)
    # action coverage on the bare state graph (TLC's -coverage with the recursive relations exhausts memory), then the invariants
    r0, cov, missing = tlc.model_check("MC_Frames", cfg_text=head + "CHECK_DEADLOCK FALSE\n", workers=2, heap="1g",
                                       require_actions=["WrapPanel", "WrapPadding", "WrapAlign"])
    if missing:
        raise tlc.TLCFailure("MC_Frames: never fired %s" % missing)
    r, _, _ = tlc.model_check("MC_Frames", cfg_text=head + "".join("INVARIANT %s\n" % i for i in invs) + "CHECK_DEADLOCK FALSE\n", coverage=False, timeout=3000)
    chk.add_tlc(r, "M1")
    if r.violated or not r.finished:
        raise tlc.TLCFailure("MC_Frames: violated=%s finished=%s\n%s" % (r.violated, r.finished, r.out[-2500:]))
    chk.notes["m1"] = dict(nesting=nest, states=r.distinct, invariants=invs, action_coverage={k: v[1] for k, v in cov.items()})
    behs, r2 = tlc.behaviours("MC_Frames", cfg_text="CONSTANTS\n  MaxNest = 2\n  GenDepth = 2\nSPECIFICATION Spec\nCONSTRAINT Emit\nCHECK_DEADLOCK FALSE\n")
    chk.add_tlc(r2, "M2")
    confs = [b["beh"] for b in behs]
    if not confs or not any(c["odd"] for c in confs) or not any(c["lop"] for c in confs):
        raise tlc.TLCFailure("MC_Frames: M2 emitted %d compositions; the antecedents of the rejection invariants were never true" % len(confs))
    chk.notes["m2_compositions"] = len(confs)
    box = ctx.box_cells(ctx.rbox.ROUNDED)

    def to_spec(t):
        if t["k"] == "leaf":
            return dict(k="text", s="\n".join("".join(chr(c // 4) for c in line) for line in t["ls"]))
        c = to_spec(t["c"])
        if t["k"] == "panel":
            return dict(k="panel", c=c, box="ROUNDED", ex=t["ex"], pad=list(t["pad"]), title="".join(chr(x // 4) for x in t["title"]) or None, ta="center")
        if t["k"] == "padding":
            return dict(k="padding", c=c, pad=list(t["pad"]), ex=t["ex"])
        return dict(k="align", c=c, al=t["al"], pad=t["padr"])
    cases = []
    env = ENVS[0]
    for c in confs:
        ws = [w for w in c["ws"] if w]
        if not chk.thorough and len(ws) > 2:
            ws = sorted(chk.rng.sample(ws, 2))
        spec = to_spec(c["t"])
        for W in ws:
            cases.append(dict(kind=spec["k"], spec=spec, W=W, env=env, model=c["t"], top=W, box=box, m=1))
    return cases


def controls(chk, cases, recs, verdicts):
    """vacuity guards: every kind was really judged, and a corrupted copy of an accepted record of every kind is rejected by TLC"""
    import copy
    import os
    bad, names = [], []

    def chop(line):             # drop the last character that occupies a cell (and the zero-width ones after it)
        line = list(line)
        while line and line.pop() % 4 == 0:
            pass
        return line
    for kind in RECORDERS:
        idx = [i for i, c in enumerate(cases) if c["kind"] == kind]
        if not idx:
            continue
        acc = [i for i in idx if verdicts[i] == "ok" or verdicts[i].startswith("drift:")]
        if len(acc) * 2 < len(idx) and not os.environ.get("RICH_SRC"):
            raise tlc.TLCFailure("kind %s: only %d of %d records were accepted/judged - projection or domain broken?" % (kind, len(acc), len(idx)))
        pick = [i for i in acc if len(recs[i].get("out", [])) >= 3 or kind in ("rule", "bar", "columns")]
        pick = [i for i in pick if kind != "columns" or len(recs[i]["runs"]) >= 2]
        pick = [i for i in pick if kind not in ("rule", "bar") or (recs[i]["out"] and len(recs[i]["out"][0]) >= 2)]
        for i in pick[:3]:
            r = copy.deepcopy(recs[i])
            if kind == "columns":
                del r["runs"][-1]                       # an item (or part of it) vanishes
            elif kind == "tree":
                ys = [y for y in range(len(r["out"]) - 1) if r["out"][y] != r["out"][y + 1]]
                if not ys:
                    continue
                r["out"][ys[0]], r["out"][ys[0] + 1] = r["out"][ys[0] + 1], r["out"][ys[0]]      # two lines out of order
            elif kind == "bar":
                r["out"][0] = r["out"][0] + [129] * (r["W"] + 1)          # wider than W
            elif kind == "rule":
                r["out"][0] = chop(r["out"][0])         # one cell short
            else:
                rows = [y for y in range(1, len(r["out"])) if r["out"][y]]
                if not rows:
                    continue
                mid = rows[len(rows) // 2]
                r["out"][mid] = chop(r["out"][mid])     # one row loses its last cell
                if r.get("sty"):
                    r["outs"][mid] = r["outs"][mid][:len(r["out"][mid])]
            bad.append(r)
            names.append(kind)
    if bad:
        vs, st = tlc.judge("Trace_Frames", bad, chunk_min=1000)
        chk.add_tlc(st, "M3-controls")
        slipped = [(k, v) for k, v in zip(names, vs) if v == "ok" or v.startswith(("skip:", "drift:")) or v == "no-verdict"]
        chk.notes["corrupted_controls"] = dict(n=len(bad), rejected=len(bad) - len(slipped), verdicts=sorted(set(vs))[:12])
        if slipped:
            raise tlc.TLCFailure("corrupted control records were not rejected: %s" % slipped[:5])


def run(chk: Check):
    ctx = Ctx()
    chk.rule = ("one evaluation = one real render of one framing renderable at one width W >= its structural minimum under one console "
                "(utf-8 / ascii-only / legacy-windows, colour on / off), judged by TLC.  Children: self-identifying text (ASCII / double-width / "
                "zero-width / multi-line, str and Text, justify / overflow / style), small tables, groups, rules, bars, nested frames to depth 3 and "
                "build-c01's random layout trees; frames: Panel(every rich.box, title str/Text incl. wide and longer than the panel, title_align, expand, "
                "width, padding 1/2/4, style, border_style), Padding, Align(pad, width), Constrain, Styled, Rule(title, characters incl. wide / "
                "multi-character / combining, align), Bar / ProgressBar(total incl. 0, completed incl. out of range, width, pulse), Columns(0..13 "
                "items; equal, expand, column_first, right_to_left, align, padding, title), Tree(<= 16 nodes, depth <= 4, expanded flags, guide "
                "styles, labels incl. multi-line / panels / tables); all compositions of <= 2 model frames emitted by TLC are replayed.  "
                "non-trivial = TLC judged it (not skipped as below the minimum / overflowing child)")
    chk.trusted = ["drivers/c08.py:Ctx.lines / Ctx.cells (segments -> lines -> one integer per character: code point*4 + rich.cells width)",
                   "drivers/c08.py:observe (Console.render wrapped: the ConsoleOptions handed to the child / label are logged, the child is then "
                   "rendered alone with them)", "drivers/c08.py:rec_columns (maximal runs of identifying characters -> id, line, first cell, count, cells)",
                   "drivers/c08.py:minw / drivers/layout_gen.py:minw_py (structural minimum, only to choose widths and to tell TLC where the domain starts)",
                   "drivers/c08.py:Ctx.build / Ctx.frame (spec -> constructor calls)"]
    chk.assumptions = ["contents avoid markup / emoji codes / tabs; titles avoid line breaks (the statement is silent on how they are flattened)",
                       "structural minimum as in specs/Layout.tla; a Panel/Align/Constrain `width` option is never smaller than the structural minimum",
                       "a frame whose child itself overflows the width it was handed is not judged (C01's subject)",
                       "centred Align: left = excess div 2 (DESIGN section 4); centred titles (Panel, Rule) only have to be balanced within one cell, the "
                       "rounding is implementation-shaped (DRIFT)"]
    if chk.replay_only:
        cases = [chk.replay_only["case"]]
    else:
        import os
        only = [k for k in os.environ.get("C08_KINDS", "").split(",") if k]      # development aid: restrict the kinds (default: all)
        on = lambda k: not only or k in only
        cases = model_part(chk, ctx) if on("model") else []
        chk.mark("model")
        n_model = len(cases)
        q = chk.pick(1, 12)
        nw = chk.pick(3, 5)
        rng = chk.rng
        for kind, n, w in (("panel", 420, nw), ("padding", 160, nw), ("align", 260, nw), ("constrain", 70, 2), ("styled", 50, 2)):
            if on(kind):
                cases += gen_frame_cases(ctx, rng, kind, n * q, w)
        if on("rule"):
            cases += gen_rule_cases(ctx, rng, 400 * q, nw + 1)
        if on("bar"):
            cases += gen_bar_cases(ctx, rng, 300 * q, nw)
        if on("columns"):
            cases += gen_columns_cases(ctx, rng, 330 * q, nw)
        if on("tree"):
            cases += gen_tree_cases(ctx, rng, 260 * q, nw)
        chk.notes["cases"] = dict(model_replayed=n_model, random=len(cases) - n_model)
    recs = []
    for c in cases:
        recs.append(RECORDERS[c["kind"]](ctx, c))
    ctx.close()
    chk.mark("render")
    verdicts, st = tlc.judge("Trace_Frames", recs, chunk_min=40)
    chk.add_tlc(st, "M3")
    chk.traces += len(recs)
    chk.mark("judge")
    tally, rejected = {}, []
    for case, rec, v in zip(cases, recs, verdicts):
        word = v.split(":")[0] if v.startswith(("skip:", "drift:")) else ("ok" if v == "ok" else "reject")
        tally[(case["kind"], word)] = tally.get((case["kind"], word), 0) + 1
        chk.case(case, word in ("ok", "drift", "reject"))
        if v.startswith("drift:"):
            chk.drift_note("%s %s W=%d" % (clause(v), shape(case), case["W"]))
        elif word == "reject":
            rejected.append((len(json.dumps(case["spec"])), case["W"], len(rejected), case, rec, v))
    chk.notes["verdicts"] = {"%s/%s" % k: n for k, n in sorted(tally.items())}
    if not chk.replay_only:
        controls(chk, cases, recs, verdicts)
    if "no-verdict" in verdicts:
        raise tlc.TLCFailure("%d record(s) without a verdict (first: %s)" % (verdicts.count("no-verdict"), json.dumps(cases[verdicts.index("no-verdict")])[:600]))
    for _size, _w, _i, case, rec, v in sorted(rejected, key=lambda x: x[:3]):
        sig = "%s %s" % (clause(v), shape(case))
        chk.reject(sig, "%s | W=%d env=%s spec=%s" % (v, case["W"], json.dumps(case["env"]), json.dumps(case["spec"])[:400]), case)
    for i in (0, len(cases) // 3, len(cases) // 2, len(cases) - 1):
        r = recs[i]
        chk.sample(dict(case=json.loads(json.dumps(cases[i]))["spec"] if len(json.dumps(cases[i])) < 1500 else cases[i]["kind"], W=cases[i]["W"],
                        rendered_lines=["".join(chr(c // 4) for c in line) for line in r.get("out", [])][:6], verdict=verdicts[i]))
