"""C08 - framing renderables draw exact rectangles around intact content.

Real Panel / Padding / Align / Constrain / Styled / Rule / Bar / ProgressBar / Columns / Tree objects of the tree under
test are rendered with Console.render; what happened is projected lexically (one integer per character: code point * 4 +
cell width from rich.cells of the tree under test; optionally one style id per character) and judged by TLC
(specs/Trace_Frames.tla, relations of specs/Frames.tla).  For the single-child frames the driver observes the
ConsoleOptions the frame hands to its child (Console.render is wrapped), renders the child ALONE with exactly those
options and logs both renders: "the child's own rendered lines" and "the inner width" are observations, never computed
from the frame arithmetic under test.  Columns items and tree labels are self-identifying (every item / node has its own
character).  MC_Frames (M1) shows the relations satisfiable by the design arithmetic and not by three classic wrong
designs; its compositions (M2) are replayed on the real classes.

Generator audit (audit-1): `dims(case)` names the value of every generator dimension a case exercises, `AUDITED` lists the
dimensions added by the audit (constructor defaults and alternative constructors, option values given as objects instead
of strings, ConsoleOptions-borne width / justify / overflow / no_wrap, re-rendering, further colour systems, ...); the
evidence records the per-dimension counts and a full run that never judges one of them fails as machinery."""
import io
import json

from engine import tlc
from engine.harness import Check

ASCII_IDS = "abcdefghijklmnopqrstuvwxyzABCDEFGHIJKLMNOPQRSTUVWXYZ"
FRAMES = ("panel", "padding", "align", "constrain", "styled")
ENVS = [dict(asc=False, legacy=False, color="none")] * 6 + [dict(asc=True, legacy=False, color="none"),
                                                             dict(asc=False, legacy=True, color="none"),
                                                             dict(asc=True, legacy=True, color="none"),
                                                             dict(asc=False, legacy=False, color="truecolor")]


# ---------------------------------------------------------------------------------------------------------------------
class Ctx:
    """classes of the tree under test, consoles, the render hook"""

    def __init__(self):
        from rich import box as rbox
        from rich.align import Align
        from rich.bar import Bar
        from rich.cells import get_character_cell_size
        from rich.color import Color
        from rich.columns import Columns
        from rich.console import Console, RenderGroup
        from rich.constrain import Constrain
        from rich.padding import Padding
        from rich.panel import Panel
        from rich.progress_bar import ProgressBar
        from rich.rule import Rule
        from rich.styled import Styled
        from rich.table import Table
        from rich.text import Text
        from rich.tree import Tree
        self.__dict__.update(locals())
        self.cw = get_character_cell_size
        self.box_names = sorted(n for n in dir(rbox) if n.isupper() and isinstance(getattr(rbox, n), rbox.Box))
        self.legacy_subst = getattr(rbox, "LEGACY_WINDOWS_SUBSTITUTIONS", {})
        self._consoles = {}
        self.log = None
        self.G = None
        self.Genv = None
        try:                                   # build-c01's generator (optional, read-only)
            from drivers import layout_gen as G
            self.G, self.Genv = G, G.Env()
        except Exception:                      # pragma: no cover
            self.G = None
        ctx = self
        if getattr(Console, "_c08_orig_render", None) is None:
            Console._c08_orig_render = Console.render
        orig = Console._c08_orig_render

        def render(self, renderable, options=None):
            log = ctx.log
            if log is not None:
                log.append((renderable, options or self.options))
            return orig(self, renderable, options)
        Console.render = render

    def close(self):
        self.Console.render = self.Console._c08_orig_render

    def console(self, W, env):
        """the console of a case.  env: asc / legacy / color, and optionally cwx (the console is cwx cells wider than W: W reaches
        the renderable only through ConsoleOptions), sb (Console(safe_box=False))"""
        cw = W + int(env.get("cwx") or 0)
        key = (cw, env["asc"], env["legacy"], env["color"], bool(env.get("sb")))
        c = self._consoles.get(key)
        if c is None:
            f = io.StringIO()
            if env["asc"]:
                class F(io.StringIO):
                    encoding = "ascii"
                f = F()
            cs = env["color"]
            c = self.Console(width=cw, height=25, file=f, color_system=None if cs in ("none",) else ("truecolor" if cs == "nocolor" else cs),
                             legacy_windows=env["legacy"], no_color=cs == "nocolor", safe_box=not env.get("sb"))
            self._consoles[key] = c
        return c

    def setup(self, W, env):
        """(console, the ConsoleOptions handed to the renderable under test: max_width = W)"""
        console = self.console(W, env)
        opts = console.options
        via = env.get("via")
        if via == "width" or (env.get("cwx") and via != "max_width"):
            opts = opts.update(width=W)                 # min_width = max_width = W (what Panel / Padding / Table hand to children)
        elif via == "max_width":
            opts = opts.update(max_width=W)             # min_width stays 1
        if env.get("oj") or env.get("oo") or env.get("onw") is not None:
            opts = opts.update(justify=env.get("oj"), overflow=env.get("oo"), no_wrap=env.get("onw"))
        if env.get("ohl") is not None:
            opts = opts.update(highlight=env["ohl"])
        assert opts.max_width == W
        return console, opts

    # ---- lexical projection ------------------------------------------------------------------------------------
    def cells(self, s):
        cw = self.cw
        return [ord(ch) * 4 + cw(ch) for ch in s]

    def lines(self, segs, styles=None):
        """segments -> lines of cells (and, aligned, lines of style ids when `styles` (a dict) is given)"""
        cw = self.cw
        out, sty = [[]], [[]]
        for seg in segs:
            if seg.is_control:
                continue
            sid = 0
            if styles is not None and seg.style is not None:
                key = str(seg.style) + "|" + (seg.style.link or "")
                sid = 0 if key == "none|" else styles.setdefault(key, len(styles) + 1)
            for ch in seg.text:
                if ch == "\n":
                    out.append([])
                    sty.append([])
                else:
                    out[-1].append(ord(ch) * 4 + cw(ch))
                    sty[-1].append(sid)
        if not out[-1]:
            out.pop()
            sty.pop()
        return out, sty

    def box_cells(self, b):
        return self.cells(b.top_left + b.top + b.top_right + b.mid_left + b.mid_right + b.bottom_left + b.bottom + b.bottom_right)

    # ---- construction ------------------------------------------------------------------------------------------
    def sty(self, v, obj=False):
        """a style option as the str it was written as, or (obj) as the equivalent rich.style.Style instance"""
        if v is None or not obj:
            return v
        from rich.style import Style
        try:
            return Style.parse(v)
        except Exception:               # a theme name ("tree", "bar.back"): only a str can say that
            return v

    def text(self, plain, **kw):
        """a Text; kw: j (justify), o (overflow), st (style), nw (no_wrap)"""
        return self.Text(plain, justify=kw.get("j"), overflow=kw.get("o"), style=kw.get("st") or "", no_wrap=kw.get("nw"))

    def build(self, s):
        k = s["k"]
        if k == "text":
            if s.get("str"):
                return "".join(s["s"])
            return self.text(s["s"], **s)
        if k == "table":
            t = self.Table(box=getattr(self.rbox, s["box"]) if s.get("box") else None, show_header=bool(s.get("hdr")), expand=bool(s.get("exp")))
            for j in range(len(s["cells"][0])):
                t.add_column(s["hdr"][j] if s.get("hdr") else "")
            for row in s["cells"]:
                t.add_row(*row)
            return t
        if k == "group":
            return self.RenderGroup(*[self.build(c) for c in s["ch"]])
        if k == "raw":                  # a renderable without __rich_measure__ / an object that is only cast with __rich__
            inner = self.build(s["c"])
            if s.get("cast"):
                class Cast:
                    def __rich__(self):
                        return inner
                return Cast()

            class Raw:
                def __rich_console__(self, console, options):
                    yield inner
            return Raw()
        if k in FRAMES:
            return self.frame(s, self.build(s["c"]))
        if k == "rule":
            title = s["title"]
            if s.get("ttext"):
                title = self.text(title, j=s.get("tj"), st=s.get("tst"), o=s.get("to"), nw=s.get("tnw"))
            kw = {}
            if s.get("style"):
                kw["style"] = self.sty(s["style"], s.get("sobj"))
            if "end" in s:
                kw["end"] = s["end"]
            if s.get("defaults"):       # every option left to its default
                return self.Rule(title) if title else self.Rule()
            return self.Rule(title, characters=s["chars"], align=s["al"], **kw)
        if k == "bar":
            kw = {}
            for f in ("color", "bgcolor"):
                if s.get(f):
                    kw[f] = self.Color.parse(s[f]) if s.get("cobj") else s[f]
            return self.Bar(s["size"], s["begin"], s["end"], width=s.get("w"), **kw)
        if k == "pbar":
            kw = {f: self.sty(v, s.get("sobj")) for f, v in (s.get("styles") or {}).items()}
            if s.get("upd"):            # built with other numbers, then update(completed[, total])
                u = s["upd"]
                pb = self.ProgressBar(total=u["total0"], completed=u["completed0"], width=s.get("w"), pulse=s.get("pulse", False),
                                      animation_time=s.get("at", 0.0), **kw)
                if u.get("pass_total"):
                    pb.update(s["completed"], s["total"])
                else:
                    pb.update(s["completed"])
                return pb
            return self.ProgressBar(total=s["total"], completed=s["completed"], width=s.get("w"), pulse=s.get("pulse", False),
                                    animation_time=s.get("at", 0.0), **kw)
        if k == "columns":
            return self.build_columns(s)[0]
        if k == "tree":
            return self.build_tree(s)[0]
        if k == "g":
            return self.G.build(s["tree"], self.Genv)
        raise ValueError(k)

    def build_columns(self, spec):
        """-> (the Columns, the item objects in order)"""
        objs = [self.build(it) for it in spec["items"]]
        title = spec.get("title")
        if title and spec.get("ttext"):
            title = self.Text(title)
        kw = dict(padding=self.padarg(spec["pad"]), expand=spec["ex"], equal=spec["eq"], column_first=spec["cf"], right_to_left=spec["rtl"],
                  align=spec["al"], title=title)
        if spec.get("w"):
            kw["width"] = spec["w"]
        if spec.get("defaults"):        # options left to their defaults are not passed at all
            kw = {f: v for f, v in kw.items() if f != "padding" and v not in (None, False)}
            if self.padarg(spec["pad"]) != (0, 1):
                kw["padding"] = self.padarg(spec["pad"])
        n_add = min(int(spec.get("added") or 0), len(objs))        # the last n_add items arrive through add_renderable
        first = objs[:len(objs) - n_add]
        if spec.get("iter"):
            first = iter(first)         # `renderables` is documented as an Iterable
        elif not first and spec.get("none"):
            first = None
        obj = self.Columns(first, **kw)
        for o in objs[len(objs) - n_add:]:
            obj.add_renderable(o)
        return obj, objs

    def build_tree(self, spec):
        """-> (the Tree, the label objects in depth-first pre-order)"""
        labels = []

        def mk(n, parent):
            label = self.build(n["label"])
            kw = {}
            if not (n["exp"] and n.get("dflt")):        # dflt: `expanded` left to its default (True)
                kw["expanded"] = n["exp"]
            if n.get("late"):           # built with the opposite flag, collapsed / expanded by assignment after the children were added
                kw["expanded"] = not n["exp"]
            if n.get("gs"):
                kw["guide_style"] = self.sty(n["gs"], n.get("sobj"))
            if n.get("st"):
                kw["style"] = self.sty(n["st"], n.get("sobj"))
            if n.get("hl") is not None:
                kw["highlight"] = n["hl"]
            node = self.Tree(label, **kw) if parent is None else parent.add(label, **kw)
            labels.append(label)
            for c in n["ch"]:
                mk(c, node)
            if n.get("late"):
                node.expanded = n["exp"]
            return node
        return mk(spec, None), labels

    @staticmethod
    def padarg(p):
        return p if isinstance(p, int) else tuple(p)

    def frame(self, s, child):
        k = s["k"]
        if k == "panel":
            kw = {}
            if s.get("style"):
                kw["style"] = self.sty(s["style"], s.get("sobj"))
            if s.get("bstyle"):
                kw["border_style"] = self.sty(s["bstyle"], s.get("sobj"))
            if s.get("sbox") is not None:
                kw["safe_box"] = bool(s["sbox"])
            title = s.get("title")
            if title and s.get("ttext"):
                title = self.text(title, j=s.get("tj"), st=s.get("tst"), o=s.get("to"), nw=s.get("tnw"))
            if s.get("defaults"):       # Panel(child) / Panel(child, title=..): box, expand, padding, title_align left to their defaults
                return self.Panel(child, title=title or None, width=s.get("w"), **kw)
            if s.get("fit"):            # the alternative constructor (expand=False)
                return self.Panel.fit(child, getattr(self.rbox, s["box"]), title=title or None, title_align=s.get("ta", "center"),
                                      width=s.get("w"), padding=self.padarg(s["pad"]), **kw)
            if s.get("hl") is not None:
                kw["highlight"] = s["hl"]
            return self.Panel(child, getattr(self.rbox, s["box"]), title=title or None, title_align=s.get("ta", "center"),
                              expand=s["ex"], width=s.get("w"), padding=self.padarg(s["pad"]), **kw)
        if k == "padding":
            if s.get("indent"):         # Padding.indent(renderable, level) = (0, 0, 0, level), expand=False
                return self.Padding.indent(child, s["pad"][3])
            if s.get("defaults"):
                return self.Padding(child)
            return self.Padding(child, self.padarg(s["pad"]), expand=s["ex"], **({"style": self.sty(s["style"], s.get("sobj"))} if s.get("style") else {}))
        if k == "align":
            st = self.sty(s.get("style"), s.get("sobj"))
            if s.get("cm"):             # the classmethods Align.left / Align.center / Align.right
                return getattr(self.Align, s["al"])(child, style=st, pad=s["pad"], width=s.get("w"))
            if s.get("defaults"):
                return self.Align(child, s["al"])
            return self.Align(child, s["al"], style=st, pad=s["pad"], width=s.get("w"))
        if k == "constrain":
            if s.get("w") == "default":
                return self.Constrain(child)
            return self.Constrain(child, s.get("w"))
        if k == "styled":
            return self.Styled(child, self.sty(s["style"], s.get("sobj")))
        raise ValueError(k)


# ---------------------------------------------------------------------------------------------------------------------
# structural minimum (Layout!MinW) - used only to CHOOSE widths; TLC re-checks W >= m from the logged m
def unpack(p):
    if isinstance(p, int):
        return p, p, p, p
    if len(p) == 1:
        return p[0], p[0], p[0], p[0]
    if len(p) == 2:
        return p[0], p[1], p[0], p[1]
    return tuple(p)


def text_min(ctx, s):
    return 2 if any(ctx.cw(c) == 2 for c in s) else 1


def minw(ctx, s):
    k = s["k"]
    if k == "text":
        return text_min(ctx, s["s"])
    if k == "table":
        nc = len(s["cells"][0])
        cols = []
        for j in range(nc):
            cm = max([text_min(ctx, row[j]) for row in s["cells"]] + ([text_min(ctx, s["hdr"][j])] if s.get("hdr") else []) + [1])
            cols.append(cm + 2)
        return sum(cols) + ((2 + nc - 1) if s.get("box") else 0)
    if k == "group":
        return max([minw(ctx, c) for c in s["ch"]] + [1])
    if k == "panel":
        _, r, _, l = unpack(s["pad"])
        return 2 + l + r + minw(ctx, s["c"])
    if k == "padding":
        _, r, _, l = unpack(s["pad"])
        return l + r + minw(ctx, s["c"])
    if k in ("align", "constrain", "styled", "raw"):
        return minw(ctx, s["c"])
    if k == "rule":
        return (2 if text_min(ctx, s["chars"] + s["title"]) == 2 else 1) + (4 if s["title"] else 0)
    if k in ("bar", "pbar"):
        return 1
    if k == "columns":
        return max([minw(ctx, c) for c in s["items"]] + [1] + ([text_min(ctx, s["title"])] if s.get("title") else []))
    if k == "tree":
        def tm(n, d):
            return max([4 * d + minw(ctx, n["label"])] + ([tm(c, d + 1) for c in n["ch"]] if n["exp"] else []))
        return tm(s, 0)
    if k == "g":
        return ctx.G.minw_py(s["tree"])
    raise ValueError(k)


# ---------------------------------------------------------------------------------------------------------------------
# random content
class Ids:
    """hands out identifying characters: each line / item / node gets its own"""

    def __init__(self):
        self.n = 0
        self.nw = 0

    def narrow(self):
        i = self.n
        self.n += 1
        return ASCII_IDS[i] if i < 52 else chr(0x0430 + (i - 52) % 30)      # cyrillic: width 1

    def wide(self):
        i = self.nw
        self.nw += 1
        return chr(0x4E00 + i)


def gen_line(rng, ids, flavour, maxwords=4, maxlen=6):
    """one self-identifying line: words made of this line's own character"""
    if flavour == "wide" or (flavour == "mixed" and rng.random() < 0.4):
        c = ids.wide()
    else:
        c = ids.narrow()
    words = []
    for _ in range(rng.randint(1, maxwords)):
        w = c * rng.randint(1, maxlen)
        if flavour in ("zero", "mixed") and rng.random() < 0.5:
            w = w[:1] + rng.choice(["\u0301", "\u200d", "\u0300\u0301"]) + w[1:]
        words.append(w)
    return " ".join(words)


def gen_text(rng, ids, flavour=None, multiline=None):
    flavour = flavour or rng.choice(["ascii", "ascii", "ascii", "wide", "zero", "mixed"])
    n = 1
    if multiline or (multiline is None and rng.random() < 0.4):
        n = rng.randint(2, 4)
    s = "\n".join(gen_line(rng, ids, flavour) for _ in range(n))
    r = rng.random()
    if r < 0.03:
        s = rng.choice(["", "", " ", "   "])                  # nothing to show / only blanks
    elif r < 0.08:                                          # blanks at the ends of a line, a blank line in the middle
        s = rng.choice([s + "  ", "  " + s, s + "\n\n" + ids.narrow() * 2, s + " \n" + ids.narrow()])
    t = dict(k="text", s=s)
    r = rng.random()
    if r < 0.2:
        t["str"] = True
    elif r < 0.5:
        t["j"] = rng.choice([None, "left", "center", "right", "full"])
        t["o"] = rng.choice([None, "fold", "crop", "ellipsis"])
    if not t.get("str") and rng.random() < 0.25:
        t["st"] = rng.choice(["bold", "red", "italic on blue", "underline"])
    return t


def gen_table(rng, ids):
    nc, nr = rng.randint(1, 3), rng.randint(1, 3)
    flav = rng.choice(["ascii", "ascii", "wide", "mixed"])
    return dict(k="table", box=rng.choice([None, "SQUARE", "ASCII", "ROUNDED", "SIMPLE", "HEAVY_HEAD"]),
                hdr=[gen_line(rng, ids, flav, 1, 4) for _ in range(nc)] if rng.random() < 0.5 else None,
                cells=[[gen_line(rng, ids, flav, 2, 4) for _ in range(nc)] for _ in range(nr)], exp=rng.random() < 0.3)


STYLES = ["bold", "red", "italic on blue", "underline", "on red", "dim", "bold red on white", "underline2", "reverse", "not bold", "#ff8800", "color(9)"]
# padding forms: int, 1-, 2- and 4-tuples; zero, lopsided, large, top / bottom only
PADS = [0, 1, [0, 1], [1, 2], [0, 0, 0, 0], [1, 2, 0, 3], [0, 3, 1, 0], [2], [0, 0], [1, 0, 0, 4], 3, [0, 5],
        [0], [3, 0], [0, 12], [2, 0, 0, 0], [0, 0, 3, 0], [0, 9, 0, 0], [4, 1, 2, 7], 2, [1]]
TITLE_OVERFLOWS = [None, None, "fold", "crop", "ellipsis"]        # "ignore" asks for the overflow: not judged


# development aid: C08_TODO=1 switches on the dimensions that are kept out because of an open defect (see the TODO(audit-1) lines)
TODO_ON = bool(__import__("os").environ.get("C08_TODO"))


def gen_env(rng, base, p_opts=0.35):
    """one console configuration: a member of `base` (encoding / legacy windows / colour), and - new in audit-1 - how the width W
    reaches the renderable (console width, or ConsoleOptions.update(width= / max_width=) under a wider console), the
    justify / overflow / no_wrap / highlight fields of the options handed to it, Console(safe_box=False)"""
    env = dict(rng.choice(base))
    if rng.random() < p_opts:
        r = rng.random()
        if r < 0.6:
            env["cwx"] = rng.choice([1, 2, 3, 7, 40, 100])
            env["via"] = rng.choice(["width", "width", "max_width"])
        elif r < 0.7:
            env["via"] = "width"                  # same width as the console, but min_width = W
        if rng.random() < 0.35:
            env["oj"] = rng.choice(["left", "center", "right", "full", "default"])
        if rng.random() < 0.2:
            env["oo"] = rng.choice(["fold", "crop", "ellipsis"])
        if rng.random() < 0.08:
            env["onw"] = rng.choice([True, False])
        if rng.random() < 0.1:
            env["ohl"] = rng.choice([True, False])
    if rng.random() < 0.08:
        env["sb"] = True
    return env


def gen_title(rng, long_ok=True):
    r = rng.random()
    if r < 0.4:
        return rng.choice(["t", "Title", "ab cd"])
    if r < 0.6:
        return rng.choice(["\u4e16\u754c", "a\u4e16", "e\u0301x", "\u4e16 \u754c \u4e16", "\u200dzw"])
    if r < 0.7:
        return rng.choice(["t ", " t", "a  b", "  ", "x   "])        # blanks at the ends / only blanks
    return " ".join(["long" + "x" * rng.randint(0, 12)] * rng.randint(1, 4))


def title_text_opts(rng, s):
    """the title given as a rich.text.Text: plain, or with its own style / overflow / no_wrap"""
    s["ttext"] = True
    if rng.random() < 0.4:
        s["tst"] = rng.choice(STYLES)
    if rng.random() < 0.3:
        s["to"] = rng.choice(TITLE_OVERFLOWS)
    if rng.random() < 0.15:
        s["tnw"] = rng.choice([True, False])
    # a title Text with its own `justify` (also on a Panel: 9.10.0 padded such a title to the console width, fixed by cb011ff)
    if rng.random() < 0.3:
        s["tj"] = rng.choice(["left", "center", "right", "full"])


def measures_zero(c):
    """the spec of a child whose Measurement is (0, 0)"""
    k = c["k"]
    if k == "text":
        return c["s"] == ""
    if k in ("raw", "align", "constrain", "styled"):
        return measures_zero(c["c"])
    if k == "padding":
        return measures_zero(c["c"]) and unpack(c["pad"])[1] + unpack(c["pad"])[3] == 0
    if k == "group":
        return all(measures_zero(x) for x in c["ch"])
    return False


def gen_frame_opts(ctx, rng, kind, child, ids, inner=False, env=None):
    """options of one frame around `child` (a spec); env: the console of the case when this is the frame under test"""
    sobj = rng.random() < 0.3           # style options as Style instances instead of strings
    if kind == "panel":
        s = dict(k="panel", c=child, box=rng.choice(ctx.box_names), ex=rng.random() < 0.6, pad=rng.choice(PADS), ta=rng.choice(["left", "center", "right"]))
        if env and env["legacy"] and rng.random() < 0.6:        # legacy windows: a box that has a substitute, safe_box given / left to the console
            s["box"] = rng.choice([n for n in ctx.box_names if getattr(ctx.rbox, n) in ctx.legacy_subst] or ctx.box_names)
            if rng.random() < 0.5:
                s["sbox"] = rng.choice([True, False, False])
        if rng.random() < 0.08:          # constructor defaults
            s.update(defaults=True, box="ROUNDED", ex=True, pad=[0, 1], ta="center")
        elif not s["ex"] and rng.random() < 0.35:
            s["fit"] = True
        if rng.random() < 0.5:
            s["title"] = gen_title(rng)
            if rng.random() < 0.35:
                title_text_opts(rng, s)
        if rng.random() < 0.25:
            m = minw(ctx, s)
            s["w"] = m + rng.choice([0, 0, 1, 2, 3, 5, 9, 20])
            if s.get("title") and rng.random() < 0.5:         # around what the title needs: title + 2 blanks + 2 border cells + corners
                s["w"] = max(m, len(ctx.cells(s["title"])) + rng.choice([2, 3, 4, 5, 6, 7]))
        if rng.random() < 0.15:
            s["style"] = rng.choice(STYLES)
        if rng.random() < 0.1:
            s["bstyle"] = rng.choice(STYLES)
        if (s.get("style") or s.get("bstyle")) and sobj:
            s["sobj"] = True
        # TODO(audit-1): a non-expanding Panel with padding around a child that measures 0 cells (Text(""), an empty group) is kept
        # out: the panel hands 0 cells to Padding(child), Console.render returns nothing for a width below 1 and the requested blank
        # padding rows are missing (genuine, minor; witness audit_artifacts/c08/witness_panel_fit_empty_child_padding.py)
        if not s["ex"] and not TODO_ON and any(unpack(s["pad"])) and measures_zero(child):
            s["pad"] = 0
        if "sbox" not in s and rng.random() < 0.15:
            s["sbox"] = rng.choice([True, False])
        if not s.get("fit") and not s.get("defaults") and rng.random() < 0.15:
            s["hl"] = rng.choice([True, False])
        return s
    if kind == "padding":
        s = dict(k="padding", c=child, pad=rng.choice(PADS), ex=rng.random() < 0.6)
        r = rng.random()
        if r < 0.1:
            return dict(k="padding", c=child, pad=[0, 0, 0, rng.choice([0, 1, 2, 4, 8])], ex=False, indent=True)
        if r < 0.18:
            return dict(k="padding", c=child, pad=[0, 0, 0, 0], ex=True, defaults=True)
        if rng.random() < 0.3:
            s["style"] = rng.choice(STYLES)
            s["sobj"] = sobj
        return s
    if kind == "align":
        s = dict(k="align", c=child, al=rng.choice(["left", "center", "center", "right"]), pad=rng.random() < 0.7)
        if rng.random() < 0.06:
            s.update(defaults=True, pad=True)
            return s
        if rng.random() < 0.3:
            s["w"] = minw(ctx, child) + rng.choice([0, 0, 1, 2, 3, 5, 9, 20])
        if rng.random() < 0.22:
            s["style"] = rng.choice(STYLES)
            s["sobj"] = sobj
        if rng.random() < 0.25:
            s["cm"] = True
        return s
    if kind == "constrain":
        if rng.random() < 0.2:
            return dict(k="constrain", c=child, w="default")          # Constrain(child): the constructor default (80)
        return dict(k="constrain", c=child, w=None if rng.random() < 0.15 else minw(ctx, child) + rng.choice([0, 0, 1, 2, 3, 5, 9, 20, 60]))
    return dict(k="styled", c=child, style=rng.choice(STYLES + ["none", "red on white", "italic"]), sobj=sobj)


def gen_child(ctx, rng, ids, depth):
    r = rng.random()
    if depth <= 0 or r < 0.38:
        return gen_text(rng, ids)
    if r < 0.48:
        return gen_table(rng, ids)
    if r < 0.55:
        return dict(k="group", ch=[gen_text(rng, ids, multiline=False) for _ in range(rng.randint(1, 3))])
    if r < 0.59:
        return dict(k="rule", title=rng.choice(["", "", "r"]), chars=rng.choice(["\u2500", "-", "=-"]), al="center")
    if r < 0.63:
        if rng.random() < 0.5:
            return dict(k="bar", size=100, begin=rng.choice([0, 10, 33.3]), end=rng.choice([50, 100, 66.6]), w=rng.choice([None, None, 5]))
        return dict(k="group", ch=[dict(k="pbar", total=100, completed=rng.choice([0, 30, 100]), w=rng.choice([None, 6]), pulse=False),
                                   gen_text(rng, ids, multiline=False)])
    if r < 0.71:                # a renderable without __rich_measure__ / an object that only has __rich__
        return dict(k="raw", c=gen_text(rng, ids), cast=rng.random() < 0.5)
    if r < 0.74:                # a small tree / small columns as the framed child
        return tree_spec(ctx, rng, ids, [1, 2, 3, 5], 2)
    if r < 0.77:
        return columns_spec(ctx, rng, ids, [1, 2, 3, 5])
    if r < 0.86 and ctx.G is not None:
        for _ in range(20):
            t = ctx.G.gen(rng, min(depth, 2), True, False)
            if ctx.G.inscope_py(t, True) and len(json.dumps(t)) < 6000:
                return dict(k="g", tree=t)
        return gen_text(rng, ids)
    kind = rng.choice(FRAMES)
    return gen_frame_opts(ctx, rng, kind, gen_child(ctx, rng, ids, depth - 1), ids, inner=True)


def pick_widths(rng, m, n, top=120, near=()):
    """n widths >= m: the minimum itself (usually), small excesses (odd and even), the classic terminal widths, and the
    boundary values `near` (where a title / a width option / the items exactly fill the width)"""
    cand = [m, m, m + 1, m + 2, m + 3, m + 4, m + 5, m + 7, m + 8, m + 13, m + 20, 2 * m + 11, 40, 41, 80, top]
    near = [w for w in near if m <= w <= 200]
    cand += near * max(1, 6 // max(1, len(near))) if near else []
    ws = {m} if rng.random() < 0.7 else set()
    while len(ws) < n:
        w = rng.choice(cand)
        if m <= w <= 200:
            ws.add(w)
    return sorted(ws)


def gen_pre(rng, case, m, p=0.1):
    """the same object was already rendered once at another width (caches, state kept between renders)"""
    if rng.random() < p:
        case["pre"] = rng.choice([m, m + 1, case["W"] + 1, case["W"] + 9, max(m, case["W"] // 2), 80])
    return case


def gen_frame_cases(ctx, rng, kind, ncases, nwidths):
    out = []
    for _ in range(ncases):
        ids = Ids()
        child = gen_child(ctx, rng, ids, rng.choice([0, 0, 1, 1, 2, 3]))
        env = gen_env(rng, ENVS)
        if env["legacy"] and not env.get("sb") and rng.random() < 0.3:
            env["sb"] = True
        spec = gen_frame_opts(ctx, rng, kind, child, ids, env=env)
        m = minw(ctx, spec)
        near = []
        if kind == "panel" and spec.get("title"):
            t = len(ctx.cells(spec["title"]))       # upper bound of its cell length, good enough to aim at the boundary
            near = [t + 3, t + 4, t + 5, t + 6, t + 7]
        if spec.get("w") and spec["w"] != "default":
            near += [spec["w"] - 1, spec["w"], spec["w"] + 1]
        for W in pick_widths(rng, m, nwidths, near=near):
            # TODO(audit-1): a Panel exactly 4 cells wide whose title is a Text with overflow="ellipsis" is kept out: no cell is left for
            # the title, Text.truncate(0, overflow="ellipsis") still yields the 1-cell ellipsis and the top row is 5 cells wide
            # (genuine, minor; witness audit_artifacts/c08/witness_panel_w4_ellipsis_title.py)
            if kind == "panel" and spec.get("to") == "ellipsis" and min(W, spec.get("w") or W) == 4 and not TODO_ON:
                continue
            out.append(gen_pre(rng, dict(kind=kind, spec=spec, W=W, env=env), m, 0.06))
    return out


RULE_CHARS = ["\u2500", "\u2500", "-", "=-", "\u4e16", "\u2501\u4e16", "a\u0301", "* ", "ab\u4e16", "\u2550", "\u4e16\u754c", " *", "\u4e16-", "-=\u2261"]


def gen_rule_cases(ctx, rng, ncases, nwidths):
    out = []
    for _ in range(ncases):
        title = "" if rng.random() < 0.3 else gen_title(rng)
        spec = dict(k="rule", title=title, chars=rng.choice(RULE_CHARS), al=rng.choice(["left", "center", "center", "right"]))
        if title and rng.random() < 0.35:
            title_text_opts(rng, spec)
        r = rng.random()
        if r < 0.06:
            spec = dict(k="rule", title=title, chars="\u2500", al="center", defaults=True)      # Rule() / Rule(title)
            if "ttext" in spec:
                del spec["ttext"]
        else:
            if rng.random() < 0.3:
                spec["style"] = rng.choice(STYLES + ["rule.line", "none"])
                spec["sobj"] = spec["style"] != "rule.line" and rng.random() < 0.4
            if rng.random() < 0.25:
                spec["end"] = rng.choice(["", "\n"])           # (another character would be one more cell: asked for)
        m = minw(ctx, spec)
        env = gen_env(rng, ENVS)
        t = sum(c % 4 for c in ctx.cells(title))
        near = [t + d for d in (1, 2, 3, 4, 5, 6, 7)] if title else []
        for W in pick_widths(rng, m, nwidths, near=near):
            case = dict(kind="rule", spec=spec, W=W, env=env)
            # re-rendered like every other kind, also when the title is a Text (9.10.0 truncated the caller's Text in place: after one
            # narrow render the title stayed cut at every later width; fixed by 2a57ee3)
            out.append(gen_pre(rng, case, m))
    return out


BAR_BASE = [dict(asc=a, legacy=lg, color=c) for c in ("truecolor", "truecolor", "standard", "256", "windows", "none", "nocolor")
            for (a, lg) in ((False, False), (False, False), (True, False), (False, True), (True, True))]
BAR_COLORS = [None, None, "red", "default", "#00ff00", "color(200)", "bright_blue"]
PBAR_STYLES = ["bar.back", "bar.complete", "bar.finished", "bar.pulse", "red", "bold", "none", "on blue", "#112233", "magenta on white", "dim"]


def gen_bar_cases(ctx, rng, ncases, nwidths):
    out = []
    for _ in range(ncases):
        wopt = rng.choice([None, None, None, 1, 2, 3, 10, 40, 300])
        if rng.random() < 0.45:
            size = rng.choice([100, 100, 1, 7, 0.5, 3])
            b = rng.choice([0, 0, -1, size * 0.1, size / 3, size / 2, size * 0.99, size, size * rng.random()])
            e = rng.choice([0, size * 0.1, size / 2, size * 2 / 3, size * 0.999, size, size * 1.5, size * rng.random(), b, b])
            spec = dict(k="bar", size=size, begin=b, end=e, w=wopt)
            if rng.random() < 0.35:
                spec["color"], spec["bgcolor"] = rng.choice(BAR_COLORS), rng.choice(BAR_COLORS)
                spec["cobj"] = rng.random() < 0.3
        else:
            total = rng.choice([100, 100, 100, 7, 1, 0, 0.3, 1000])
            spec = dict(k="pbar", total=total, completed=rng.choice([0, 3, 50, 99.9, 100, 250, -5, total, total / 2, total * rng.random()]),
                        w=wopt, pulse=rng.random() < 0.3, at=rng.choice([0.0, 0.33, 1.234, 77.7, None]))
            if rng.random() < 0.35:
                spec["sobj"] = rng.random() < 0.35              # Style instances (a theme name can only be a str)
                pool = [x for x in PBAR_STYLES if not (spec["sobj"] and x.startswith("bar."))]
                spec["styles"] = {f: rng.choice(pool) for f in ("style", "complete_style", "finished_style", "pulse_style") if rng.random() < 0.6}
            if rng.random() < 0.2:
                spec["upd"] = dict(total0=rng.choice([100, 1, 0, 1000]), completed0=rng.choice([0, 50, 1000]), pass_total=rng.random() < 0.5)
                if not spec["upd"]["pass_total"]:
                    spec["upd"]["total0"] = spec["total"]
        env = gen_env(rng, BAR_BASE)
        near = [wopt - 1, wopt, wopt + 1] if wopt else []
        for W in pick_widths(rng, 1, nwidths, near=near):
            case = gen_pre(rng, dict(kind="bar", spec=spec, W=W, env=env), 1)
            if spec.get("pulse") and rng.random() < 0.5:
                # an animated bar is one object drawn again and again, and its width may have grown meanwhile
                case["pre"] = rng.choice([1, 5, 20, max(1, W // 2), max(1, W - 1), max(1, W - 21)])
            out.append(case)
    return out


def columns_spec(ctx, rng, ids, counts):
    n = rng.choice(counts)
    shape = rng.choice(["word", "word", "words", "multi", "mixed", "mixed", "panel", "long", "framed"])
    items = []
    for _i in range(n):
        sh = rng.choice(["word", "words", "multi", "panel", "wide", "long", "framed", "word"]) if shape == "mixed" else shape
        if sh == "word":
            it = dict(k="text", s=ids.narrow() * rng.randint(1, 9))
        elif sh == "wide":
            it = dict(k="text", s=ids.wide() * rng.randint(1, 5))
        elif sh == "words":
            it = dict(k="text", s=gen_line(rng, ids, rng.choice(["ascii", "wide", "zero"]), 3, 5))
        elif sh == "long":
            c = ids.narrow()
            it = dict(k="text", s=" ".join(c * rng.randint(1, 12) for _ in range(rng.randint(2, 8))))
        elif sh == "multi":
            c = ids.narrow()
            it = dict(k="text", s="\n".join(c * rng.randint(1, 6) for _ in range(rng.randint(1, 3))))
        elif sh == "framed":         # a padded / aligned / constrained / styled word
            inner = dict(k="text", s=ids.narrow() * rng.randint(1, 7))
            fk = rng.choice(["padding", "align", "constrain", "styled"])
            it = dict(padding=dict(k="padding", c=inner, pad=rng.choice([[0, 1], [0, 0, 0, 2], 1]), ex=False),
                      align=dict(k="align", c=inner, al=rng.choice(["left", "center", "right"]), pad=rng.random() < 0.5),
                      constrain=dict(k="constrain", c=inner, w=rng.choice([None, 7, 12])),
                      styled=dict(k="styled", c=inner, style="bold"))[fk]
        else:
            it = dict(k="panel", c=dict(k="text", s=ids.narrow() * rng.randint(1, 7)), box="ROUNDED", ex=rng.random() < 0.5, pad=[0, 1])
        if it["k"] == "text" and rng.random() < 0.3:
            it["str"] = True
        items.append(it)
    spec = dict(k="columns", items=items, pad=rng.choice([[0, 1], [0, 1], [0, 1], 0, 1, [0, 2], [1, 2, 0, 3], [0, 4, 0, 0], [0, 0, 1, 3], [1], [2, 0]]),
                ex=rng.random() < 0.4, eq=rng.random() < 0.4, cf=rng.random() < 0.45, rtl=rng.random() < 0.4,
                al=rng.choice([None, None, "left", "center", "right"]), title=rng.choice([None, None, None, "##", "#### ####"]))
    if spec["title"] and rng.random() < 0.3:
        spec["ttext"] = True
    r = rng.random()
    if r < 0.22:                     # fixed column width (the `width` option); never below the structural minimum of an item
        mi = max([minw(ctx, it) for it in items] + [1])
        spec["w"] = mi + rng.choice([0, 0, 1, 2, 4, 7, 11, 30])
        # TODO(audit-1): width=1 is kept out: Columns counts max_width // (width + max(left, right)) columns, but the grid also pads the
        # first column on the left; the table then collapses 1-cell columns to 0 cells and their items are not shown at all
        # (genuine; witness audit_artifacts/c08/witness_columns_width1_item_dropped.py, fix columns_width_first_column_padding.patch)
        if spec["w"] == 1 and not TODO_ON:
            spec["w"] = 2
    elif r < 0.3:                    # every option that has its default value is not passed
        spec["defaults"] = True
    r = rng.random()
    if r < 0.2:
        spec["added"] = rng.choice([1, 2, n, n])          # (some of) the items come through add_renderable
        spec["none"] = True
    elif r < 0.3:
        spec["iter"] = True
    return spec


def gen_columns_cases(ctx, rng, ncases, nwidths):
    out = []
    for _ in range(ncases):
        ids = Ids()
        spec = columns_spec(ctx, rng, ids, [0, 1, 1, 2, 3, 4, 5, 6, 7, 8, 9, 11, 12, 13])
        m = minw(ctx, spec)
        env = gen_env(rng, ENVS)
        near = []
        if spec.get("w"):
            _t, pr, _b, pl = unpack(spec["pad"])
            step = spec["w"] + max(pl, pr)
            near = [step * k + d for k in (1, 2, 3) for d in (-1, 0, 1)] + [spec["w"] * 2, spec["w"] * 2 + 1]
        for W in pick_widths(rng, m, nwidths, near=near):
            out.append(gen_pre(rng, dict(kind="columns", spec=spec, W=W, env=env), m, 0.04))
    return out


def tree_spec(ctx, rng, ids, budgets, maxlevel=4):
    budget = [rng.choice(budgets)]
    lab_kind = rng.choice(["line", "line", "multi", "mixed", "str"])
    chain = maxlevel > 4 and rng.random() < 0.5           # a deep, narrow tree
    root_st = rng.choice([None, None, "tree", "green", "on blue", "bold"])
    sobj = rng.random() < 0.25

    def label():
        k = rng.choice(["line", "multi", "wide", "panel", "table", "wrap", "str", "raw"]) if lab_kind == "mixed" else lab_kind
        if k == "line":
            return dict(k="text", s=gen_line(rng, ids, "ascii", 2, 5))
        if k == "str":
            return dict(k="text", s=gen_line(rng, ids, "ascii", 2, 5), str=True)
        if k == "multi":
            return dict(k="text", s="\n".join(gen_line(rng, ids, "ascii", 2, 4) for _ in range(rng.randint(2, 3))), str=rng.random() < 0.3)
        if k == "wide":
            return dict(k="text", s=gen_line(rng, ids, rng.choice(["wide", "zero", "mixed"]), 3, 4), str=rng.random() < 0.3)
        if k == "wrap":
            return dict(k="text", s=gen_line(rng, ids, "ascii", 8, 8), str=rng.random() < 0.3)
        if k == "raw":
            return dict(k="raw", c=dict(k="text", s=gen_line(rng, ids, "ascii", 2, 5)), cast=rng.random() < 0.5)
        if k == "panel":
            return dict(k="panel", c=dict(k="text", s=gen_line(rng, ids, "ascii", 2, 4)), box=rng.choice(["ROUNDED", "ASCII"]), ex=rng.random() < 0.5, pad=[0, 1])
        return gen_table(rng, ids)

    def node(level):
        budget[0] -= 1
        n = dict(k="tree", label=label(), exp=rng.random() < 0.8, gs=rng.choice([None, None, None, "bold", "underline2", "red", "bold red", "bold underline2", "not bold"]),
                 st=rng.choice([None, None, None, "green", "on blue", "bold", "underline2 on red"]), ch=[])
        if level == 0 and root_st and not n["st"]:
            n["st"] = root_st
        if sobj and (n["gs"] or n["st"]):
            n["sobj"] = True
        if rng.random() < 0.08:
            n["hl"] = rng.choice([True, False])
        if n["exp"] and rng.random() < 0.3:
            n["dflt"] = True
        if level < maxlevel:
            if chain:
                kids = rng.choice([1, 1, 1, 2])
            else:
                kids = rng.choice([0, 1, 1, 2, 2, 3, 4] if level else [1, 2, 3, 4])
            for _c in range(kids):
                if budget[0] > 0:
                    n["ch"].append(node(level + 1))
        if n["ch"] and rng.random() < 0.1:
            n["late"] = True
        return n
    return node(0)


def gen_tree_cases(ctx, rng, ncases, nwidths):
    out = []
    for _ in range(ncases):
        ids = Ids()
        spec = tree_spec(ctx, rng, ids, [1, 2, 3, 4, 6, 8, 12, 16], rng.choice([4, 4, 4, 7, 9]))
        m = minw(ctx, spec)
        env = gen_env(rng, ENVS)
        for W in pick_widths(rng, m, nwidths):
            out.append(gen_pre(rng, dict(kind="tree", spec=spec, W=W, env=env), m, 0.04))
    return out


# ---------------------------------------------------------------------------------------------------------------------
# one case -> one record (a real render, projected)
def observe(ctx, console, opts, obj, pre=None):
    """render obj with opts (after one earlier render at width `pre`, if given) -> segments, [(renderable, options)] seen by Console.render"""
    if pre:
        list(console.render(obj, opts.update(width=pre)))
    ctx.log = []
    try:
        segs = list(console.render(obj, opts))
    finally:
        log, ctx.log = ctx.log, None
    return segs, log


def rec_frame(ctx, case):
    spec, env = case["spec"], case["env"]
    kind = spec["k"]
    console, opts = ctx.setup(case["W"], env)
    wopt = spec.get("w") or 0
    rec = dict(kind=kind, W=opts.max_width, exc="", m=case.get("m") or minw(ctx, spec), out=[], ch=[], cw=0, ncw=0, sty=False,
               asc=bool(env["asc"]), wopt=80 if wopt == "default" else wopt)
    if kind in ("panel", "padding"):
        rec["pad"] = [spec["pad"]] if isinstance(spec["pad"], int) else list(spec["pad"])
        rec["ex"] = bool(spec["ex"])
    if kind == "panel":
        rec["title"] = ctx.cells(spec.get("title") or "")
        rec["ta"] = spec.get("ta", "center")
        b = getattr(ctx.rbox, spec["box"])
        cands = [b]
        if env["legacy"] and b in ctx.legacy_subst:
            cands.append(ctx.legacy_subst[b])
        if env["asc"]:
            cands.append(ctx.rbox.ASCII)
        rec["boxes"] = [ctx.box_cells(x) for x in cands]
        # the documented substitute (box.py: Box.substitute) - implementation-shaped, only DRIFT
        safe = (not env.get("sb")) if spec.get("sbox") is None else bool(spec["sbox"])
        want = ctx.legacy_subst.get(b, b) if (env["legacy"] and safe) else b
        if env["asc"] and not want.ascii:
            want = ctx.rbox.ASCII
        rec["want"] = 1 + [i for i, x in enumerate(cands) if x is want][0]
    if kind == "align":
        rec["al"], rec["padr"] = spec["al"], bool(spec["pad"])
    for f in ("model", "top", "box"):
        if f in case:
            rec[f] = case[f]
    try:
        child = ctx.build(spec["c"])
        obj = ctx.frame(spec, child)
        segs, log = observe(ctx, console, opts, obj, case.get("pre"))
    except Exception as e:
        rec["exc"] = type(e).__name__
        return rec
    seen = [o for (x, o) in log if x is child]
    rec["ncw"] = len({o.max_width for o in seen})
    use_styles = kind in ("panel", "padding", "constrain") and not spec.get("style") and not spec.get("bstyle")
    styles = {} if use_styles else None
    rec["out"], outs = ctx.lines(segs, styles)
    if seen:
        copts = seen[-1]
        rec["cw"] = copts.max_width
        try:
            rec["ch"], chs = ctx.lines(list(console.render(child, copts)), styles)
        except Exception as e:
            rec["exc"] = "child:" + type(e).__name__
            return rec
        if use_styles and len(styles) < 200:
            rec["sty"], rec["outs"], rec["chs"] = True, outs, chs
    return rec


def rec_rule(ctx, case):
    spec, env = case["spec"], case["env"]
    console, opts = ctx.setup(case["W"], env)
    rec = dict(kind="rule", W=opts.max_width, exc="", m=minw(ctx, spec), out=[], title=ctx.cells(spec["title"]), chars=ctx.cells(spec["chars"]),
               al=spec["al"], asc=bool(env["asc"]), rj=env.get("oj") in ("center", "right"))
    try:
        rec["out"], _ = ctx.lines(observe(ctx, console, opts, ctx.build(spec), case.get("pre"))[0])
    except Exception as e:
        rec["exc"] = type(e).__name__
    return rec


def rec_bar(ctx, case):
    spec, env = case["spec"], case["env"]
    console, opts = ctx.setup(case["W"], env)
    rec = dict(kind="bar", W=opts.max_width, exc="", m=1, out=[], wopt=spec.get("w") or 0, solid=spec["k"] == "bar",
               color=env["color"] not in ("none", "nocolor"))
    try:
        rec["out"], _ = ctx.lines(observe(ctx, console, opts, ctx.build(spec), case.get("pre"))[0])
    except Exception as e:
        rec["exc"] = type(e).__name__
    return rec


def rec_columns(ctx, case):
    spec, env = case["spec"], case["env"]
    console, opts = ctx.setup(case["W"], env)
    rec = dict(kind="columns", W=opts.max_width, exc="", m=minw(ctx, spec), items=[], runs=[], lw=[], cf=bool(spec["cf"]), rtl=bool(spec["rtl"]),
               ex=bool(spec["ex"]))
    owner = {}

    def idchars(s, i):
        if s["k"] == "text":
            n = 0
            for ch in s["s"]:
                if ch.isalpha():
                    owner[ch] = i
                    n += 1
            return n
        return idchars(s["c"], i)
    want = [idchars(it, i + 1) for i, it in enumerate(spec["items"])]
    try:
        obj, objs = ctx.build_columns(spec)
        segs, log = observe(ctx, console, opts, obj, case.get("pre"))
        lines, _ = ctx.lines(segs)
        for i, o in enumerate(objs):
            if isinstance(o, str):      # Columns turns a str into a Text before rendering it: recognised by its (unique) content
                seen = [(x, op) for (x, op) in log if isinstance(x, ctx.Text) and x.plain == o]
            else:
                seen = [(x, op) for (x, op) in log if x is o]
            item = dict(seen=bool(seen), n=0, dy=0)
            if seen:
                own, _ = ctx.lines(list(console.render(seen[-1][0], seen[-1][1])))
                hits = [y for y, line in enumerate(own) for c in line if owner.get(chr(c // 4)) == i + 1]
                item["n"], item["dy"] = len(hits), (hits[0] if hits else 0)
            rec["items"].append(item)
    except Exception as e:
        rec["exc"] = type(e).__name__
        return rec
    for y, line in enumerate(lines):
        x, cur = 0, None
        for c in line:
            i = owner.get(chr(c // 4))
            if i is not None and cur is not None and cur["id"] == i and cur["x"] + cur["w"] == x:
                cur["n"] += 1
                cur["w"] += c % 4
            elif i is not None:
                cur = dict(id=i, y=y, x=x, n=1, w=c % 4)
                rec["runs"].append(cur)
            elif c % 4 > 0:
                cur = None
            x += c % 4
        rec["lw"].append(x)
    return rec


def rec_tree(ctx, case):
    spec, env = case["spec"], case["env"]
    console, opts = ctx.setup(case["W"], env)
    rec = dict(kind="tree", W=opts.max_width, exc="", m=minw(ctx, spec), out=[], nodes=[], asc=bool(env["asc"]))

    def walk(n, d):
        rec["nodes"].append(dict(d=d, exp=bool(n["exp"]), seen=False, cw=0, lines=[]))
        for c in n["ch"]:
            walk(c, d + 1)
    walk(spec, 0)
    try:
        obj, labels = ctx.build_tree(spec)
        segs, log = observe(ctx, console, opts, obj, case.get("pre"))
        rec["out"], _ = ctx.lines(segs)
        for j, label in enumerate(labels):
            seen = [o for (x, o) in log if x is label]
            if seen:
                nd = rec["nodes"][j]
                nd["seen"], nd["cw"] = True, seen[-1].max_width
                nd["lines"], _ = ctx.lines(list(console.render(label, seen[-1])))
    except Exception as e:
        rec["exc"] = type(e).__name__
    return rec


RECORDERS = dict(panel=rec_frame, padding=rec_frame, align=rec_frame, constrain=rec_frame, styled=rec_frame, rule=rec_rule, bar=rec_bar,
                 columns=rec_columns, tree=rec_tree)


# ---------------------------------------------------------------------------------------------------------------------
def shape(case):
    s, env = case["spec"], case["env"]
    k = case["kind"]
    e = ("asc" if env["asc"] else "") + ("legacy" if env["legacy"] else "")
    if k == "panel":
        d = "title=%d ex=%d wopt=%d%s" % (bool(s.get("title")), s["ex"], bool(s.get("w")), " W<4" if case["W"] < 4 else "")
    elif k == "padding":
        d = "ex=%d" % s["ex"]
    elif k == "align":
        d = "al=%s pad=%d wopt=%d" % (s["al"], s["pad"], bool(s.get("w")))
    elif k == "rule":
        d = "title=%d al=%s chars=%s" % (bool(s["title"]), s["al"], "1" if len(s["chars"]) == 1 and ord(s["chars"]) < 0x2E80 else "multi")
    elif k == "bar":
        d = "cls=%s pulse=%d color=%s" % (s["k"], bool(s.get("pulse")), env["color"])
    elif k == "columns":
        d = "cf=%d rtl=%d eq=%d ex=%d al=%s" % (s["cf"], s["rtl"], s["eq"], s["ex"], s["al"])
    else:
        d = ""
    if k in ("tree",):
        d = e
    # how W and the text options reached the renderable, when not simply through the console
    o = "+".join(x for x, on in (("narrowed", env.get("cwx") or env.get("via")), ("justify", env.get("oj")), ("overflow", env.get("oo")),
                                 ("no_wrap", env.get("onw") is not None), ("rerender", case.get("pre"))) if on)
    return ("kind=%s %s%s" % (k, d, " opts=" + o if o else "")).strip()


def dims(case):
    """the values of the generator's dimensions this case exercises (evidence + vacuity guard: every listed dimension must be judged)"""
    s, env, k = case["spec"], case["env"], case["kind"]
    out = {"env.color=" + env["color"]}
    for name, on in (("env.ascii_only", env["asc"]), ("env.legacy_windows", env["legacy"]), ("env.ascii+legacy", env["asc"] and env["legacy"]),
                     ("opts.width<console", env.get("cwx")), ("opts.update(width)", env.get("via") == "width"), ("opts.update(max_width)", env.get("via") == "max_width"),
                     ("opts.justify", env.get("oj")), ("opts.overflow", env.get("oo")), ("opts.no_wrap", env.get("onw") is not None),
                     ("opts.highlight", env.get("ohl") is not None), ("console.safe_box=False", env.get("sb")), ("rerender", case.get("pre"))):
        if on:
            out.add(name)

    def title(t):
        return ["title.blank-ends"] if t and (t[0] == " " or t[-1] == " ") else []

    def kinds(c, acc):
        acc.add(("cast" if c.get("cast") else "raw") if c["k"] == "raw" else c["k"])
        if c["k"] == "text" and c.get("str"):
            acc.add("str")
        for x in ([c["c"]] if "c" in c else []) + list(c.get("ch", []) if c["k"] == "group" else []):
            kinds(x, acc)
        return acc
    flags = []
    if k in FRAMES:
        flags += ["child=" + x for x in kinds(s["c"], set())]
        flags += [f for f in ("defaults", "fit", "hl", "ttext", "tst", "to", "tnw", "tj", "sobj", "indent", "cm", "style", "bstyle") if s.get(f)]
        if s.get("w"):
            flags.append("width=default" if s["w"] == "default" else "width")
        if s.get("sbox") is not None:
            flags.append("safe_box=%d" % s["sbox"])
        if k == "panel":
            flags += title(s.get("title")) + ["pad=%s" % ("int" if isinstance(s["pad"], int) else len(s["pad"]))]
            if s.get("w") and s.get("title") and not s["ex"]:
                flags.append("fit-or-noexpand x width x title")
    elif k == "rule":
        flags += [f for f in ("defaults", "ttext", "tst", "to", "tj", "sobj", "style") if s.get(f)] + title(s["title"])
        flags += ["end=%r" % s["end"]] if "end" in s else []
        flags += ["chars.blank"] if " " in s["chars"] else []
        flags += ["al=" + s["al"]]
    elif k == "bar":
        flags += [s["k"]] + [f for f in ("color", "bgcolor", "cobj", "styles", "sobj", "upd", "pulse") if s.get(f)]
        flags += ["at=None"] if s["k"] == "pbar" and s.get("at", 0.0) is None else []
        flags += ["begin>=end"] if s["k"] == "bar" and max(s["begin"], 0) >= min(s["end"], s["size"]) else []
        flags += ["width>W"] if (s.get("w") or 0) > case["W"] else []
    elif k == "columns":
        flags += [f for f in ("defaults", "ttext", "added", "iter", "eq", "ex", "cf", "rtl", "al") if s.get(f)] + (["width"] if s.get("w") else [])
        flags += ["item=" + x for it in s["items"] for x in kinds(it, set())]
        flags += ["n=%s" % (len(s["items"]) if len(s["items"]) < 2 else "2+")]
        flags += ["cf+rtl"] if s["cf"] and s["rtl"] else []
    elif k == "tree":
        def walk(n, d, acc):
            acc.update("label=" + x for x in kinds(n["label"], set()))
            acc.update(f for f in ("sobj", "dflt", "late", "gs", "st") if n.get(f))
            if n.get("hl") is not None:
                acc.add("hl")
            if d >= 5:
                acc.add("depth>=5")
            if not n["exp"] and n["ch"]:
                acc.add("collapsed-with-children")
            for c in n["ch"]:
                walk(c, d + 1, acc)
            return acc
        flags += sorted(walk(s, 0, set()))
    out.update("%s.%s" % (k, f) for f in flags)
    return out


# dimensions added by the generator audit (audit-1): a full run in which one of them is never judged is a machinery failure
AUDITED = ["opts.width<console", "opts.update(max_width)", "opts.justify", "opts.overflow", "opts.no_wrap", "console.safe_box=False", "rerender",
           "env.color=256", "env.color=windows", "env.ascii+legacy",
           "panel.defaults", "panel.fit", "panel.safe_box=0", "panel.safe_box=1", "panel.hl", "panel.tst", "panel.to", "panel.sobj", "panel.title.blank-ends",
           "panel.child=raw", "panel.child=cast", "panel.child=tree", "panel.child=columns", "panel.fit-or-noexpand x width x title",
           "padding.indent", "padding.defaults", "padding.sobj", "align.cm", "align.defaults", "align.sobj", "constrain.width=default", "styled.sobj",
           "rule.defaults", "rule.style", "rule.sobj", "rule.end=''", "rule.tst", "rule.tj", "rule.title.blank-ends", "rule.chars.blank",
           "bar.color", "bar.cobj", "bar.styles", "bar.sobj", "bar.upd", "bar.at=None", "bar.begin>=end", "bar.width>W",
           "columns.width", "columns.defaults", "columns.added", "columns.iter", "columns.ttext", "columns.item=padding", "columns.item=align",
           "columns.n=1", "columns.cf+rtl",
           "tree.label=str", "tree.label=raw", "tree.label=cast", "tree.sobj", "tree.hl", "tree.dflt", "tree.late", "tree.depth>=5"]


def clause(v):
    import re
    return re.sub(r" (line|id|l)=\d+", "", v)


def model_part(chk, ctx):
    """M1 (design satisfies / wrong designs rejected) + M2 (compositions for replay)"""
    nest = chk.pick(2, 3)
    invs = ["DesignAccepted", "ExpandFills", "RejectsInnerOffByOne", "RejectsCentreRoundedUp", "RejectsSwappedPadding"]
    head = "CONSTANTS\n  MaxNest = %d\n  GenDepth = %d\nSPECIFICATION Spec\n" % (nest, 2)
    # action coverage on the bare state graph (TLC's -coverage with the recursive relations exhausts memory), then the invariants
    r0, cov, missing = tlc.model_check("MC_Frames", cfg_text=head + "CHECK_DEADLOCK FALSE\n", workers=2, heap="1g",
                                       require_actions=["WrapPanel", "WrapPadding", "WrapAlign"])
    if missing:
        raise tlc.TLCFailure("MC_Frames: never fired %s" % missing)
    r, _, _ = tlc.model_check("MC_Frames", cfg_text=head + "".join("INVARIANT %s\n" % i for i in invs) + "CHECK_DEADLOCK FALSE\n", coverage=False, timeout=3000)
    chk.add_tlc(r, "M1")
    if r.violated or not r.finished:
        raise tlc.TLCFailure("MC_Frames: violated=%s finished=%s\n%s" % (r.violated, r.finished, r.out[-2500:]))
    chk.notes["m1"] = dict(nesting=nest, states=r.distinct, invariants=invs, action_coverage={k: v[1] for k, v in cov.items()})
    behs, r2 = tlc.behaviours("MC_Frames", cfg_text="CONSTANTS\n  MaxNest = 2\n  GenDepth = 2\nSPECIFICATION Spec\nCONSTRAINT Emit\nCHECK_DEADLOCK FALSE\n")
    chk.add_tlc(r2, "M2")
    confs = [b["beh"] for b in behs]
    if not confs or not any(c["odd"] for c in confs) or not any(c["lop"] for c in confs):
        raise tlc.TLCFailure("MC_Frames: M2 emitted %d compositions; the antecedents of the rejection invariants were never true" % len(confs))
    chk.notes["m2_compositions"] = len(confs)
    box = ctx.box_cells(ctx.rbox.ROUNDED)

    def to_spec(t):
        if t["k"] == "leaf":
            return dict(k="text", s="\n".join("".join(chr(c // 4) for c in line) for line in t["ls"]))
        c = to_spec(t["c"])
        if t["k"] == "panel":
            return dict(k="panel", c=c, box="ROUNDED", ex=t["ex"], pad=list(t["pad"]), title="".join(chr(x // 4) for x in t["title"]) or None, ta="center")
        if t["k"] == "padding":
            return dict(k="padding", c=c, pad=list(t["pad"]), ex=t["ex"])
        return dict(k="align", c=c, al=t["al"], pad=t["padr"])
    cases = []
    env = ENVS[0]
    for c in confs:
        ws = [w for w in c["ws"] if w]
        if not chk.thorough and len(ws) > 2:
            ws = sorted(chk.rng.sample(ws, 2))
        spec = to_spec(c["t"])
        for W in ws:
            cases.append(dict(kind=spec["k"], spec=spec, W=W, env=env, model=c["t"], top=W, box=box, m=1))
    return cases


def controls(chk, cases, recs, verdicts):
    """vacuity guards: every kind was really judged, and a corrupted copy of an accepted record of every kind is rejected by TLC"""
    import copy
    import os
    bad, names = [], []

    def chop(line):             # drop the last character that occupies a cell (and the zero-width ones after it)
        line = list(line)
        while line and line.pop() % 4 == 0:
            pass
        return line
    for kind in RECORDERS:
        idx = [i for i, c in enumerate(cases) if c["kind"] == kind]
        if not idx:
            continue
        acc = [i for i in idx if verdicts[i] == "ok" or verdicts[i].startswith("drift:")]
        if len(acc) * 2 < len(idx) and not os.environ.get("RICH_SRC"):
            raise tlc.TLCFailure("kind %s: only %d of %d records were accepted/judged - projection or domain broken?" % (kind, len(acc), len(idx)))
        pick = [i for i in acc if len(recs[i].get("out", [])) >= 3 or kind in ("rule", "bar", "columns")]
        pick = [i for i in pick if kind != "columns" or len(recs[i]["runs"]) >= 2]
        pick = [i for i in pick if kind not in ("rule", "bar") or (recs[i]["out"] and len(recs[i]["out"][0]) >= 2)]
        for i in pick[:3]:
            r = copy.deepcopy(recs[i])
            if kind == "columns":
                del r["runs"][-1]                       # an item (or part of it) vanishes
            elif kind == "tree":
                ys = [y for y in range(len(r["out"]) - 1) if r["out"][y] != r["out"][y + 1]]
                if not ys:
                    continue
                r["out"][ys[0]], r["out"][ys[0] + 1] = r["out"][ys[0] + 1], r["out"][ys[0]]      # two lines out of order
            elif kind == "bar":
                r["out"][0] = r["out"][0] + [129] * (r["W"] + 1)          # wider than W
            elif kind == "rule":
                r["out"][0] = chop(r["out"][0])         # one cell short
            else:
                rows = [y for y in range(1, len(r["out"])) if r["out"][y]]
                if not rows:
                    continue
                mid = rows[len(rows) // 2]
                r["out"][mid] = chop(r["out"][mid])     # one row loses its last cell
                if r.get("sty"):
                    r["outs"][mid] = r["outs"][mid][:len(r["out"][mid])]
            bad.append(r)
            names.append(kind)
    if bad:
        vs, st = tlc.judge("Trace_Frames", bad, chunk_min=1000)
        chk.add_tlc(st, "M3-controls")
        slipped = [(k, v) for k, v in zip(names, vs) if v == "ok" or v.startswith(("skip:", "drift:")) or v == "no-verdict"]
        chk.notes["corrupted_controls"] = dict(n=len(bad), rejected=len(bad) - len(slipped), verdicts=sorted(set(vs))[:12])
        if slipped:
            raise tlc.TLCFailure("corrupted control records were not rejected: %s" % slipped[:5])


def run(chk: Check):
    ctx = Ctx()
    chk.rule = ("one evaluation = one real render of one framing renderable at one width W >= its structural minimum under one console "
                "(utf-8 / ascii-only / legacy-windows and both; colour none / standard / 256 / truecolor / windows / NO_COLOR; Console(safe_box=False)), "
                "W reaching it as the console width or only through ConsoleOptions (update(width=) / update(max_width=) under a wider console), "
                "optionally with justify / overflow / no_wrap / highlight set on those options and optionally after an earlier render of the same "
                "object at another width; judged by TLC.  Children: self-identifying text (ASCII / double-width / zero-width / multi-line / empty / "
                "blank-ended, str and Text, justify / overflow / style), small tables, groups, rules, bars, renderables without __rich_measure__, "
                "__rich__ casts, small trees and columns, nested frames to depth 3 and build-c01's random layout trees; frames: Panel(every rich.box, "
                "safe_box, title str/Text (own style / overflow / no_wrap) incl. wide, blank-ended and longer than the panel, title_align, expand, "
                "Panel.fit, width, padding int/1/2/4 incl. large, style / border_style as str or Style, highlight, all-defaults), Padding (+ "
                "Padding.indent, defaults), Align(pad, width, style; Align.left/center/right; defaults), Constrain (None / default / given), Styled, "
                "Rule(title str/Text, characters incl. wide / multi-character / combining / with blanks, align, style, end, defaults; widths where "
                "the title exactly fills), Bar(begin/end incl. out of range and begin >= end, width incl. > W, color / bgcolor as str or Color) / "
                "ProgressBar(total incl. 0, completed incl. out of range, width, pulse, animation_time incl. None, the four styles as str / Style / "
                "without colour, update()), Columns(0..13 items: words / long / multi-line / wide / panels / padded, aligned, constrained, styled "
                "items, str and renderables; equal, expand, column_first, right_to_left, align, padding, width, title str/Text, add_renderable, "
                "iterator input, defaults), Tree(<= 16 nodes, depth <= 9, expanded flags given / default / assigned later, style and guide_style as "
                "str or Style, highlight, labels str / Text / multi-line / panels / tables / without __rich_measure__ / __rich__ casts); all "
                "compositions of <= 2 model frames emitted by TLC are replayed.  notes.dimensions counts cases per generator dimension; a full "
                "run in which an audited dimension is never judged is a machinery failure.  non-trivial = TLC judged it (not skipped as below the "
                "minimum / overflowing child)")
    chk.trusted = ["drivers/c08.py:Ctx.lines / Ctx.cells (segments -> lines -> one integer per character: code point*4 + rich.cells width)",
                   "drivers/c08.py:observe (Console.render wrapped: the ConsoleOptions handed to the child / label are logged, the child is then "
                   "rendered alone with them)", "drivers/c08.py:rec_columns (maximal runs of identifying characters -> id, line, first cell, count, cells)",
                   "drivers/c08.py:minw / drivers/layout_gen.py:minw_py (structural minimum, only to choose widths and to tell TLC where the domain starts)",
                   "drivers/c08.py:Ctx.build / Ctx.frame / Ctx.build_columns / Ctx.build_tree / Ctx.setup (spec -> constructor calls, console and options)"]
    chk.assumptions = ["contents avoid markup / emoji codes / tabs; titles avoid line breaks (the statement is silent on how they are flattened)",
                       "structural minimum as in specs/Layout.tla; a Panel/Align/Constrain/Columns `width` option is never smaller than the structural minimum",
                       "a frame whose child itself overflows the width it was handed is not judged (C01's subject)",
                       "centred Align: left = excess div 2 (DESIGN section 4); centred titles (Panel, Rule) only have to be balanced within one cell, the "
                       "rounding is implementation-shaped (DRIFT); which box a legacy-windows / safe_box console substitutes is implementation-shaped "
                       "(DRIFT), only 'ASCII under ascii-only' is demanded",
                       "a title Text never asks for overflow='ignore' and a Rule never for an `end` other than '' / newline (both ask for the extra cells)",
                       "a Rule whose finished line is re-justified by ConsoleOptions.justify = center / right (blanks moved from its end to its start) "
                       "is judged for its width and its title only",
                       "kept out (TODO(audit-1), C08_TODO=1 switches them on): Columns(width=1) with padding, a non-expanding padded Panel around a "
                       "zero-measure child, a 4-cell Panel with an ellipsis Text title"]
    only = []
    if chk.replay_only:
        cases = [chk.replay_only["case"]]
    else:
        import os
        only = [k for k in os.environ.get("C08_KINDS", "").split(",") if k]      # development aid: restrict the kinds (default: all)
        on = lambda k: not only or k in only
        cases = model_part(chk, ctx) if on("model") else []
        chk.mark("model")
        n_model = len(cases)
        q = chk.pick(1, 12)
        nw = chk.pick(3, 5)
        rng = chk.rng
        for kind, n, w in (("panel", 420, nw), ("padding", 160, nw), ("align", 260, nw), ("constrain", 70, 2), ("styled", 50, 2)):
            if on(kind):
                cases += gen_frame_cases(ctx, rng, kind, n * q, w)
        if on("rule"):
            cases += gen_rule_cases(ctx, rng, 400 * q, nw + 1)
        if on("bar"):
            cases += gen_bar_cases(ctx, rng, 300 * q, nw)
        if on("columns"):
            cases += gen_columns_cases(ctx, rng, 330 * q, nw)
        if on("tree"):
            cases += gen_tree_cases(ctx, rng, 260 * q, nw)
        chk.notes["cases"] = dict(model_replayed=n_model, random=len(cases) - n_model)
    recs = []
    for c in cases:
        recs.append(RECORDERS[c["kind"]](ctx, c))
    ctx.close()
    chk.mark("render")
    verdicts, st = tlc.judge("Trace_Frames", recs, chunk_min=40)
    chk.add_tlc(st, "M3")
    chk.traces += len(recs)
    chk.mark("judge")
    tally, rejected, dtally = {}, [], {}
    for case, rec, v in zip(cases, recs, verdicts):
        word = v.split(":")[0] if v.startswith(("skip:", "drift:")) else ("ok" if v == "ok" else "reject")
        tally[(case["kind"], word)] = tally.get((case["kind"], word), 0) + 1
        chk.case(case, word in ("ok", "drift", "reject"))
        for d in dims(case):
            t = dtally.setdefault(d, [0, 0])
            t[0] += 1
            t[1] += word in ("ok", "drift", "reject")
        if v.startswith("drift:"):
            chk.drift_note("%s %s W=%d" % (clause(v), shape(case), case["W"]))
        elif word == "reject":
            rejected.append((len(json.dumps(case["spec"])), case["W"], len(rejected), case, rec, v))
    chk.notes["verdicts"] = {"%s/%s" % k: n for k, n in sorted(tally.items())}
    chk.notes["dimensions"] = {d: "%d cases, %d judged" % tuple(t) for d, t in sorted(dtally.items())}
    if not chk.replay_only:
        controls(chk, cases, recs, verdicts)
        if not only:
            idle = [d for d in AUDITED if dtally.get(d, [0, 0])[1] == 0]
            if idle:
                raise tlc.TLCFailure("generator dimensions that were never judged in this run: %s" % idle)
    if "no-verdict" in verdicts:
        raise tlc.TLCFailure("%d record(s) without a verdict (first: %s)" % (verdicts.count("no-verdict"), json.dumps(cases[verdicts.index("no-verdict")])[:600]))
    for _size, _w, _i, case, rec, v in sorted(rejected, key=lambda x: x[:3]):
        sig = "%s %s" % (clause(v), shape(case))
        chk.reject(sig, "%s | W=%d env=%s spec=%s" % (v, case["W"], json.dumps(case["env"]), json.dumps(case["spec"])[:400]), case)
    for i in (0, len(cases) // 3, len(cases) // 2, len(cases) - 1):
        r = recs[i]
        chk.sample(dict(case=json.loads(json.dumps(cases[i]))["spec"] if len(json.dumps(cases[i])) < 1500 else cases[i]["kind"], W=cases[i]["W"],
                        rendered_lines=["".join(chr(c // 4) for c in line) for line in r.get("out", [])][:6], verdict=verdicts[i]))
