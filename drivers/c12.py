"""C12 - progress accounting.  Sequential histories (TLC-enumerated + random) on a real Progress
with a mock clock, judged call by call (Trace_Progress); concurrent programs run on real threads
under the deterministic scheduler and judged by linearisation (Trace_ProgressConc); track()."""
import io
import math

from engine import tlc, dsched, instrument
from engine.harness import Check

ACTIONS = ["AddTask", "AdvanceA", "UpdateA", "ResetA", "StartA", "StopA", "RemoveA", "Tick"]
NONE = dict(has=False, v=0)


def some(x):
    return dict(has=True, v=x)


def opt(o):
    return (o["v"] / 2.0) if o["has"] else None


def sign(x):
    if x is None:
        return 2
    return -1 if x < 0 else (1 if x > 0 else 0)


def obs_task(task):
    if task is None:
        return dict(exists=False)
    c2 = task.completed * 2
    t2 = task.total * 2
    small = abs(t2) <= 2000 and abs(c2) <= 2000
    try:
        sp, sp_exc = task.speed, None
    except Exception as ex:
        sp, sp_exc = None, type(ex).__name__
    try:
        rem = task.time_remaining
    except Exception as ex:
        rem, sp_exc = None, type(ex).__name__
    return dict(exists=True, c2=int(c2) if float(c2).is_integer() else -999999, tot2=int(t2), small=small,
                p4=int(round(task.percentage * 10000)), finished=bool(task.finished),
                fin=int(round(task.finished_time * 2)) if task.finished_time is not None else -1,
                speedSign=sign(sp), remSign=sign(rem), started=task.started,
                running=task.started and task.stop_time is None, exc=sp_exc or "none")


class Clock:
    def __init__(self):
        self.now = 0

    def __call__(self):
        return float(self.now)


def make_progress(get_time, file=None, **kw):
    from rich.console import Console
    from rich.progress import Progress
    console = Console(file=file or io.StringIO(), force_terminal=True, width=60, color_system=None)
    return Progress(console=console, auto_refresh=False, get_time=get_time, **kw)


def execute_seq(ops):
    clock = Clock()
    p = make_progress(clock)
    ids = {}
    events = []
    for op in ops:
        e = dict(op)
        e["exc"] = "none"
        k = op["k"]
        try:
            if k == "tick":
                clock.now += op["d"]
                events.append(e)
                continue
            i = op["id"]
            if k == "add":
                ids[i] = p.add_task("t%d" % i, start=op["start"], total=op["total"] / 2.0, completed=op["completed"] / 2.0)
            elif k == "advance":
                p.advance(ids[i], op["a"] / 2.0)
            elif k == "update":
                kw = {}
                if op["total"]["has"]:
                    kw["total"] = opt(op["total"])
                if op["completed"]["has"]:
                    kw["completed"] = opt(op["completed"])
                if op["advance"]["has"]:
                    kw["advance"] = opt(op["advance"])
                p.update(ids[i], **kw)
            elif k == "reset":
                p.reset(ids[i], start=op["start"], total=opt(op["total"]), completed=op["completed"] / 2.0)
            elif k == "start":
                p.start_task(ids[i])
            elif k == "stop":
                p.stop_task(ids[i])
            elif k == "remove":
                p.remove_task(ids.pop(i))
        except Exception as ex:
            e["exc"] = type(ex).__name__
        tasks = {t.id: t for t in p.tasks}
        e["obs"] = [obs_task(tasks.get(ids[j])) if j in ids else dict(exists=False) for j in (1, 2)]
        bad = [o["exc"] for o in e["obs"] if o.get("exc", "none") != "none"]
        if bad and e["exc"] == "none":
            e["exc"] = "read-" + bad[0]
        events.append(e)
    return dict(kind="history", events=events)


def random_seq(rng, n):
    ops = []
    have = set()
    AM = [0, 1, 2, 3, 4, 7, 20, -2]
    TOT = [0, 3, 6, 20, 200, -4, 2 * 10 ** 9]
    for _ in range(n):
        k = rng.choice(["add", "advance", "advance", "advance", "update", "update", "reset", "start", "stop", "remove", "tick", "tick"])
        if k == "tick":
            ops.append(dict(k="tick", d=rng.choice([0, 1, 1, 2, 5, 29, 31, 100])))
            continue
        if k == "add" or not have:
            free = [i for i in (1, 2) if i not in have]
            if not free:
                continue
            i = free[0]
            have.add(i)
            ops.append(dict(k="add", id=i, total=rng.choice(TOT), completed=rng.choice([0, 0, 2, 8]), start=rng.random() < 0.8))
            continue
        i = rng.choice(sorted(have))
        if k == "advance":
            ops.append(dict(k=k, id=i, a=rng.choice(AM)))
        elif k == "update":
            tot = some(rng.choice(TOT)) if rng.random() < 0.3 else NONE
            c = some(rng.choice([0, 2, 5, 40])) if rng.random() < 0.4 else NONE
            a = some(rng.choice(AM)) if rng.random() < 0.5 else NONE
            if not (tot["has"] or c["has"] or a["has"]):
                a = some(2)
            ops.append(dict(k=k, id=i, total=tot, completed=c, advance=a))
        elif k == "reset":
            ops.append(dict(k=k, id=i, start=rng.random() < 0.8, total=some(rng.choice(TOT)) if rng.random() < 0.3 else NONE,
                            completed=rng.choice([0, 0, 2, 10])))
        elif k in ("start", "stop"):
            ops.append(dict(k=k, id=i))
        elif k == "remove" and i == 2:
            have.discard(i)
            ops.append(dict(k=k, id=i))
    return ops


def long_histories(rng, n):
    """histories that fill the speed window: more than 1000 samples inside the 30 s estimate period (the sample cap evicts,
    not the age rule), a first step much larger or smaller than the rest, by advance() or update(advance=), some with a
    stall long enough for the age rule to empty the window afterwards"""
    out = []
    for j in range(n):
        big = [4000, 1, 4000, 20][j % 4]
        small = [1, 7, 2, 1][j % 4]
        via_update = j % 3 == 1
        ops = [dict(k="add", id=1, total=2 * 10 ** 9, completed=0, start=True), dict(k="tick", d=1)]
        def adv(a):
            return dict(k="update", id=1, total=NONE, completed=NONE, advance=some(a)) if via_update else dict(k="advance", id=1, a=a)
        ops.append(adv(big))
        per = rng.choice([38, 40, 45])
        for i in range(1, rng.choice([1040, 1100, 1250]) + 1):
            ops.append(adv(small))
            if i % per == 0:
                ops.append(dict(k="tick", d=1))
        if j % 2:
            ops += [dict(k="tick", d=31), adv(small), dict(k="tick", d=1), adv(small)]
        out.append(ops)
    return out


# ---- track() ---------------------------------------------------------------------------------

def run_track(n, gen, auto, strategy=None, total_delta=0, given_task=False):
    """track() over a sequence / generator of n items; with auto refresh the _TrackThread runs
    under dsched (timed waits fire when the strategy picks the thread)."""
    yielded = []
    rec = dict(kind="track", n=n, gen=gen, auto=auto, exc="none", c2=-1, yielded=yielded, total_delta=total_delta, given_task=given_task)

    def body(p):
        seq = list(range(1, n + 1))
        it = (x for x in seq) if gen else seq
        total = max(0, n + total_delta) if (gen or total_delta) else None
        kw = {}
        if given_task:
            kw["task_id"] = p.add_task("given", total=7)
        for v in p.track(it, total=total, description="x", **kw):
            yielded.append(v)
        t = p.tasks[-1]
        rec["c2"] = int(t.completed * 2) if float(t.completed * 2).is_integer() else -999999

    if not auto:
        try:
            body(make_progress(Clock()))
        except Exception as ex:
            rec["exc"] = type(ex).__name__
        return rec
    s = dsched.Scheduler(strategy or dsched.RandomStrategy(0), tick_budget=3)
    with instrument.Patched(s):
        from rich.console import Console
        from rich.progress import Progress
        console = Console(file=dsched.SFile(s), force_terminal=True, width=60, color_system=None)
        p = Progress(console=console, auto_refresh=True, get_time=s.time)
        p.auto_refresh = True   # but the display itself is not started: only the track thread runs

        def main():
            body(p)
        s.run([main])
    if s.deadlock:
        rec["exc"] = "deadlock"
    for t in s.threads:
        if t.exc is not None:
            rec["exc"] = type(t.exc).__name__
    rec["choices"] = list(s.choices)
    return rec


# ---- concurrent programs ---------------------------------------------------------------------

def run_conc(program, strategy, trace=False, opcode=False):
    """program: dict(init=[task specs], threads=[[ops]...]).  Returns the history record."""
    files = ("rich/progress.py",) if trace else ()
    ofuncs = ("advance", "update", "reset", "add_task") if opcode else ()
    s = dsched.Scheduler(strategy, trace_files=files, opcode_funcs=ofuncs, tick_budget=0)
    events = []
    with instrument.Patched(s):
        from rich.progress import ProgressColumn
        from rich.text import Text
        import threading
        tls = threading.local()     # a refresh renders in the calling thread: one snapshot per thread

        class _Snap:
            def _d(self):
                if not hasattr(tls, "d"):
                    tls.d = {}
                return tls.d

            def clear(self):
                self._d().clear()

            def get(self, k, dflt=None):
                return self._d().get(k, dflt)

            def __setitem__(self, k, v):
                self._d()[k] = v
        snap = _Snap()

        class Probe(ProgressColumn):
            def render(self, task):
                snap[int(task.id)] = obs_task(task)
                return Text("")

        from rich.console import Console
        from rich.progress import Progress
        console = Console(file=dsched.SFile(s), force_terminal=True, width=60, color_system=None)
        p = Progress(Probe(), console=console, auto_refresh=False, get_time=s.time)
        ids = {}
        for j, spec in enumerate(program["init"], 1):
            if spec["exists"]:
                ids[j] = p.add_task("t", total=spec["total"] / 2.0, completed=spec["completed"] / 2.0)

        def mk(tn, ops):
            def fn():
                for op in ops:
                    events.append(dict(e="call", t=tn, op=op))
                    k = op["k"]
                    ob = None
                    if k == "advance":
                        p.advance(ids[op["id"]], op["a"] / 2.0)
                    elif k == "update":
                        kw = {}
                        if op["total"]["has"]:
                            kw["total"] = opt(op["total"])
                        if op["completed"]["has"]:
                            kw["completed"] = opt(op["completed"])
                        if op["advance"]["has"]:
                            kw["advance"] = opt(op["advance"])
                        p.update(ids[op["id"]], **kw)
                    elif k == "reset":
                        p.reset(ids[op["id"]], completed=op["completed"] / 2.0)
                    elif k == "read":
                        snap.clear()
                        p.refresh()
                        ob = [snap.get(int(ids[j]), dict(exists=False)) if j in ids else dict(exists=False) for j in (1, 2)]
                    ev = dict(e="ret", t=tn, op=op)
                    if ob is not None:
                        ev["obs"] = ob
                    events.append(ev)
            return fn
        fns = [mk(i + 1, ops) for i, ops in enumerate(program["threads"])]
        s.run(fns)
        # final snapshot by a fresh reader after all threads are done
        final = None
        if not s.deadlock:
            s2 = None
            snap.clear()
            try:
                p.refresh()
            except Exception:
                pass
            final = [snap.get(int(ids[j]), dict(exists=False)) if j in ids else dict(exists=False) for j in (1, 2)]
    nt = len(program["threads"])
    if final is not None:
        events.append(dict(e="call", t=nt + 1, op=dict(k="read")))
        events.append(dict(e="ret", t=nt + 1, op=dict(k="read"), obs=final))
    exc = "none"
    for t in s.threads:
        if t.exc is not None:
            exc = type(t.exc).__name__
    nonneg = all(op.get("a", 0) >= 0 and (not op.get("advance", NONE)["has"] or op["advance"]["v"] >= 0)
                 for ops in program["threads"] for op in ops)
    return dict(init=program["init"], nthreads=nt + 1, events=events, deadlock=bool(s.deadlock), exc=exc, nonneg=nonneg,
                choices=list(s.choices), steps=s.steps)


def random_program(rng, nthreads):
    init = [dict(exists=True, total=rng.choice([6, 8, 200]), completed=0), dict(exists=rng.random() < 0.5, total=4, completed=0)]
    threads = []
    for _ in range(nthreads):
        ops = []
        for _ in range(rng.randint(1, 3)):
            i = 1 if not init[1]["exists"] or rng.random() < 0.7 else 2
            k = rng.choice(["advance", "advance", "advance", "update", "update", "read", "reset"])
            if k == "advance":
                ops.append(dict(k=k, id=i, a=rng.choice([1, 2, 2, 4])))
            elif k == "update":
                c = some(rng.choice([0, 2, 6])) if rng.random() < 0.4 else NONE
                a = some(rng.choice([1, 2, 3])) if (rng.random() < 0.7 or not c["has"]) else NONE
                ops.append(dict(k=k, id=i, total=NONE, completed=c, advance=a))
            elif k == "reset":
                ops.append(dict(k=k, id=i, completed=rng.choice([0, 2])))
            else:
                ops.append(dict(k="read"))
        threads.append(ops)
    return dict(init=init, threads=threads)


def run(chk: Check):
    chk.rule = ("sequential: histories of add/advance/update/reset/start/stop/remove/tick on two tasks (every history of D calls "
                "enumerated by TLC + seeded random up to 25 calls, amounts in halves incl. 0 and negative, totals 0 / negative / 1e9, "
                "clock jumps across the 30 s speed window); concurrent: programs of 2-4 threads x 1-3 calls on real threads under "
                "dsched (DFS with pre-emption bound over lock/clock/write yield points, line- and opcode-level pre-emption inside "
                "progress.py, seeded random and PCT schedules); track() over lists/generators of 0..n items; distinct by "
                "(ops) or (program, schedule); non-trivial = at least one advance/update after an add")
    chk.trusted = ["drivers/c12.py:obs_task (reads Task attributes; completed*2 must be integral)", "engine/dsched.py (serialises real threads; lock/event proxies)",
                   "mock clock (monotone; one tick per reading in concurrent runs)"]
    chk.assumptions = ["amounts are multiples of 0.5 so float arithmetic is exact", "percentages judged to 1e-4 for |total|,|completed| <= 1000",
                       "track() iterated to exhaustion"]
    if chk.replay_only:
        c = chk.replay_only["case"]
        if c["kind"] == "seq":
            judge_seq(chk, [c["ops"]])
        elif c["kind"] == "track":
            judge_tracks(chk, [run_track(c["n"], c["gen"], c["auto"], dsched.Replay(c.get("choices", [])), total_delta=c.get("total_delta", 0), given_task=c.get("given_task", False))])
        else:
            judge_conc(chk, [(c["program"], run_conc(c["program"], dsched.Replay(c["choices"]), trace=c.get("trace", False), opcode=c.get("opcode", False)), c)])
        return
    # ---- M1 ----
    inv = [l for l in open(tlc.SPECS + "/MC_Progress.cfg").read().splitlines() if l.startswith("INVARIANT")]
    m1 = "CONSTANTS\n  GenDepth = 0\n  MCDepth = %d\nSPECIFICATION Spec\nVIEW View\nCONSTRAINT DepthBound\n%s\nCHECK_DEADLOCK FALSE\n" % (
        chk.pick(3, 4), "\n".join(inv))
    r, cov, missing = tlc.model_check("MC_Progress", cfg_text=m1, require_actions=ACTIONS)
    chk.add_tlc(r, "M1-sequential")
    if r.violated or missing:
        raise tlc.TLCFailure("MC_Progress violated=%s missing=%s\n%s" % (r.violated, missing, r.out[-3000:]))
    rc, covc, _ = tlc.model_check("MC_ProgressConc")
    chk.add_tlc(rc, "M1-concurrent-fine-grain")
    if rc.violated:
        raise tlc.TLCFailure("MC_ProgressConc (clock under lock) violated %s\n%s" % (rc.violated, rc.out[-3000:]))
    rr, _, _ = tlc.model_check("MC_ProgressConc", cfg="MC_ProgressConc_racy")
    chk.add_tlc(rr, "M1-concurrent-racy-design")
    if "SpeedNonNeg" not in rr.violated:
        raise tlc.TLCFailure("vacuity guard: TLC did not find the clock-outside-lock race in the racy design")
    chk.notes["racy_design_counterexample_found"] = True
    # track() with its _TrackThread: all interleavings of the consumer loop and the timer thread
    rt, covt, misst = tlc.model_check("MC_Track", require_actions=["Yield", "Inc", "SetDone", "Join", "WaitDone", "WaitTimeout", "Read", "Advance", "Final"])
    chk.add_tlc(rt, "M1-track-thread")
    if rt.violated or misst:
        raise tlc.TLCFailure("MC_Track violated=%s missing=%s" % (rt.violated, misst))
    rtn, _, _ = tlc.model_check("MC_Track", cfg="MC_Track_nofinal")
    chk.add_tlc(rtn, "M1-track-guard")
    if "CompletedIsCount" not in rtn.violated:
        raise tlc.TLCFailure("vacuity guard: TLC did not refute track() without its final update")
    if chk.thorough:
        c3 = open(tlc.SPECS + "/MC_ProgressConc.cfg").read().replace("Threads = {1, 2}", "Threads = {1, 2, 3}").replace("OpsPerThread = 2", "OpsPerThread = 1")
        r3, _, _ = tlc.model_check("MC_ProgressConc", cfg_text=c3)
        chk.add_tlc(r3, "M1-concurrent-3-threads")
        if r3.violated:
            raise tlc.TLCFailure("MC_ProgressConc 3 threads violated %s" % r3.violated)
    chk.mark("M1")
    # ---- M2 + random sequential ----
    cfgt = "CONSTANTS\n  GenDepth = %d\n  MCDepth = 0\nSPECIFICATION Spec\nCONSTRAINT Emit\nCHECK_DEADLOCK FALSE\n"
    behs, r2 = tlc.behaviours("MC_Progress", cfg_text=cfgt % chk.pick(2, 3))
    chk.add_tlc(r2, "M2-exhaustive")
    sims, r3 = tlc.behaviours("MC_Progress", cfg_text=cfgt % 9, simulate="num=%d" % chk.pick(800, 20000), depth=11, seed=chk.seed + 1)
    chk.add_tlc(r3, "M2-simulate-depth-9")
    hists = [b["beh"] for b in behs + sims]
    chk.notes["tlc_generated_histories"] = len(hists)
    for _ in range(chk.pick(1500, 30000)):
        hists.append(random_seq(chk.rng, chk.rng.randint(3, 25)))
    hists += long_histories(chk.rng, chk.pick(3, 12))
    chk.mark("M2-generate")
    judge_seq(chk, hists)
    chk.mark("sequential-exec+judge")
    # ---- track ----
    tracks = []
    for n in range(0, chk.pick(6, 12)):
        for gen in (False, True):
            tracks.append(run_track(n, gen, False))
            for delta, given in ((-2, False), (3, False), (0, True), (-1, True)):
                tracks.append(run_track(n, gen, False, total_delta=delta, given_task=given))
                tracks.append(run_track(n, gen, True, dsched.RandomStrategy(chk.seed * 100 + n, p=0.4), total_delta=delta, given_task=given))
            for sd in range(chk.pick(3, 12)):
                tracks.append(run_track(n, gen, True, dsched.RandomStrategy(chk.seed * 100 + sd, p=0.4)))
    judge_tracks(chk, tracks)
    chk.mark("track")
    # ---- concurrent ----
    runs = []
    nprog = chk.pick(6, 40)
    for pi in range(nprog):
        prog = random_program(chk.rng, chk.rng.choice(chk.pick([2, 2, 3, 4], [2, 2, 3, 4, 5, 6, 8])))
        # (a) systematic: lock / clock / write yield points, pre-emption bound 2
        d = dsched.DFS(bound=2, max_runs=chk.pick(60, 400))
        while d.more():
            st = d.strategy()
            rec = run_conc(prog, st)
            d.done()
            runs.append((prog, rec, dict(kind="conc", program=prog, choices=rec["choices"])))
        # (b) line- and opcode-level pre-emption inside progress.py, bound 1
        d = dsched.DFS(bound=1, max_runs=chk.pick(60, 500), kinds={"line", "opcode"})
        while d.more():
            st = d.strategy()
            rec = run_conc(prog, st, trace=True, opcode=True)
            d.done()
            runs.append((prog, rec, dict(kind="conc", program=prog, choices=rec["choices"], trace=True, opcode=True)))
        # (c) random and PCT schedules with opcode-level yield points
        for sd in range(chk.pick(10, 60)):
            st = dsched.RandomStrategy(chk.seed * 1000 + sd, p=0.1) if sd % 2 else dsched.PCT(chk.seed * 1000 + sd, depth=3, est_steps=400)
            rec = run_conc(prog, st, trace=True, opcode=True)
            runs.append((prog, rec, dict(kind="conc", program=prog, choices=rec["choices"], trace=True, opcode=True)))
    chk.mark("concurrent-exec")
    judge_conc(chk, runs)
    chk.mark("concurrent-judge")


def judge_seq(chk, hists):
    recs = [execute_seq(ops) for ops in hists]
    verdicts, st = tlc.judge("Trace_Progress", recs)
    chk.add_tlc(st, "M3-sequential")
    chk.traces += len(recs)
    for ops, rec, v in zip(hists, recs, verdicts):
        chk.case(("seq", ops), any(o["k"] in ("advance", "update") for o in ops))
        if v != "ok":
            clause = v.split(": ")[-1]
            step = int(v.split(" ")[1]) if v.startswith("step ") else 0
            op = ops[step - 1] if 1 <= step <= len(ops) else {"k": "?"}
            chk.reject("%s op=%s" % (clause, op["k"]), v, dict(kind="seq", ops=ops[:step] if step else ops, observed=rec["events"][step - 1] if step else None))
    if hists:
        chk.sample(dict(kind="sequential", ops=hists[-1][:8], last_observation=recs[-1]["events"][-1].get("obs")))


def judge_tracks(chk, tracks):
    verdicts, st = tlc.judge("Trace_Progress", tracks)
    chk.add_tlc(st, "M3-track")
    chk.traces += len(tracks)
    for rec, v in zip(tracks, verdicts):
        chk.case(("track", rec["n"], rec["gen"], rec["auto"], rec.get("total_delta", 0), rec.get("given_task", False), tuple(rec.get("choices", []))), rec["n"] > 0)
        if v != "ok":
            chk.reject("%s auto=%s gen=%s total=%s given_task=%s" % (v, rec["auto"], rec["gen"], "n" if not rec.get("total_delta") else ("less" if rec["total_delta"] < 0 else "more"), rec.get("given_task", False)),
                       v, dict(kind="track", n=rec["n"], gen=rec["gen"], auto=rec["auto"], choices=rec.get("choices", []), yielded=rec["yielded"], c2=rec["c2"],
                               total_delta=rec.get("total_delta", 0), given_task=rec.get("given_task", False)))
    if tracks:
        chk.sample(dict(kind="track", n=tracks[-1]["n"], generator=tracks[-1]["gen"], auto_refresh=tracks[-1]["auto"], yielded=tracks[-1]["yielded"], completed_x2=tracks[-1]["c2"]))


def judge_conc(chk, runs):
    seen = set()
    uniq = []
    for prog, rec, payload in runs:
        key = repr((prog, [(e["e"], e["t"], e["op"], e.get("obs")) for e in rec["events"]], rec["deadlock"], rec["exc"]))
        chk.case(("conc", repr(prog), tuple(rec["choices"])), True)
        if key in seen:
            continue
        seen.add(key)
        uniq.append((prog, rec, payload))
    recs = [dict(init=r["init"], nthreads=r["nthreads"], events=r["events"], deadlock=r["deadlock"], exc=r["exc"], nonneg=r["nonneg"]) for _, r, _ in uniq]
    verdicts, st = tlc.judge("Trace_ProgressConc", recs, chunk_min=20)
    chk.add_tlc(st, "M3-linearisation")
    chk.traces += len(recs)
    chk.notes["concurrent_executions"] = chk.notes.get("concurrent_executions", 0) + len(runs)
    chk.notes["distinct_concurrent_histories"] = chk.notes.get("distinct_concurrent_histories", 0) + len(uniq)
    for (prog, rec, payload), v in zip(uniq, verdicts):
        if v == "no-verdict":
            v = "not-linearisable"
        if v != "ok":
            kinds = sorted({op["k"] for ops in prog["threads"] for op in ops})
            chk.reject("%s ops=%s" % (v, "+".join(kinds)), v, payload)
    if uniq:
        p, r, _ = uniq[-1]
        chk.sample(dict(kind="concurrent", program=p, schedule_choices=r["choices"][:40], history=[(e["e"], e["t"], e["op"]["k"]) for e in r["events"]]))
