"""C19 (first half) - decoding the escape-coded output of styled text printed in truecolor gives the
same characters and, per character, the same attributes, colours and links: the output is
interpreted twice - by rich.ansi.AnsiDecoder (decode_line per line, or decode of the whole output) and,
tokenised, by TLC with Sgr.tla - and TLC compares cell by cell (Trace_Sgr, clause "decoder:").
The styled texts are C03's (drivers/c03.py: every construction route of a style, every way of writing it)."""
from drivers import c03


def decoder_part(chk):
    if chk.replay_only:
        case = c03.upgrade(chk.replay_only["case"])
        recs = c03.run_case(case)
        c03.judge(chk, recs, [(case, i) for i in range(len(recs))], "M3-decoder", prefix="decoder")
        return
    recs, meta = c03.run_cases(chk, chk.pick(2500, 40000), only_decoder=True)
    c03.judge(chk, recs, meta, "M3-decoder", prefix="decoder")
    if recs:
        case, i = meta[-1]
        chk.sample(dict(part="decoder", case=c03.describe(case, i), decoded_cells=recs[-1]["dec"][:6]))
