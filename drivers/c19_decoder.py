"""C19 (first half) - decoding the escape-coded output of styled text printed in truecolor gives the
same characters and, per character, the same attributes, colours and links: the output is
interpreted twice - by rich.ansi.AnsiDecoder and, tokenised, by TLC with Sgr.tla - and TLC
compares cell by cell (Trace_Sgr, clause "decoder:")."""
from drivers import c03


def decoder_part(chk):
    if chk.replay_only:
        segs, cfgs = c03.rebuild(chk.replay_only["case"])
        links, recs, meta = {}, [], []
        for i, cfg in enumerate(cfgs):
            rec, out = c03.print_case(segs, cfg, links)
            recs.append(rec)
            meta.append((segs, cfgs, i))
        c03.judge(chk, recs, meta, "M3-decoder", prefix="decoder")
        return
    recs, meta = c03.run_cases(chk, chk.pick(2500, 40000), only_decoder=True)
    c03.judge(chk, recs, meta, "M3-decoder", prefix="decoder")
    if recs:
        segs, cfgs, i = meta[-1]
        chk.sample(dict(part="decoder", case=c03.describe(segs, cfgs), decoded_cells=recs[-1]["dec"][:6]))
