"""C04 - console markup.  TLC (Markup.tla) is the judge:
  M1  MC_Markup: stack machine == stack-free rule of the statement == span design; escape neutralises
      every string of the small alphabet (stand-alone + embedded), per-action coverage;
  M2  TLC-generated token documents (exhaustive depth + simulation) rendered to markup and replayed on
      the real rich.markup.render;
  M3  Trace_Markup judges: those documents, ALL raw strings up to length L over the quantifier's
      alphabet (render + escape clause + MarkupError clause), the embedded-escape clause (fixed
      contexts x all strings, and random documents from trees of nested / overlapping tags with
      escaped leaves up to 200 characters)."""
import io
import itertools
import os
import time
from concurrent.futures import ThreadPoolExecutor

from engine import tlc
from engine.harness import Check, cps

ALPHABET = "[]\\/=#ab1 \n:"            # the quantifier's alphabet (12 symbols)
SAFE = "ab 1:=#/\nxyz"                 # text that needs no escaping
# fixed tag vocabulary of Markup.tla (id -> markup text); TagKey / TagSty live in the spec
TAG_TEXT = {1: "red", 2: "blue", 3: "bold", 4: "b", 5: "on white", 6: "bold red", 7: "link=U?q=1",
            8: "link=V;x=2&y", 9: "not bold", 10: "zz"}
TAG_KEY = {1: "red", 2: "blue", 3: "bold", 4: "bold", 5: "on white", 6: "bold red", 7: "link",
           8: "link", 9: "not bold", 10: "zz"}           # only used to bias generators
CLOSE_SPELL = {"red": ["red"], "blue": ["blue"], "bold": ["bold", "b"], "on white": ["on white"],
               "bold red": ["bold red", "red bold"], "link": ["link"], "not bold": ["not bold"], "zz": ["zz"]}

GEN_CFG = """CONSTANTS
  OpenIds = {%s}
  CloseKeys = {%s}
  MaxToks = %d
  Alpha = {91}
  MaxStr = 0
  Modes = {"doc"}
  GenDepth = %d
SPECIFICATION Spec
CONSTRAINT Emit
CHECK_DEADLOCK FALSE
"""
MC_CFG = """CONSTANTS
  OpenIds = {1, 2, 4, 6, 7, 9}
  CloseKeys = {"red", "blue", "bold", "link"}
  MaxToks = %d
  Alpha = {%s}
  MaxStr = %d
  Modes = {"doc", "str"}
  GenDepth = 0
SPECIFICATION Spec
INVARIANT TypeOK
INVARIANT StackOrd
INVARIANT EffIsLaterWins
INVARIANT ErrExact
INVARIANT DeclAgrees
INVARIANT SpanDesign
INVARIANT AllClosedAtEnd
INVARIANT RunsToEnd
INVARIANT EscStandalone
INVARIANT EscEmbedded
INVARIANT EscOnlyAddsBackslashes
CHECK_DEADLOCK FALSE
"""
M1_ACTIONS = ["Open", "CloseTop", "CloseOverlap", "CloseNothing", "PopTop", "PopEmpty", "Chr", "End", "Extend"]


# ------------------------------------------------------------------------------------------------
# driving the real code + lexical projection

class Env:
    def __init__(self):
        from rich.console import Console
        from rich.style import Style
        from rich import markup as mk
        from rich.errors import MarkupError
        self.console = Console(file=io.StringIO(), width=80)
        self.Style, self.mk, self.MarkupError = Style, mk, MarkupError
        self._sty = {}
        self._tag = {}

    def project(self, style):
        """Style -> Code(<<fg, bg, bold, link, other>>), digits 0 = unset, 9 = something else."""
        k = id(style)
        hit = self._sty.get(k)
        if hit is not None and hit[0] is style:
            return hit[1]
        col = style.color.name if style.color is not None else None
        bg = style.bgcolor.name if style.bgcolor is not None else None
        fg_i = {None: 0, "red": 1, "blue": 2}.get(col, 9)
        bg_i = {None: 0, "white": 1}.get(bg, 9)
        bold_i = {None: 0, True: 1, False: 2}[style.bold]
        link_i = {None: 0, "U?q=1": 1, "V;x=2&y": 2}.get(style.link, 9)     # targets with = ; & must arrive whole
        other = 0
        for a in ("dim", "italic", "underline", "blink", "blink2", "reverse", "conceal", "strike",
                  "underline2", "frame", "encircle", "overline"):
            if getattr(style, a) is not None:
                other = 1
        p = fg_i + 10 * bg_i + 100 * bold_i + 1000 * link_i + 10000 * other      # Markup.tla: Code
        if len(self._sty) < 50000:
            self._sty[k] = (style, p)
        return p

    def observe(self, markup):
        """(err, plain code points, per-character projected effective style) of the real render."""
        try:
            text = self.mk.render(markup, emoji=False)
            plain = text.plain
            sty = []
            null = self.project(self.Style.null())
            for seg in text.render(self.console):
                p = self.project(seg.style) if seg.style is not None else null
                sty.extend([p] * len(seg.text))
            return "none", cps(plain), sty
        except self.MarkupError:
            return "MarkupError", [], []
        except Exception as e:  # a crash inside Rich is data for TLC
            return "exc:" + type(e).__name__, [], []

    def escape(self, s):
        try:
            return "none", self.mk.escape(s)
        except Exception as e:
            return "exc:" + type(e).__name__, ""

    def tag_entry(self, c):
        """Style language, taken as given from the tree under test: canonical name (Style.normalize)
        and style (Console.get_style) of the tag text c.  name = text before '=', a closing tag's name
        is what follows '/', stripped; '' = the implicit close [/]."""
        hit = self._tag.get(c)
        if hit is not None:
            return hit
        name, eq, params = c.partition("=")
        try:
            if c.startswith("/"):
                nm = name[1:].strip()
                key = self.Style.normalize(nm) if nm else ""
                sty = 0
            else:
                key = self.Style.normalize(name)
                definition = key + " " + params if eq else key
                sty = self.project(self.console.get_style(definition, default=self.Style.null()))
        except Exception as e:
            key, sty = "exc:" + type(e).__name__, 99999
        ent = dict(c=cps(c), key=cps(key), sty=sty)
        self._tag[c] = ent
        return ent


def candidates(s):
    """every substring between a '[' and a later ']' on the same line (superset of the tag texts)."""
    out = []
    for i, ch in enumerate(s):
        if ch != "[":
            continue
        j = s.find("]", i + 1)
        while j != -1:
            c = s[i + 1:j]
            if "\n" in c:
                break
            if c and c not in out:
                out.append(c)
            j = s.find("]", j + 1)
    return out


def emit(toks, env):
    """token document -> markup string; escaped leaves go through the real escape()."""
    parts = []
    for t in toks:
        k = t["k"]
        if k == "open":
            parts.append("[" + TAG_TEXT[t["id"]] + "]")
        elif k == "close":
            sp = CLOSE_SPELL[t["key"]]
            parts.append("[/" + sp[t.get("sp", 0) % len(sp)] + "]")
        elif k == "pop":
            parts.append("[/]")
        else:
            s = "".join(map(chr, t["s"]))
            if t.get("e"):
                err, es = env.escape(s)
                parts.append(es if err == "none" else s)
            else:
                parts.append(s)
    return "".join(parts)


def doc_record(toks, env):
    markup = emit(toks, env)
    err, plain, sty = env.observe(markup)
    return dict(kind="doc", toks=toks, cp=cps(markup), err=err, plain=plain, sty=sty), markup


def str_record(s, env):
    err, plain, sty = env.observe(s)
    eerr, es = env.escape(s)
    if eerr == "none":
        eerr, eplain, esty = env.observe(es)
    else:
        eplain, esty = [], []
    tags = [env.tag_entry(c) for c in candidates(s)] if "[" in s else []
    return dict(kind="str", cp=cps(s), tags=tags, err=err, plain=plain, sty=sty,
                esc=cps(es), eerr=eerr, eplain=eplain, esty=esty)


def norm_tok(t, rng=None):
    t = dict(t)
    if t["k"] == "text":
        t.setdefault("e", 0)
    if t["k"] == "close" and "sp" not in t:
        t["sp"] = rng.randrange(2) if rng else 0
    return t


# ------------------------------------------------------------------------------------------------
# generators (inputs only - verdicts are TLC's)

def side_ok(s):
    """the statement's side conditions for the embedded form (TLC re-checks: SideOK)."""
    if s.endswith("\\"):
        return False
    return all("]" in s[i + 1:] for i, ch in enumerate(s) if ch == "[")


def hostile_leaf(rng, maxlen):
    for _ in range(30):
        n = rng.randint(1, maxlen)
        s = "".join(rng.choice(ALPHABET + "[]\\[/") for _ in range(n))
        if side_ok(s):
            return s
    return "[/a]"


def random_doc(rng, maxlen=200):
    toks, stack, length = [], [], 0
    want = rng.randint(2, 40)
    p_err = rng.choice([0.0, 0.0, 0.02, 0.08])
    while len(toks) < want and length < maxlen - 24:
        r = rng.random()
        if r < 0.30:
            if rng.random() < 0.6:
                s = hostile_leaf(rng, rng.choice([2, 4, 8, 16]))
                toks.append(dict(k="text", s=cps(s), e=1))
                length += 2 * len(s) + 2
            else:
                s = "".join(rng.choice(SAFE) for _ in range(rng.randint(1, 6)))
                toks.append(dict(k="text", s=cps(s), e=0))
                length += len(s)
        elif r < 0.62:
            i = rng.choice([1, 1, 2, 2, 3, 4, 5, 6, 7, 8, 9, 10])
            toks.append(dict(k="open", id=i))
            stack.append(TAG_KEY[i])
            length += len(TAG_TEXT[i]) + 2
        elif r < 0.80 and stack:
            key = stack[-1] if rng.random() < 0.5 else rng.choice(stack)
            idx = len(stack) - 1 - stack[::-1].index(key)
            stack.pop(idx)
            toks.append(dict(k="close", key=key, sp=rng.randrange(2)))
            length += len(key) + 3
        elif r < 0.92 and stack:
            stack.pop()
            toks.append(dict(k="pop"))
            length += 3
        elif r < 0.92 + p_err:
            absent = [k for k in CLOSE_SPELL if k not in stack]
            if absent and (stack or rng.random() < 0.5):
                toks.append(dict(k="close", key=rng.choice(absent), sp=0))
            elif not stack:
                toks.append(dict(k="pop"))
            else:
                continue
            break
    if not any(t["k"] == "text" for t in toks) or rng.random() < 0.5:
        toks.append(dict(k="text", s=cps("z"), e=0))
    return toks


CONTEXTS = [  # (prefix tokens, suffix tokens) of complete markup for the embedded clause
    ([], []),
    ([dict(k="open", id=1)], [dict(k="text", s=cps("y"), e=0), dict(k="close", key="red", sp=0)]),
    ([dict(k="open", id=4), dict(k="text", s=cps("x"), e=0), dict(k="close", key="bold", sp=0)],
     [dict(k="open", id=2), dict(k="text", s=cps("y"), e=0)]),
    ([dict(k="text", s=cps("x"), e=0)], [dict(k="pop")]),
    ([dict(k="open", id=7), dict(k="open", id=5)], [dict(k="pop"), dict(k="text", s=cps("y"), e=0)]),
    ([dict(k="open", id=3)], [dict(k="close", key="bold", sp=1), dict(k="text", s=cps("]"), e=0)]),
]


def all_strings(maxlen):
    for n in range(maxlen + 1):
        for tup in itertools.product(ALPHABET, repeat=n):
            yield "".join(tup)


# ------------------------------------------------------------------------------------------------

def _sig(part, kind):
    return "%s kind=%s" % (part, kind)


def judge_batch(chk, recs, keys, label, rejected, counters):
    """one TLC batch; collect rejections as (size, signature, verdict, payload)."""
    verdicts, st = tlc.judge("Trace_Markup", recs, chunk_min=200)
    chk.add_tlc(st, label)
    for rec, key, v in zip(recs, keys, verdicts):
        if v == "ok":
            counters["ok"] += 1
            continue
        if v == "no-verdict" or v.startswith("machinery") or " | machinery" in v:
            raise tlc.TLCFailure("Trace_Markup gave %r for %r" % (v, key))
        parts = v.split(" | ")
        bad = False
        for part in parts:
            if part == "ok" or part.startswith("skip:"):
                continue
            if part.startswith("ok drift:"):
                chk.drift_note("%s (spec transcription vs code; the property holds) e.g. %r" % (part[3:], key))
            elif part.startswith("drift:"):
                chk.drift_note("%s e.g. %r" % (part, key))
            else:
                bad = True
                rejected.append((len(rec["cp"]), _sig(part, rec["kind"]), part, key))
        if bad:
            counters["rejected"] += 1
        elif all(p.startswith("skip:") for p in parts):
            counters["skipped"] += 1
        else:
            counters["ok"] += 1
    chk.traces += len(recs)


def minimise(chk, env, toks, want_sig):
    """delta debugging on a rejected token document: every round is one TLC batch of candidate
    reductions; keep a candidate that TLC rejects with the same signature."""
    cur = toks
    for _ in range(12):
        cands, size = [], len(cur) // 2
        while size >= 1:                      # ddmin: drop every aligned chunk of n/2, n/4, ... 1 tokens
            cands += [cur[:i] + cur[i + size:] for i in range(0, len(cur), size)]
            size //= 2
        cands += [cur[:i] + [dict(t, s=t["s"][:len(t["s"]) // 2])] + cur[i + 1:]
                  for i, t in enumerate(cur) if t["k"] == "text" and len(t["s"]) > 1]
        cands = [c for c in cands if c]
        if not cands:
            break
        recs = [doc_record(c, env)[0] for c in cands]
        verdicts, st = tlc.judge("Trace_Markup", recs, chunk_min=200)
        chk.add_tlc(st, "M3-minimise")
        chk.traces += len(recs)
        nxt = None
        for c, v in zip(cands, verdicts):
            if _sig(v, "doc") == want_sig and (nxt is None or len(c) < len(nxt)):
                nxt = c
        if nxt is None:
            break
        cur = nxt
    return cur


def run(chk: Check):
    env = Env()
    rng = chk.rng
    chk.rule = ("a case is a distinct markup input (token document over the 10-tag vocabulary with its spelling, "
                "or raw string over the 12-symbol alphabet of the quantifier); non-trivial = contains at least one "
                "'[' (raw strings) / at least one tag token and one text token (documents)")
    chk.trusted = ["drivers/c04.py:Env.project (Style -> [fg,bg,bold,link,other] ids)",
                   "drivers/c04.py:Env.observe (Text.plain + Text.render segments expanded per character)",
                   "drivers/c04.py:Env.tag_entry (style language taken as given: Style.normalize / Console.get_style of the tree under test)",
                   "drivers/c04.py:emit (token document -> markup string; TLC re-lexes the string and reports a mismatch as drift)"]
    chk.assumptions = ["emoji=False: emoji code replacement is a separate documented feature",
                       "closing-tag names are compared modulo Style.normalize (e.g. [/b] closes [bold])",
                       "what a tag is: the documented syntax (RE_TAGS); where the documentation is silent "
                       "('[' inside a tag, tag candidate not closed on its line) a disagreement is DRIFT"]
    rejected = []
    counters = dict(ok=0, rejected=0, skipped=0)
    phase = chk.notes.setdefault("phase_wall_s", {})
    t_ph = [time.time()]

    def lap(name):
        phase[name] = round(phase.get(name, 0) + time.time() - t_ph[0], 1)
        t_ph[0] = time.time()

    # ---- replay of one stored case ------------------------------------------------------------
    if chk.replay_only:
        c = chk.replay_only["case"]
        if c["kind"] == "doc":
            rec, markup = doc_record(c["toks"], env)
            key = dict(kind="doc", toks=c["toks"], markup=markup)
        else:
            rec = str_record(c["s"], env)
            key = dict(kind="str", s=c["s"])
        chk.case(key, True)
        judge_batch(chk, [rec], [key], "M3", rejected, counters)
        chk.sample(dict(case=key, observed=dict(err=rec["err"], plain=rec["plain"], sty=rec["sty"])))
        _report(chk, env, rejected, counters, minimise_ok=False)
        return

    # C04_SELFTEST=1 (mutation self-tests only): skip the tree-independent M1 and shrink the batches
    light = os.environ.get("C04_SELFTEST") == "1"
    if light:
        chk.notes["selftest_mode"] = "C04_SELFTEST=1: M1 skipped, raw strings <= 4, 2000 random documents"

    # ---- M1 -----------------------------------------------------------------------------------
    mc_cfg = MC_CFG % (chk.pick(5, 6), chk.pick("91, 93, 92, 47, 97, 10", "91, 93, 92, 47, 97, 10, 61"), chk.pick(5, 6))
    if not light:
        r, cov, missing = tlc.model_check("MC_Markup", cfg_text=mc_cfg, require_actions=M1_ACTIONS, timeout=2400)
        chk.add_tlc(r, "M1")
        if r.violated or missing or not r.finished:
            raise tlc.TLCFailure("MC_Markup: violated=%s never-fired=%s\n%s" % (r.violated, missing, r.out[-2000:]))
        chk.notes["m1_action_coverage"] = {k: v[1] for k, v in cov.items()}
    lap("M1")
    chk.notes["m1"] = "token documents <= %d tokens over 6 tags / 4 close names; escape+lex over all strings <= %d symbols of a %d-symbol alphabet" % (
        chk.pick(5, 6), chk.pick(5, 6), chk.pick(6, 7))

    # ---- M2: TLC-generated token documents ---------------------------------------------------------
    all_ids = ",".join(str(i) for i in sorted(TAG_TEXT))
    all_keys = ",".join('"%s"' % k for k in CLOSE_SPELL)
    depth = chk.pick(3, 4)
    behs, r2 = tlc.behaviours("MC_Markup", cfg_text=GEN_CFG % (all_ids, all_keys, depth, depth), workers=4)
    chk.add_tlc(r2, "M2")
    if not behs:
        raise tlc.TLCFailure("no token documents generated\n" + r2.out[-1500:])
    sim_depth = chk.pick(8, 10)
    behs2, r3 = tlc.behaviours("MC_Markup", cfg_text=GEN_CFG % ("1,2,3,4,6,7,8,9", '"red","blue","bold","link"', sim_depth, sim_depth),
                               simulate="num=%d" % chk.pick(3000, 30000), depth=sim_depth + 2, seed=chk.seed)
    chk.add_tlc(r3, "M2")
    chk.notes["tlc_generated_documents"] = dict(exhaustive_depth=depth, exhaustive=len(behs), simulated=len(behs2))
    lap("M2")
    docs, seen = [], set()
    for b in behs + behs2:
        toks = [norm_tok(t, rng) for t in b["beh"]]
        sig = repr(toks)
        if sig not in seen:
            seen.add(sig)
            docs.append(toks)

    # ---- embedded-escape clause: fixed complete contexts x every string up to Le -----------------
    le = chk.pick(3, 4)
    n_emb = 0
    for s in all_strings(le):
        for pre, suf in CONTEXTS:
            docs.append(pre + [dict(k="text", s=cps(s), e=1)] + suf)
            n_emb += 1
    chk.notes["embedded_exhaustive"] = dict(max_len=le, contexts=len(CONTEXTS), records=n_emb,
                                            note="records outside the side conditions are skipped by TLC (SideOK)")

    # ---- random documents from trees of nested / overlapping tags with escaped leaves -----------
    n_rand = 2000 if light else chk.pick(6000, 60000)
    for _ in range(n_rand):
        docs.append(random_doc(rng))
    chk.notes["random_documents"] = n_rand

    # TLC judges batch k while Rich is driven for batch k+1 (one TLC batch in flight)
    pool = ThreadPoolExecutor(1)
    pending = []

    def submit(recs, keys, label):
        if pending:
            pending.pop().result()
        pending.append(pool.submit(judge_batch, chk, recs, keys, label, rejected, counters))

    BATCH = 60000
    maxlen_seen = 0
    lap("generate")
    for off in range(0, len(docs), BATCH):
        recs, keys = [], []
        for toks in docs[off:off + BATCH]:
            rec, markup = doc_record(toks, env)
            maxlen_seen = max(maxlen_seen, len(markup))
            key = dict(kind="doc", toks=toks, markup=markup)
            recs.append(rec)
            keys.append(key)
            chk.case(markup, any(t["k"] != "text" for t in toks) and any(t["k"] == "text" for t in toks))
        if off == 0:
            chk.sample(dict(markup=keys[0]["markup"], observed=dict(err=recs[0]["err"], plain=recs[0]["plain"], sty=recs[0]["sty"])))
            chk.sample(dict(markup=keys[-1]["markup"], toks=keys[-1]["toks"],
                            observed=dict(err=recs[-1]["err"], plain=recs[-1]["plain"], sty=recs[-1]["sty"])))
        submit(recs, keys, "M3-doc")
    chk.notes["longest_document_chars"] = maxlen_seen
    lap("documents (rich + tlc, pipelined)")

    # ---- ALL raw strings up to length L over the quantifier's alphabet ----------------------------
    L = 4 if light else chk.pick(5, 6)
    n_raw = 0
    recs, keys = [], []
    BATCH = chk.pick(70000, 250000)
    for s in all_strings(L):
        recs.append(str_record(s, env))
        keys.append(dict(kind="str", s=s))
        chk.case(s, "[" in s)
        n_raw += 1
        if len(recs) >= BATCH:
            submit(recs, keys, "M3-str")
            recs, keys = [], []
    if recs:
        chk.sample(dict(s=keys[-1]["s"], escape="".join(map(chr, recs[-1]["esc"])),
                        observed=dict(err=recs[-1]["err"], plain=recs[-1]["plain"])))
        submit(recs, keys, "M3-str")
    if pending:
        pending.pop().result()
    pool.shutdown()
    lap("raw strings (rich + tlc, pipelined)")
    chk.exhaustive = True
    chk.notes["raw_strings"] = dict(alphabet=ALPHABET, max_len=L, count=n_raw,
                                    clauses="render == Run(Lex(s)) incl. MarkupError-exactly-when; EscapeOK(s, render(escape(s)))")
    _report(chk, env, rejected, counters, minimise_ok=True)
    lap("report+minimise")


def _report(chk, env, rejected, counters, minimise_ok):
    chk.notes["verdicts"] = dict(counters)
    rejected.sort(key=lambda x: (x[0], x[1]))
    first = {}
    for size, sig, part, key in rejected:
        if sig not in first:
            first[sig] = (part, key)
    for sig, (part, key) in first.items():
        if minimise_ok and key["kind"] == "doc" and len(key["toks"]) > 4:
            small = minimise(chk, env, key["toks"], sig)
            key = dict(kind="doc", toks=small, markup=emit(small, env))
            first[sig] = (part, key)
    chk.notes["rejections_by_signature"] = {}
    for size, sig, part, key in rejected:
        p, k = first[sig]
        wit = k.get("markup", k.get("s"))
        chk.notes["rejections_by_signature"].setdefault(sig, dict(n=0, minimal_witness=wit))["n"] += 1
        chk.reject(sig, "%s; witness %r" % (p, wit), k)
