"""C04 - console markup.  TLC (Markup.tla) is the judge:
  M1  MC_Markup: stack machine == stack-free rule of the statement == span design; escape neutralises
      every string of the small alphabet (stand-alone + embedded), per-action coverage;
  M2  TLC-generated token documents (exhaustive depth + simulation) rendered to markup and replayed on
      the real rich.markup.render;
  M3  Trace_Markup judges: those documents, ALL raw strings up to length L over the quantifier's
      alphabet (render + escape clause + MarkupError clause), the embedded-escape clause (fixed
      contexts x all strings, and random documents from trees of nested / overlapping tags with
      escaped leaves up to 200 characters).
Every record carries the options of the call (OPT): entry point (rich.markup.render, Text.from_markup,
Console.render_str, Console.print), emoji flag, base style (style=...); the spec knows what they mean
(BaseSty, HasEmoji).  Besides the random documents there are hand-listed boundary documents / raw strings
(spellings whose canonical name differs, colour syntaxes, runs of backslashes, emoji codes and near-misses,
wide / combining characters, deep nesting, long text) - see boundary_docs() / BOUNDARY_STRINGS."""
import io
import itertools
import os
import time
from concurrent.futures import ThreadPoolExecutor

from engine import tlc
from engine.harness import Check, cps

ALPHABET = "[]\\/=#ab1 \n:"            # the quantifier's alphabet (12 symbols)
SAFE = "ab 1:=#/\nxyz"                 # text that needs no escaping
WIDE = "\u6f22\u5b57\U0001f600\u00e9\u0301\u00f1\u3000\u200b"   # wide, astral, combining, non-ASCII blank, zero width
EXTRA = "ABZ(),;&@.-_!?*'\"%~" + WIDE   # beyond the quantifier's minimum alphabet ("an alphabet containing ...")
EMOJI_BITS = [":a:", ":smiley:", ":zzz:", ":a b:", "::", ":A:", ":no_such_code:", ":a", "b:", ":ab:", ":x:y:",
              ":a\u3000b:", ":thumbs_up:", ": a:", ":1:", ":Smiley:"]      # codes and near-misses
# fixed tag vocabulary of Markup.tla (id -> markup text); TagKey / TagSty live in the spec
TAG_TEXT = {1: "red", 2: "blue", 3: "bold", 4: "b", 5: "on white", 6: "bold red", 7: "link=U?q=1",
            8: "link=V;x=2&y", 9: "not bold", 10: "zz",
            # spellings whose canonical name differs from the spelling / other ways of writing a style
            11: "bOLD", 12: "b ", 13: "bold  red", 14: "#ff0000", 15: "rgb(1,2,3)", 16: "color(5)", 17: "on red",
            18: "i", 19: "italic", 20: "link=x:a:y", 21: "lINK=U?q=1", 22: "click=f", 23: "red on white", 24: "zZ "}
TAG_KEY = {1: "red", 2: "blue", 3: "bold", 4: "bold", 5: "on white", 6: "bold red", 7: "link",
           8: "link", 9: "not bold", 10: "zz", 11: "bold", 12: "bold", 13: "bold red", 14: "#ff0000",
           15: "rgb(1,2,3)", 16: "color(5)", 17: "on red", 18: "italic", 19: "italic", 20: "link", 21: "link",
           22: "click", 23: "red on white", 24: "zz"}           # only used to bias generators
OLD_IDS = list(range(1, 11))
# ways of writing the closing tag of a name (index = token field sp); [0] is the plain spelling
CLOSE_SPELL = {"red": ["red", "RED", "red "], "blue": ["blue", " blue"], "bold": ["bold", "b", "BOLD", " b ", "bOLD"],
               "on white": ["on white", "on  white", "ON WHITE"],
               "bold red": ["bold red", "red bold", "bold  red", " RED  bold "],
               "link": ["link", "LINK", " link "], "not bold": ["not bold", "not b", "NOT  bold"],
               "zz": ["zz", "ZZ", " zz "], "#ff0000": ["#ff0000", "#FF0000"], "rgb(1,2,3)": ["rgb(1,2,3)", "RGB(1,2,3)"],
               "color(5)": ["color(5)", "COLOR(5)"], "on red": ["on red", "on  RED"], "italic": ["italic", "i", "I", " italic"],
               "click": ["click", "CLICK"], "red on white": ["red on white", "RED  on white"]}
OLD_KEYS = ["red", "blue", "bold", "on white", "bold red", "link", "not bold", "zz"]
# base styles (spec: BaseSty); ("obj", kwargs) is handed over as a Style instance
BASES = {0: None, 1: "blue", 2: "bold", 3: "not bold on white", 4: "bold red link U?q=1",
         5: ("obj", dict(color="blue", italic=True))}
DEFAULT_OPT = dict(entry="render", emoji=0, base=0, v=0)
ENTRIES = ["render", "from_markup", "render_str", "print"]


def rand_opt(rng, p_default=0.4):
    """options of one call: entry point x emoji x base style x sub-variant v (bit 0: base handed over as a
    Style instance; bit 1: rely on the default / the console's setting instead of an explicit emoji argument)."""
    if rng.random() < p_default:
        return DEFAULT_OPT
    return dict(entry=rng.choice(["render", "render", "from_markup", "render_str", "render_str", "print"]),
                emoji=rng.randrange(2), base=rng.choice([0, 0, 0, 1, 2, 3, 4, 5]), v=rng.randrange(4))


# the variant calls used for hand-listed cases and, in turn, for the exhaustive families
VARIANT_OPTS = [dict(entry="render", emoji=1, base=0, v=2), dict(entry="render", emoji=0, base=1, v=0),
                dict(entry="from_markup", emoji=1, base=3, v=1), dict(entry="from_markup", emoji=0, base=0, v=2),
                dict(entry="render_str", emoji=0, base=4, v=0), dict(entry="render_str", emoji=1, base=2, v=3),
                dict(entry="print", emoji=1, base=5, v=0), dict(entry="print", emoji=0, base=0, v=2),
                dict(entry="render", emoji=1, base=4, v=1)]


def opt_tag(opt):
    bits = ([opt["entry"]] if opt["entry"] != "render" else []) + (["emoji"] if opt["emoji"] else []) + (["base"] if opt["base"] else [])
    return "+".join(bits)


GEN_CFG = """CONSTANTS
  OpenIds = {%s}
  CloseKeys = {%s}
  MaxToks = %d
  Alpha = {91}
  MaxStr = 0
  Modes = {"doc"}
  GenDepth = %d
SPECIFICATION Spec
CONSTRAINT Emit
CHECK_DEADLOCK FALSE
"""
MC_CFG = """CONSTANTS
  OpenIds = {1, 2, 4, 6, 7, 9}
  CloseKeys = {"red", "blue", "bold", "link"}
  MaxToks = %d
  Alpha = {%s}
  MaxStr = %d
  Modes = {"doc", "str"}
  GenDepth = 0
SPECIFICATION Spec
INVARIANT TypeOK
INVARIANT StackOrd
INVARIANT EffIsLaterWins
INVARIANT ErrExact
INVARIANT DeclAgrees
INVARIANT SpanDesign
INVARIANT AllClosedAtEnd
INVARIANT RunsToEnd
INVARIANT EscStandalone
INVARIANT EscEmbedded
INVARIANT EscOnlyAddsBackslashes
CHECK_DEADLOCK FALSE
"""
M1_ACTIONS = ["Open", "CloseTop", "CloseOverlap", "CloseNothing", "PopTop", "PopEmpty", "Chr", "End", "Extend"]


# ------------------------------------------------------------------------------------------------
# driving the real code + lexical projection

class Env:
    def __init__(self):
        from rich.console import Console
        from rich.style import Style
        from rich.text import Text
        from rich import markup as mk
        from rich.errors import MarkupError
        from rich._emoji_codes import EMOJI
        self.console = Console(file=io.StringIO(), width=80)
        self.Style, self.mk, self.MarkupError, self.Text = Style, mk, MarkupError, Text
        # consoles whose own emoji setting is off / on (render_str, print)
        self.cons = [Console(file=io.StringIO(), width=80, emoji=bool(e), markup=True, highlight=False) for e in (0, 1)]
        self.pcons = [Console(file=io.StringIO(), width=100000, emoji=bool(e), markup=True, highlight=False, record=True,
                              color_system="truecolor", force_terminal=True, legacy_windows=False) for e in (0, 1)]
        self.emoji_names = [(n, frozenset(n)) for n in EMOJI]
        self._sty = {}
        self._tag = {}
        self._emo = {}
        self._base = {}

    def project(self, style):
        """Style -> Code(<<fg, bg, bold, link, other>>), digits 0 = unset, 9 = something else."""
        k = id(style)
        hit = self._sty.get(k)
        if hit is not None and hit[0] is style:
            return hit[1]

        def colour(c):
            return None if c is None else (c.number, tuple(c.triplet) if c.triplet is not None else None)
        # red, blue, #ff0000, color(5), rgb(1,2,3)  /  on white, on red
        fg_i = {None: 0, (1, None): 1, (4, None): 2, (None, (255, 0, 0)): 3, (5, None): 4, (None, (1, 2, 3)): 5}.get(colour(style.color), 9)
        bg_i = {None: 0, (7, None): 1, (1, None): 2}.get(colour(style.bgcolor), 9)
        bold_i = {None: 0, True: 1, False: 2}[style.bold]
        # targets with = ; & : must arrive whole
        link_i = {None: 0, "U?q=1": 1, "V;x=2&y": 2, "x:a:y": 3}.get(style.link, 9)
        other = 0
        for a in ("dim", "italic", "underline", "blink", "blink2", "reverse", "conceal", "strike",
                  "underline2", "frame", "encircle", "overline"):
            if getattr(style, a) is not None:
                other = 1
        p = fg_i + 10 * bg_i + 100 * bold_i + 1000 * link_i + 10000 * other      # Markup.tla: Code
        if len(self._sty) < 50000:
            self._sty[k] = (style, p)
        return p

    def base_arg(self, base, as_object):
        b = BASES[base]
        if b is None:
            return None
        if isinstance(b, tuple):
            return self.Style(**b[1])
        if as_object:
            hit = self._base.get(base)
            if hit is None:
                hit = self._base[base] = self.Style.parse(b)
            return hit
        return b

    def call(self, markup, opt):
        """the real call -> per-character (code point, projected style) lists"""
        entry, emoji, v = opt["entry"], bool(opt["emoji"]), opt.get("v", 0)
        base = self.base_arg(opt["base"], v & 1)
        kw = {} if base is None else {"style": base}
        null = self.project(self.Style.null())
        if entry == "print":
            con = self.pcons[1 if emoji else 0] if v & 2 else self.pcons[0 if emoji else 1]
            del con._record_buffer[:]
            try:
                if v & 2:      # the console's own emoji setting
                    con.print(markup, end="", soft_wrap=True, **kw)
                else:          # an explicit argument against the console's setting
                    con.print(markup, end="", soft_wrap=True, emoji=emoji, markup=True, highlight=False, **kw)
                segs = [seg for seg in con._record_buffer if not seg.is_control]
            finally:
                del con._record_buffer[:]
                con.file.seek(0)
                con.file.truncate()
            plain, sty = [], []
            for seg in segs:
                pr = self.project(seg.style) if seg.style is not None else null
                for ch in seg.text:
                    plain.append(ord(ch))
                    sty.append(-1 if ch == "\n" else pr)      # a line end of printed output shows no tag style
            return plain, sty
        if entry == "render":
            if v & 2 and emoji:
                text = self.mk.render(markup, **kw)            # emoji=True is the default
            else:
                text = self.mk.render(markup, emoji=emoji, **kw)
        elif entry == "from_markup":
            text = self.Text.from_markup(markup, emoji=emoji, justify=[None, "left", "center", "full"][v & 3],
                                         overflow=[None, "fold", "crop", "ellipsis"][v & 3], **kw)
        else:
            if v & 2:
                text = self.cons[1 if emoji else 0].render_str(markup, **kw)
            else:
                text = self.cons[0 if emoji else 1].render_str(markup, emoji=emoji, markup=True, highlight=False, **kw)
        sty = []
        for seg in text.render(self.console):
            pr = self.project(seg.style) if seg.style is not None else null
            sty.extend([pr] * len(seg.text))
        return cps(text.plain), sty

    def observe(self, markup, opt=DEFAULT_OPT):
        """(err, plain code points, per-character projected effective style) of the real call."""
        try:
            plain, sty = self.call(markup, opt)
            return "none", plain, sty
        except self.MarkupError:
            return "MarkupError", [], []
        except Exception as e:  # a crash inside Rich is data for TLC
            return "exc:" + type(e).__name__, [], []

    def emo(self, markup, opt):
        """emoji names (taken as given from the tree under test) written with the input's characters; TLC decides
        whether the text contains one (HasEmoji).  [] when the call does not replace emoji codes."""
        if not opt["emoji"] or markup.count(":") < 2:
            return []
        key = frozenset(markup.lower())
        hit = self._emo.get(key)
        if hit is None:
            hit = [cps(n) for n, chars in self.emoji_names if chars <= key]
            if len(self._emo) < 20000:
                self._emo[key] = hit
        return hit

    def escape(self, s):
        try:
            return "none", self.mk.escape(s)
        except Exception as e:
            return "exc:" + type(e).__name__, ""

    def tag_entry(self, c):
        """Style language, taken as given from the tree under test: canonical name (Style.normalize)
        and style (Console.get_style) of the tag text c.  name = text before '=', a closing tag's name
        is what follows '/', stripped; '' = the implicit close [/]."""
        hit = self._tag.get(c)
        if hit is not None:
            return hit
        name, eq, params = c.partition("=")
        try:
            if c.startswith("/"):
                nm = name[1:].strip()
                key = self.Style.normalize(nm) if nm else ""
                sty = 0
            else:
                key = self.Style.normalize(name)
                definition = key + " " + params if eq else key
                sty = self.project(self.console.get_style(definition, default=self.Style.null()))
        except Exception as e:
            key, sty = "exc:" + type(e).__name__, 99999
        ent = dict(c=cps(c), key=cps(key), sty=sty)
        self._tag[c] = ent
        return ent


def candidates(s):
    """every substring between a '[' and a later ']' on the same line (superset of the tag texts)."""
    out = []
    for i, ch in enumerate(s):
        if ch != "[":
            continue
        j = s.find("]", i + 1)
        while j != -1:
            c = s[i + 1:j]
            if "\n" in c:
                break
            if c and c not in out:
                out.append(c)
            j = s.find("]", j + 1)
    return out


def emit(toks, env):
    """token document -> markup string; escaped leaves go through the real escape()."""
    parts = []
    for t in toks:
        k = t["k"]
        if k == "open":
            parts.append("[" + TAG_TEXT[t["id"]] + "]")
        elif k == "close":
            sp = CLOSE_SPELL[t["key"]]
            parts.append("[/" + sp[t.get("sp", 0) % len(sp)] + "]")
        elif k == "pop":
            parts.append("[/]")
        else:
            s = "".join(map(chr, t["s"]))
            if t.get("e"):
                err, es = env.escape(s)
                parts.append(es if err == "none" else s)
            else:
                parts.append(s)
    return "".join(parts)


def doc_record(toks, env, opt=DEFAULT_OPT):
    markup = emit(toks, env)
    err, plain, sty = env.observe(markup, opt)
    return dict(kind="doc", toks=toks, cp=cps(markup), err=err, plain=plain, sty=sty,
                base=opt["base"], emoji=opt["emoji"], emo=env.emo(markup, opt), opt=opt_tag(opt)), markup


def str_record(s, env, opt=DEFAULT_OPT):
    err, plain, sty = env.observe(s, opt)
    eerr, es = env.escape(s)
    if eerr == "none":
        eerr, eplain, esty = env.observe(es, opt)
    else:
        eplain, esty = [], []
    tags = [env.tag_entry(c) for c in candidates(s)] if "[" in s else []
    return dict(kind="str", cp=cps(s), tags=tags, err=err, plain=plain, sty=sty,
                esc=cps(es), eerr=eerr, eplain=eplain, esty=esty,
                base=opt["base"], emoji=opt["emoji"], emo=env.emo(s, opt), opt=opt_tag(opt))


def norm_tok(t, rng=None):
    t = dict(t)
    if t["k"] == "text":
        t.setdefault("e", 0)
    if t["k"] == "close" and "sp" not in t:
        t["sp"] = rng.randrange(len(CLOSE_SPELL[t["key"]])) if rng else 0
    return t


# ------------------------------------------------------------------------------------------------
# generators (inputs only - verdicts are TLC's)

def side_ok(s):
    """the statement's side conditions for the embedded form (TLC re-checks: SideOK)."""
    if s.endswith("\\"):
        return False
    return all("]" in s[i + 1:] for i, ch in enumerate(s) if ch == "[")


def hostile_leaf(rng, maxlen, extra=False):
    alpha = ALPHABET + "[]\\[/" + (EXTRA if extra else "")
    for _ in range(30):
        n = rng.randint(1, maxlen)
        s = "".join(rng.choice(alpha) for _ in range(n))
        if extra and rng.random() < 0.3:       # a run of backslashes in front of something tag-like / not tag-like
            s += "\\" * rng.randint(1, 5) + rng.choice(["[a]", "[/]", "[/b]", "[#]", "[1]", "[A]", "a", "]", "[=x]", "[b=1]"])
        if side_ok(s):
            return s
    return "[/a]"


def plain_text(rng, rich_alpha):
    """text written into the markup as it is (e = 0): no '[', never ends in a backslash"""
    if rich_alpha and rng.random() < 0.25:
        return rng.choice(EMOJI_BITS)
    alpha = SAFE + (EXTRA + "\\\\]" if rich_alpha else "")
    s = "".join(rng.choice(alpha) for _ in range(rng.randint(1, 6)))
    return s + "z" if s.endswith("\\") else s


def random_doc(rng, maxlen=200, ids=None, rich_alpha=None, want=None):
    toks, stack, length = [], [], 0
    want = want or rng.randint(2, 40)
    if rich_alpha is None:
        rich_alpha = rng.random() < 0.5          # half of the documents stay inside the 12-symbol alphabet
    ids = ids or ([1, 1, 2, 2, 3, 4, 5, 6, 7, 8, 9, 10] + (list(range(11, 25)) if rng.random() < 0.6 else []))
    p_err = rng.choice([0.0, 0.0, 0.02, 0.08])
    while len(toks) < want and length < maxlen - 24:
        r = rng.random()
        if r < 0.30:
            if rng.random() < 0.6:
                s = hostile_leaf(rng, rng.choice([2, 4, 8, 16]), rich_alpha)
                toks.append(dict(k="text", s=cps(s), e=1))
                length += 2 * len(s) + 2
            else:
                s = plain_text(rng, rich_alpha)
                toks.append(dict(k="text", s=cps(s), e=0))
                length += len(s)
        elif r < 0.62:
            i = rng.choice(ids)
            toks.append(dict(k="open", id=i))
            stack.append(TAG_KEY[i])
            length += len(TAG_TEXT[i]) + 2
        elif r < 0.80 and stack:
            key = stack[-1] if rng.random() < 0.5 else rng.choice(stack)
            idx = len(stack) - 1 - stack[::-1].index(key)
            stack.pop(idx)
            toks.append(dict(k="close", key=key, sp=rng.randrange(len(CLOSE_SPELL[key])) if rng.random() < 0.6 else 0))
            length += len(key) + 3
        elif r < 0.92 and stack:
            stack.pop()
            toks.append(dict(k="pop"))
            length += 3
        elif r < 0.92 + p_err:
            absent = [k for k in CLOSE_SPELL if k not in stack]
            if absent and (stack or rng.random() < 0.5):
                toks.append(dict(k="close", key=rng.choice(absent), sp=0))
            elif not stack:
                toks.append(dict(k="pop"))
            else:
                continue
            break
    if not any(t["k"] == "text" for t in toks) or rng.random() < 0.5:
        toks.append(dict(k="text", s=cps("z"), e=0))
    return toks


def deep_doc(rng, depth):
    """more than ten tags open at once, closed by name / by [/] / left open, text at every level"""
    toks, stack = [], []
    for _ in range(depth):
        i = rng.choice(list(TAG_TEXT))
        toks.append(dict(k="open", id=i))
        stack.append(TAG_KEY[i])
        if rng.random() < 0.5:
            toks.append(dict(k="text", s=cps(rng.choice("xyz")), e=0))
    toks.append(dict(k="text", s=cps("m"), e=0))
    while stack and rng.random() < 0.9:
        if rng.random() < 0.5:
            stack.pop()
            toks.append(dict(k="pop"))
        else:
            key = rng.choice(stack)
            stack.pop(len(stack) - 1 - stack[::-1].index(key))
            toks.append(dict(k="close", key=key, sp=rng.randrange(len(CLOSE_SPELL[key]))))
        if rng.random() < 0.6:
            toks.append(dict(k="text", s=cps(rng.choice("xyz")), e=0))
    return toks


def O(i):
    return dict(k="open", id=i)


def C(key, sp=0):
    return dict(k="close", key=key, sp=sp)


def T(s, e=0):
    return dict(k="text", s=cps(s), e=e)


P = dict(k="pop")


def boundary_docs(rng, long_lengths):
    """hand-listed documents for corners a random document rarely reaches"""
    docs = []
    # every spelling of every open tag x every spelling of its closing tag, tag at position 0 and at the end
    for i, key in sorted(TAG_KEY.items()):
        for sp in range(len(CLOSE_SPELL[key])):
            docs.append([O(i), T("x"), C(key, sp), T("y")])
            docs.append([T("x"), O(i), C(key, sp)])                       # empty region at the very end
        docs.append([O(i), T("x"), P, T("y")])
        docs.append([O(i), T("x")])                                       # runs to the end
        docs.append([T("w"), O(i), T("x\ny"), O(1), T("z"), C(key), T("v")])   # crossing tags over a line end
    # the same name open twice with different effect: the close takes the most recent one
    for a, b in [(7, 8), (8, 7), (7, 20), (20, 21), (3, 9), (9, 3), (6, 13), (14, 14), (18, 19), (10, 24), (22, 22)]:
        key = TAG_KEY[b]
        if TAG_KEY[a] == key:
            for sp in range(len(CLOSE_SPELL[key])):
                docs.append([O(a), T("x"), O(b), T("y"), C(key, sp), T("z"), C(key), T("w")])
                docs.append([O(a), O(2), O(b), T("y"), C(key, sp), T("z"), P, T("w"), C(key), T("v")])
    # a later tag wins field by field, also over a tag with several fields
    for a in (1, 6, 14, 15, 16, 23):
        for b in (1, 2, 6, 14, 15, 16, 23):
            docs.append([O(a), T("x"), O(b), T("y"), C(TAG_KEY[b]), T("z")])
            docs.append([O(a), O(b), T("y"), C(TAG_KEY[a]), T("z")])
    # the same style on adjacent regions, empty regions
    for i in (3, 4, 7, 14, 18):
        docs.append([O(i), T("x"), C(TAG_KEY[i]), O(i), T("y"), C(TAG_KEY[i]), T("z")])
        docs.append([O(i), C(TAG_KEY[i]), O(i), P, T("z"), O(i)])
    # nothing to close: by name with other tags open, [/] on the empty stack, a second close of a closed tag
    for i in (1, 3, 7, 11, 14, 18, 22, 24):
        key = TAG_KEY[i]
        others = [j for j in (2, 5, 9, 17) if TAG_KEY[j] != key]
        for sp in range(len(CLOSE_SPELL[key])):
            docs.append([O(others[0]), T("x"), O(others[1]), C(key, sp), T("y")])
            docs.append([O(i), T("x"), C(key), C(key, sp)])
        docs.append([O(i), P, P])
    docs.append([T("x"), P])
    docs.append([P])
    # emoji codes and near-misses: in plain text, split by a tag, next to tags, inside a link target
    for bit in EMOJI_BITS:
        docs.append([T(bit)])
        docs.append([T("x "), O(3), T(bit), C("bold"), T(" y")])
        docs.append([T(bit[:2]), O(1), T(bit[2:]), P])
        docs.append([O(20), T(bit), C("link"), T(bit, 1)])
    docs.append([O(20), T("x"), C("link", 2), T(":a"), O(4), T(":")])
    # wide / combining / zero-width characters between and around tags
    for w in WIDE:
        docs.append([T(w), O(3), T(w + "a" + w), C("bold", 1), T(w)])
        docs.append([O(7), T(w * 3, 1), O(1), T(w), C("link"), T("a" + w)])
    # runs of backslashes in front of a non-tag, inside plain text
    for k in range(1, 6):
        docs.append([O(1), T("a" + "\\" * k + "b"), P, T("\\" * k + "]c")])
        docs.append([T("\\" * k + "[a]", 1), O(3), T("\\" * k + "[/b]", 1), C("bold")])
        docs.append([T("\\" * k + "[A]", 1), O(3), T("\\" * k + "1", 1), C("bold")])
    # more than ten tags open at once
    for depth in (11, 12, 16, 24, 40):
        for _ in range(4):
            docs.append(deep_doc(rng, depth))
    # very long text between tags
    for n in long_lengths:
        body = "".join(rng.choice(SAFE.replace(":", "") + WIDE) for _ in range(n))     # no ':' - the emoji=True calls stay in scope
        docs.append([T("a"), O(6), T(body), O(2), T(body[: n // 3]), C("bold red", 1), T("tail"), P, T("end")])
        docs.append([O(3), T(body), O(1), T(body), O(7)])                 # tags that run to a far end
        leaf = "".join(rng.choice("ab]\\ =") for _ in range(n // 2)) + "[a]"
        docs.append([O(7), T(leaf, 1), C("link"), T(leaf, 1)])
    return docs


# raw strings beyond the exhaustive bound: the style language of their tags is read from the tree under test
BOUNDARY_STRINGS = [
    "[Bold]x[/bold]", "[bOLD]x[/BOLD]y", "[b ]x[/ b ]y", "[bold  red]x[/bold red]y", "[bold red]x[/red bold]y", "[/ bold ]",
    "[ bold]x", "[b]x[/ b]", "[b]x[/b ]", "[b]x[/  ]y", "[b]x[/ ]", "[/ ]", "[b=]x[/b]", "[b=1]x[/b]y",
    "[link=http://a.b/c?d=e&f=g;h#i]x[/link]y", "[link http://a.b]x[/link http://a.b]y", "[link http://a.b]x[/link]",
    "[link=a b]x[/link]", "[link=]x[/link]", "[link]x[/link]", "[link=a=b=c]x[/link]y", "[link=a]x[link=b]y[/link]z[/link]w",
    "[@click=f]x[/]", "[@click=f]x", "[click=f()]x[/click]y", "[zz=1;2]x[/zz]", "[zz]x[/ZZ]y", "[zz y]x[/zz]", "[zz y]x[/zz y]z",
    "[#ff0000]x[/#ff0000]y", "[#ff0000]x[/#FF0000]y", "[#f00]x[/]", "[#ff00]x", "[#]x", "[#][/#]", "[on red]x[/on red]y",
    "[on #00ff00]x[/]y", "[not bold]x[/not bold]y", "[not b]x[/not bold]y", "[b][not bold]x[/b]y[/not bold]z",
    "[rgb(1,2,3)]x[/rgb(1,2,3)]y", "[rgb(1, 2, 3)]x", "[rgb(300,0,0)]x[/]", "[color(5)]x[/color(5)]y", "[color(256)]x[/]",
    "[color(5)]x[/magenta]", "[default]x[/default]y", "[none]x[/none]", "[bold italic underline red on blue]x[/]y",
    "[italic bold]x[/bold italic]y", "[i]x[/italic]y[u]z[/underline]", "[s]x[/strike]", "[r]x[/reverse]y",
    "[red]a[blue]b[/red]c[/blue]d", "[red]a[blue]b[red]c[/red]d[/red]e[/blue]f", "[b][b][b]x[/b]y[/b]z[/b]w", "[b][b]x[/b][/b][/b]",
    "[b][/b]", "[b][/b][/b]", "[b][i][/b][/i]x", "[b][/]x[/]", "x[/b]", "[/b]x", "[b]x[/i]", "[b]x[/b][/]", "[/][b]", "[b][/][/]",
    "\\[b]x", "\\\\[b]x", "\\\\\\[b]x", "\\\\\\\\[b]x[/b]", "\\\\\\\\\\[b]x", "x\\", "x\\\\", "\\", "\\\\\\x",
    "\\\\\\\\1", "\\[1]", "\\\\[1]", "\\[/]", "\\\\[/]", "\\\\\\[/b]", "[b]\\[/b]x[/b]y", "[b]x\\\\[/b]y", "\\[b\\]", "[b\\]x", "[\\b]x",
    "[", "]", "[[", "]]", "[]", "[/", "[/]", "[=x]", "[=]", "[a", "a]", "[[b]]", "[[b]x[/b]]", "[b]]x[[/b]", "[b[i]x", "[b[]x", "[[]]",
    "[1]", "[1,2,3]", "['a']", "[a,b]x", "[A]", "[ ]", "[-]", "[_]", "[a\nb]", "[b]x\ny[/b]z", "[b\n]x", "[/\n]", "[link=a\nb]x",
    "\n", "\n[b]\n[/b]\n", "a:b", "10:30", "#1", "a#b:c=d/e", "[b]#[/b]", "[#b]x", "x=[y]", "a=[b]c[/b]", "[1=2]",
    ":a:", ":smiley:", "[b]:smiley:[/b]", ":smi[b]ley:", ":a[/]:", "[b]:[/b]a:", ":[b]a[/b]:", "[:a:]", "[b :a:]x", "[link=:a:]x[/link]",
    "[link=x:smiley:y]z", ":zzz:", ":a b:", "::", ":a", "a:", ":A:", ":Smiley:", "\\[:a:]", "\\[b]:a:\\[/b]", ":a::b:", ":a:b:",
    "[b]\u6f22\u5b57[/b]\U0001f600", "\u6f22[red]\u6f22[/red]\u6f22", "e\u0301[b]e\u0301[/b]", "[b]\u200b[/b]x", "\u3000[b]\u3000[/b]",
    "[\u6f22]", "[b\u6f22]x", "[link=\u6f22]x[/link]", "[/\u6f22]", "\\[\u6f22]", "[b]" + "x" * 300 + "[/b]" + "y" * 300,
    "[repr.number]1[/repr.number]x", "[rule.line]x[/]y", "[repr.str]x[/REPR.STR]y", "[dim]x[/dim][bar.back]y", "[repr.number]x[/repr.str]",
    "[red]" * 12 + "x" + "[/red]" * 12, "[red]" * 12 + "x" + "[/]" * 13, "".join("[%s]" % t for t in ("b", "i", "u", "s", "red", "on blue", "dim", "blink", "reverse", "link=a", "#010203", "o")) + "x",
]


def random_raw(rng):
    """a raw string assembled from tag-like and text-like pieces (longer than the exhaustive bound)"""
    pieces = ["[", "]", "\\", "\\\\", "/", "=", "#", "a", "b", "1", " ", "\n", ":", "[/]", "[b]", "[/b]", "[red]", "[/red]", "[i]",
              "[B]", "[bOLD]", "[/ b ]", "[link=a=b]", "[/link]", "[#fff]", "[on red]", "[zz]", "[/zz]", "[a b]", "[1]", "[]", "[[",
              ":a:", ":zz:", "A", "\u6f22", "\u0301", "x", "(", ",", ")", ";", "@", "[=", "[/ ", "[b=", "=x]"]
    return "".join(rng.choice(pieces) for _ in range(rng.randint(3, 14)))


CONTEXTS = [  # (prefix tokens, suffix tokens) of complete markup for the embedded clause
    ([], []),
    ([dict(k="open", id=1)], [dict(k="text", s=cps("y"), e=0), dict(k="close", key="red", sp=0)]),
    ([dict(k="open", id=4), dict(k="text", s=cps("x"), e=0), dict(k="close", key="bold", sp=0)],
     [dict(k="open", id=2), dict(k="text", s=cps("y"), e=0)]),
    ([dict(k="text", s=cps("x"), e=0)], [dict(k="pop")]),
    ([dict(k="open", id=7), dict(k="open", id=5)], [dict(k="pop"), dict(k="text", s=cps("y"), e=0)]),
    ([dict(k="open", id=3)], [dict(k="close", key="bold", sp=1), dict(k="text", s=cps("]"), e=0)]),
]


def all_strings(maxlen):
    for n in range(maxlen + 1):
        for tup in itertools.product(ALPHABET, repeat=n):
            yield "".join(tup)


# ------------------------------------------------------------------------------------------------

def _sig(part, kind):
    return "%s kind=%s" % (part, kind)


def judge_batch(chk, recs, keys, label, rejected, counters):
    """one TLC batch; collect rejections as (size, signature, verdict, payload)."""
    verdicts, st = tlc.judge("Trace_Markup", recs, chunk_min=200)
    chk.add_tlc(st, label)
    for rec, key, v in zip(recs, keys, verdicts):
        if v == "ok":
            counters["ok"] += 1
            continue
        if v == "no-verdict" or v.startswith("machinery") or " | machinery" in v:
            raise tlc.TLCFailure("Trace_Markup gave %r for %r" % (v, key))
        parts = v.split(" | ")
        bad = False
        for part in parts:
            if part.startswith("skip:"):
                counters[part] = counters.get(part, 0) + 1
            if part == "ok" or part.startswith("skip:"):
                continue
            if part.startswith("ok drift:"):
                chk.drift_note("%s (spec transcription vs code; the property holds) e.g. %r" % (part[3:], key))
            elif part.startswith("drift:"):
                chk.drift_note("%s e.g. %r" % (part, key))
            else:
                bad = True
                rejected.append((len(rec["cp"]), _sig(part, rec["kind"]), part, key, rec.get("opt", "")))
        if bad:
            counters["rejected"] += 1
        elif all(p.startswith("skip:") for p in parts):
            counters["skipped"] += 1
        else:
            counters["ok"] += 1
    chk.traces += len(recs)


def minimise(chk, env, toks, want_sig, opt=DEFAULT_OPT):
    """delta debugging on a rejected token document: every round is one TLC batch of candidate
    reductions; keep a candidate that TLC rejects with the same signature."""
    cur = toks
    for _ in range(12):
        cands, size = [], len(cur) // 2
        while size >= 1:                      # ddmin: drop every aligned chunk of n/2, n/4, ... 1 tokens
            cands += [cur[:i] + cur[i + size:] for i in range(0, len(cur), size)]
            size //= 2
        cands += [cur[:i] + [dict(t, s=t["s"][:len(t["s"]) // 2])] + cur[i + 1:]
                  for i, t in enumerate(cur) if t["k"] == "text" and len(t["s"]) > 1]
        cands = [c for c in cands if c]
        if not cands:
            break
        recs = [doc_record(c, env, opt)[0] for c in cands]
        verdicts, st = tlc.judge("Trace_Markup", recs, chunk_min=200)
        chk.add_tlc(st, "M3-minimise")
        chk.traces += len(recs)
        nxt = None
        for c, v in zip(cands, verdicts):
            if _sig(v, "doc") == want_sig and (nxt is None or len(c) < len(nxt)):
                nxt = c
        if nxt is None:
            break
        cur = nxt
    return cur


def run(chk: Check):
    env = Env()
    rng = chk.rng
    chk.rule = ("a case is a distinct markup input (token document over the 24-tag vocabulary with its spelling, "
                "or raw string) together with the options of the call (entry point, emoji, base style); "
                "non-trivial = contains at least one '[' (raw strings) / at least one tag token and one text token (documents)")
    chk.trusted = ["drivers/c04.py:Env.project (Style -> [fg,bg,bold,link,other] ids)",
                   "drivers/c04.py:Env.call / observe (Text.plain + Text.render segments expanded per character; for Console.print "
                   "the recorded segments, a line end's style reported as unobservable)",
                   "drivers/c04.py:Env.emo (emoji names of the tree under test over the input's characters; TLC decides whether the text contains one)",
                   "drivers/c04.py:Env.tag_entry (style language taken as given: Style.normalize / Console.get_style of the tree under test)",
                   "drivers/c04.py:emit (token document -> markup string; TLC re-lexes the string and reports a mismatch as drift)"]
    chk.assumptions = ["emoji code replacement is a separate documented feature: a call with emoji=True is held to the verbatim "
                       "clauses exactly when the text (tags removed) contains no :name: that is an emoji name (Markup.tla HasEmoji)",
                       "a base style (style=...) acts like a tag opened before everything else and never closed",
                       "complete markup around an embedded escape(s) does not end in a backslash",
                       "closing-tag names are compared modulo Style.normalize (e.g. [/b] closes [bold])",
                       "what a tag is: the documented syntax (RE_TAGS); where the documentation is silent "
                       "('[' inside a tag, tag candidate not closed on its line) a disagreement is DRIFT"]
    rejected = []
    counters = dict(ok=0, rejected=0, skipped=0)
    phase = chk.notes.setdefault("phase_wall_s", {})
    t_ph = [time.time()]

    def lap(name):
        phase[name] = round(phase.get(name, 0) + time.time() - t_ph[0], 1)
        t_ph[0] = time.time()

    # ---- replay of one stored case ------------------------------------------------------------
    if chk.replay_only:
        c = chk.replay_only["case"]
        opt = c.get("opt") or DEFAULT_OPT
        if c["kind"] == "doc":
            rec, markup = doc_record(c["toks"], env, opt)
            key = dict(kind="doc", toks=c["toks"], markup=markup, opt=opt)
        else:
            rec = str_record(c["s"], env, opt)
            key = dict(kind="str", s=c["s"], opt=opt)
        chk.case(key, True)
        judge_batch(chk, [rec], [key], "M3", rejected, counters)
        chk.sample(dict(case=key, observed=dict(err=rec["err"], plain=rec["plain"], sty=rec["sty"])))
        _report(chk, env, rejected, counters, minimise_ok=False)
        return

    # C04_SELFTEST=1 (mutation self-tests only): skip the tree-independent M1 and shrink the batches
    light = os.environ.get("C04_SELFTEST") == "1"
    if light:
        chk.notes["selftest_mode"] = "C04_SELFTEST=1: M1 skipped, raw strings <= 4, 2000 random documents"

    # ---- M1 -----------------------------------------------------------------------------------
    mc_cfg = MC_CFG % (chk.pick(5, 6), chk.pick("91, 93, 92, 47, 97, 10", "91, 93, 92, 47, 97, 10, 61"), chk.pick(5, 6))
    if not light:
        r, cov, missing = tlc.model_check("MC_Markup", cfg_text=mc_cfg, require_actions=M1_ACTIONS, timeout=2400)
        chk.add_tlc(r, "M1")
        if r.violated or missing or not r.finished:
            raise tlc.TLCFailure("MC_Markup: violated=%s never-fired=%s\n%s" % (r.violated, missing, r.out[-2000:]))
        chk.notes["m1_action_coverage"] = {k: v[1] for k, v in cov.items()}
    lap("M1")
    chk.notes["m1"] = "token documents <= %d tokens over 6 tags / 4 close names; escape+lex over all strings <= %d symbols of a %d-symbol alphabet" % (
        chk.pick(5, 6), chk.pick(5, 6), chk.pick(6, 7))

    # ---- M2: TLC-generated token documents ---------------------------------------------------------
    all_ids = ",".join(str(i) for i in OLD_IDS)          # the exhaustive generation stays on the first ten tags
    all_keys = ",".join('"%s"' % k for k in OLD_KEYS)
    depth = chk.pick(3, 4)
    behs, r2 = tlc.behaviours("MC_Markup", cfg_text=GEN_CFG % (all_ids, all_keys, depth, depth), workers=4)
    chk.add_tlc(r2, "M2")
    if not behs:
        raise tlc.TLCFailure("no token documents generated\n" + r2.out[-1500:])
    sim_depth = chk.pick(8, 10)
    behs2, r3 = tlc.behaviours("MC_Markup", cfg_text=GEN_CFG % ("1,2,3,4,6,7,8,9,11,13,14,18,20,21,24",
                                                                   '"red","blue","bold","link","italic","zz","bold red"', sim_depth, sim_depth),
                               simulate="num=%d" % chk.pick(3000, 30000), depth=sim_depth + 2, seed=chk.seed)
    chk.add_tlc(r3, "M2")
    chk.notes["tlc_generated_documents"] = dict(exhaustive_depth=depth, exhaustive=len(behs), simulated=len(behs2))
    lap("M2")
    docs, seen = [], set()
    for b in behs + behs2:
        toks = [norm_tok(t, rng) for t in b["beh"]]
        sig = repr(toks)
        if sig not in seen:
            seen.add(sig)
            docs.append((toks, DEFAULT_OPT))
            docs.append((toks, rand_opt(rng, 0.0)))

    # ---- embedded-escape clause: fixed complete contexts x every string up to Le -----------------
    le = chk.pick(3, 4)
    n_emb = n_var = 0
    for s in all_strings(le):
        for pre, suf in CONTEXTS:
            docs.append((pre + [dict(k="text", s=cps(s), e=1)] + suf, DEFAULT_OPT))
            n_emb += 1
        pre, suf = CONTEXTS[n_var % len(CONTEXTS)]          # and one variant call per string, contexts / options in turn
        docs.append((pre + [dict(k="text", s=cps(s), e=1)] + suf, VARIANT_OPTS[n_var % len(VARIANT_OPTS)]))
        n_var += 1
        n_emb += 1
    chk.notes["embedded_exhaustive"] = dict(max_len=le, contexts=len(CONTEXTS), records=n_emb,
                                            note="records outside the side conditions are skipped by TLC (SideOK)")

    # ---- random documents from trees of nested / overlapping tags with escaped leaves -----------
    n_rand = 2000 if light else chk.pick(6000, 60000)
    for _ in range(n_rand):
        docs.append((random_doc(rng), rand_opt(rng)))
    chk.notes["random_documents"] = n_rand

    # ---- hand-listed boundary documents, each under the default call and every variant call ----------
    bdocs = boundary_docs(rng, chk.pick([300, 1200], [300, 1200, 2500]))
    for toks in bdocs:
        for opt in [DEFAULT_OPT] + VARIANT_OPTS:
            docs.append((toks, opt))
    chk.notes["boundary_documents"] = dict(documents=len(bdocs), calls_each=1 + len(VARIANT_OPTS))

    # TLC judges batch k while Rich is driven for batch k+1 (one TLC batch in flight)
    pool = ThreadPoolExecutor(1)
    pending = []

    def submit(recs, keys, label):
        if pending:
            pending.pop().result()
        pending.append(pool.submit(judge_batch, chk, recs, keys, label, rejected, counters))

    BATCH = 60000
    maxlen_seen = 0
    opt_count = chk.notes.setdefault("calls_by_option", {})
    lap("generate")
    for off in range(0, len(docs), BATCH):
        recs, keys = [], []
        for toks, opt in docs[off:off + BATCH]:
            rec, markup = doc_record(toks, env, opt)
            maxlen_seen = max(maxlen_seen, len(markup))
            key = dict(kind="doc", toks=toks, markup=markup, opt=opt)
            recs.append(rec)
            keys.append(key)
            opt_count[rec["opt"]] = opt_count.get(rec["opt"], 0) + 1
            chk.case(markup + "\x00" + rec["opt"], any(t["k"] != "text" for t in toks) and any(t["k"] == "text" for t in toks))
        if off == 0:
            chk.sample(dict(markup=keys[0]["markup"], observed=dict(err=recs[0]["err"], plain=recs[0]["plain"], sty=recs[0]["sty"])))
            chk.sample(dict(markup=keys[-1]["markup"], toks=keys[-1]["toks"],
                            observed=dict(err=recs[-1]["err"], plain=recs[-1]["plain"], sty=recs[-1]["sty"])))
        submit(recs, keys, "M3-doc")
    chk.notes["longest_document_chars"] = maxlen_seen
    lap("documents (rich + tlc, pipelined)")

    # ---- ALL raw strings up to length L over the quantifier's alphabet ----------------------------
    L = 4 if light else chk.pick(5, 6)
    n_raw = 0
    recs, keys = [], []
    BATCH = chk.pick(70000, 250000)
    def add_str(s, opt):
        nonlocal recs, keys
        rec = str_record(s, env, opt)
        recs.append(rec)
        keys.append(dict(kind="str", s=s, opt=opt))
        opt_count[rec["opt"]] = opt_count.get(rec["opt"], 0) + 1
        chk.case(s + "\x00" + rec["opt"], "[" in s)
        if len(recs) >= BATCH:
            submit(recs, keys, "M3-str")
            recs, keys = [], []

    # hand-listed boundary strings under every call; random longer strings; all strings up to L - 1 under a variant call
    for s in BOUNDARY_STRINGS:
        for opt in [DEFAULT_OPT] + VARIANT_OPTS:
            add_str(s, opt)
    n_rr = 1000 if light else chk.pick(4000, 40000)
    for _ in range(n_rr):
        add_str(random_raw(rng), rand_opt(rng))
    n_var = 0
    for s in all_strings(L - 1):
        add_str(s, VARIANT_OPTS[n_var % len(VARIANT_OPTS)])
        n_var += 1
    chk.notes["raw_strings_beyond_the_bound"] = dict(hand_listed=len(BOUNDARY_STRINGS), calls_each=1 + len(VARIANT_OPTS), random=n_rr,
                                                     variant_calls_all_strings_up_to=L - 1, variant_records=n_var)
    for s in all_strings(L):
        add_str(s, DEFAULT_OPT)
        n_raw += 1
    if recs:
        chk.sample(dict(s=keys[-1]["s"], escape="".join(map(chr, recs[-1]["esc"])),
                        observed=dict(err=recs[-1]["err"], plain=recs[-1]["plain"])))
        submit(recs, keys, "M3-str")
    if pending:
        pending.pop().result()
    pool.shutdown()
    lap("raw strings (rich + tlc, pipelined)")
    chk.exhaustive = True
    chk.notes["raw_strings"] = dict(alphabet=ALPHABET, max_len=L, count=n_raw,
                                    clauses="render == Run(Lex(s)) incl. MarkupError-exactly-when; EscapeOK(s, render(escape(s)))")
    _report(chk, env, rejected, counters, minimise_ok=True)
    lap("report+minimise")


def _report(chk, env, rejected, counters, minimise_ok):
    """every rejection is reported.  Its signature names the options of the call only when the same clause is not
    also rejected by a call with fewer options (the plain rich.markup.render(emoji=False) call has none)."""
    chk.notes["verdicts"] = dict(counters)
    rejected.sort(key=lambda x: (x[0], x[1], x[4]))
    opts_of = {}
    for size, bsig, part, key, opt in rejected:
        opts_of.setdefault(bsig, set()).add(opt)

    def signature(bsig, opt):
        bits = set(opt.split("+")) if opt else set()
        best = min((o for o in opts_of[bsig] if (set(o.split("+")) if o else set()) <= bits), key=lambda o: (o.count("+") if o else -1, o))
        return bsig + (" opt=" + best if best else "")
    first = {}
    for size, bsig, part, key, opt in rejected:
        sig = signature(bsig, opt)
        if sig not in first:
            first[sig] = (part, key, bsig)
    n_min = 0
    for sig, (part, key, bsig) in first.items():
        if minimise_ok and key["kind"] == "doc" and len(key["toks"]) > 4:
            n_min += 1
            if n_min > 8:           # the first signatures get a minimal witness; the others keep their smallest rejected case
                continue
            opt = key.get("opt") or DEFAULT_OPT
            small = minimise(chk, env, key["toks"], bsig, opt)
            key = dict(kind="doc", toks=small, markup=emit(small, env), opt=opt)
            first[sig] = (part, key, bsig)
    chk.notes["rejections_by_signature"] = {}
    for size, bsig, part, key, opt in rejected:
        sig = signature(bsig, opt)
        p, k, _ = first[sig]
        wit = k.get("markup", k.get("s"))
        chk.notes["rejections_by_signature"].setdefault(sig, dict(n=0, minimal_witness=wit))["n"] += 1
        chk.reject(sig, "%s; witness %r; call %s" % (p, wit, k.get("opt") or DEFAULT_OPT), k)
