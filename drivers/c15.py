"""C15 - recording, capture and export agree with what was written.

M1: TLC checks the design of console.py's record / capture / export machinery (specs/Record.tla)
against the five clauses of the property for every history of a few calls; the repaired design
must hold, every shipped / mutated design choice must be exhibited as a defect.
M2: TLC-generated histories;  M3: those and seeded random histories (<= 30 calls, arbitrary
renderables, console configurations, nested and sequential captures, clear flag) are executed on a
real recording Console and on an identical console that never captures; every write and every
capture / export result is projected lexically (engine/ansilex.py) and TLC (Trace_Record) replays
the history through the property part of Record.tla, naming the clause that fails."""
import datetime
import os
import shutil
import tempfile

from engine import tlc
from engine.ansilex import html_project, lex, make_labeller
from engine.harness import Check

ACTIONS = ["PrintA", "LogA", "RuleA", "LineA", "BellA", "ClearA", "ShowCursorA", "ControlA",
           "BeginCaptureA", "EndCaptureA", "ExportTextA", "ExportHtmlA"]
CORE_ACTIONS = ["PrintA", "LineA", "BellA", "BeginCaptureA", "EndCaptureA", "ExportTextA", "ExportHtmlA"]
INVARIANTS = ["Clause1Text", "Clause2Html", "Clause3Styled", "Clause4Capture", "Clause5Clear", "DesignNoDrift", "BufferInv"]
# design switch -> the clause TLC must show it breaks (vacuity guard for the invariants)
DEFECTS = [("shipped-simplify", "Clause2Html"), ("shipped-capture", "Clause4Capture"), ("esc-lt-first", "Clause2Html"),
           ("esc-no-amp", "Clause2Html"), ("text-keeps-control", "Clause1Text"), ("clear-ignored", "Clause5Clear"),
           ("always-clears", "Clause5Clear")]

URLS = ["http://x.test/a?b=1&c=2", "https://e.test/p?q=\"><i>&lt;x</i>"]      # any string may be a link target
CSS = ["none", "standard", "256", "truecolor"]
CSS_M3 = CSS + ["windows"]            # the random histories also run on the 16-colour legacy-Windows palette
NASTY = ["<", ">", "&", "&lt;", "&amp;", "&#38;", "<b>", "</pre>", "\"", "'", "&&", "<>", "&gt", "<!--", "]]>", "&nbsp;", "</code>", "<a href=x>",
         "&#x27;", "\xa0", "&amp;lt;", "{code}", "{}", "{", "}", "%s", "<pre>", "</span>", "<style>", "&quot;", "\\", "[b]", "[/]", "<br>", "&#60;", "&copy",
         "<span style=\"x\">"]
WIDE = ["\u4e16\u754c", "\uff57", "\ud55c", "\xe9", "\U0001f600", "e\u0301", "\u200b", "\u00ad", "\U0001f1e9\U0001f1ea", "\u2028"]
# export_html(theme=, code_format=): another palette, another page around the same <pre>
FORMATS = {"bare": "<pre>{code}</pre><style>{stylesheet}</style>",
           "page": "<html><head><style>{stylesheet}body {{ color: {foreground}; background-color: {background}; }}</style></head>"
                   "<body><h1>&lt;T&gt;</h1><code><pre class=\"x\">{code}</pre></code><p>after</p></body></html>"}
WORDS = ["lorem", "ipsum", "dolor", "sit", "amet"]


def style_pool():
    """style id -> rich Style, mirroring StylePen / SgrOf of specs/Record.tla (fresh objects per history:
    Style caches its rendered codes, see C03)."""
    from rich.style import Style
    return {1: Style(bold=True, color="red"), 2: Style(italic=True, bgcolor="blue"), 3: Style(color="#102030"),
            4: Style(underline=True, link=URLS[0]), 5: Style(dim=True, reverse=True, strike=True, bgcolor="color(93)"),
            6: Style(link=URLS[1])}


def cfg_text(depth, css, design, alphabet, gen=0, nest=2, view=True, invariants=True):
    s = "CONSTANTS\n  MCDepth = %d\n  GenDepth = %d\n  MaxNest = %d\n  CSs = {%s}\n  DesignName = \"%s\"\n  Alphabet = \"%s\"\nSPECIFICATION Spec\n" % (
        depth, gen, nest, ", ".join('"%s"' % c for c in css), design, alphabet)
    if view:
        s += "VIEW View\n"
    if invariants:
        s += "".join("INVARIANT %s\n" % i for i in INVARIANTS)
    if gen:
        s += "CONSTRAINT Emit\n"
    return s + "CHECK_DEADLOCK FALSE\n"


# ---- chunks -------------------------------------------------------------------------------------
# chunk: dict(kind, text, sid, obj)   obj: "s" a str, "t" a Text, "c" a Control

def universe_chunk(c):
    """chunk record of MC_Record -> concrete chunk"""
    kind, i, sid = c["kind"], c["id"], c["sty"]
    if kind == "plain":
        return dict(kind=kind, text="p%dq" % i, sid=0, obj="s")
    if kind == "special":
        return dict(kind=kind, text="s%d<&>&lt;&amp;\"" % i, sid=0, obj="s")
    if kind in ("styled", "link"):
        return dict(kind=kind, text="y%dz" % i, sid=sid, obj="t")
    if kind == "wide":
        return dict(kind=kind, text="w%d世界" % i, sid=0, obj="s")
    if kind == "newline":
        return dict(kind=kind, text="\n", sid=0, obj="s")
    return dict(kind="control", text="\x07", sid=0, obj="c")


def random_chunk(rng, i, kinds=None):
    kind = rng.choice(kinds or ["plain", "plain", "special", "special", "styled", "styled", "link", "wide", "newline", "control"])
    if kind == "plain":
        return dict(kind=kind, text="p%dq" % i + (" " + rng.choice(WORDS) if rng.random() < 0.3 else ""), sid=0, obj="s")
    if kind == "special":
        return dict(kind=kind, text="s%d" % i + "".join(rng.choice(NASTY) for _ in range(rng.randint(1, 3))), sid=0,
                    obj=rng.choice("sst"))
    if kind == "styled":
        return dict(kind=kind, text="y%dz" % i + (rng.choice(NASTY) if rng.random() < 0.3 else ""), sid=rng.choice([1, 2, 3, 5]), obj="t")
    if kind == "link":
        return dict(kind=kind, text="l%dk" % i, sid=rng.choice([4, 4, 4, 6]), obj="t")
    if kind == "wide":
        return dict(kind=kind, text="w%d" % i + rng.choice(WIDE) + rng.choice(WIDE), sid=0, obj=rng.choice("sst"))
    if kind == "newline":
        return dict(kind=kind, text="\n" * rng.choice([1, 1, 2]), sid=0, obj="s")
    return dict(kind="control", text=rng.choice(["\x07", "\x1b[1A", "\x1b[2K", "\r", "\x1b[?25l"]), sid=0, obj="c")


def from_tlc(beh):
    """MC_Record history -> case"""
    chunks, ops = {}, []
    for o in beh["beh"]:
        k = o["k"]
        if k in ("print", "log"):
            for c in o["ch"]:
                chunks[str(c["id"])] = universe_chunk(c)
            ops.append(dict(k=k, ch=[c["id"] for c in o["ch"]], rb="plain", kw={}))
        elif k == "rule":
            ops.append(dict(k="rule", ch=[]))
        elif k == "line":
            ops.append(dict(k="line", n=o["n"]))
        elif k == "cursor":
            ops.append(dict(k="cursor", show=o["show"]))
        elif k == "control":
            ops.append(dict(k="control", code="\x1b[1A"))
        elif k == "clear":
            ops.append(dict(k="clear", home=True))
        elif k == "text":
            ops.append(dict(k="text", clear=o["clear"], styles=o["styles"], save=False))
        elif k == "html":
            ops.append(dict(k="html", clear=o["clear"], inline=o["inline"], save=False))
        elif k == "begin":
            ops.append(dict(k="begin", api="method"))
        else:
            ops.append(dict(k=k))
    # every history ends outside capture blocks with the three exports (judged where the statement speaks)
    depth = sum(1 for o in ops if o["k"] == "begin") - sum(1 for o in ops if o["k"] == "end")
    ops += [dict(k="end")] * depth
    ops += closing_exports()
    c = beh["cfg"]
    return dict(cfg=dict(cs=c["cs"], term=c["term"], width=c["width"], record=c["record"], nocolor=c.get("nocolor", False)), chunks=chunks, ops=ops)


def closing_exports():
    return [dict(k="text", clear=False, styles=True, save=False), dict(k="html", clear=False, inline=True, save=False),
            dict(k="html", clear=False, inline=False, save=False), dict(k="text", clear=True, styles=False, save=False),
            dict(k="text", clear=False, styles=False, save=False)]


def random_case(rng, maxops):
    cfg = dict(cs=rng.choice(CSS_M3), term=rng.random() < 0.6, width=rng.choice([12, 20, 30, 40, 80]), record=rng.random() < 0.98, nocolor=rng.random() < 0.15,
               cstyle=rng.choice([""] * 6 + ["on blue", "italic", "bold red"]))
    captures = rng.random() < 0.5
    theme = rng.random() < 0.2
    blocks = rng.random() < 0.3          # "with console:" blocks (output is held back until the block ends)
    n = rng.randint(2, maxops)
    chunks, ops, depth, held = {}, [], 0, 0

    def new(kinds=None):
        i = len(chunks) + 1
        chunks[str(i)] = random_chunk(rng, i, kinds)
        return i

    while len(ops) < n:
        r = rng.random()
        if r < 0.30:
            rb = rng.choice(["plain", "plain", "plain", "plain", "spans", "spans", "panel", "table", "padding", "columns", "segs", "out"])
            if rb == "plain":
                ch = [new() for _ in range(rng.choice([1, 1, 2, 3]))]
            elif rb == "spans":
                ch = [new(["plain", "special", "styled", "link", "wide"]) for _ in range(rng.randint(1, 4))]
            else:
                ch = [new(["plain", "special", "wide", "styled"]) for _ in range(rng.choice([1, 2]))]
            kw = {}
            if rb == "out":
                if rng.random() < 0.4:
                    kw = rng.choice([dict(end=""), dict(sep="<&>"), dict(style="bold"), dict(end="&amp;\n")])
            elif rng.random() < 0.3:
                one = lambda: rng.choice([dict(end=""), dict(justify="center"), dict(justify="right"), dict(justify="full"), dict(style="bold"), dict(style="on red"),
                                          dict(soft_wrap=True), dict(no_wrap=True), dict(crop=False), dict(sep="&"), dict(end="<br>\n"), dict(width=10),
                                          dict(overflow="fold"), dict(overflow="ellipsis"), dict(overflow="crop"), dict(overflow="ignore"), dict(markup=True),
                                          dict(highlight=True), dict(emoji=True), dict(sep="\n"), dict(end=" > "), dict(width=5)])
                kw = one()
                if rng.random() < 0.3:
                    kw = dict(one(), **kw)      # two options at once
                if kw.get("markup") and any("[" in chunks[str(i)]["text"] for i in ch):
                    del kw["markup"]            # (a stray closing tag raises MarkupError: C04's and C14's subject)
            ops.append(dict(k="print", ch=ch, rb=rb, kw=kw))
        elif r < 0.33:
            ops.append(dict(k="print", ch=[], rb="plain", kw={}))        # print() = line()
        elif r < 0.38:
            ops.append(dict(k="log", ch=[new(["plain", "special", "styled", "wide"]) for _ in range(rng.choice([1, 2]))]))
        elif r < 0.43:
            ops.append(dict(k="rule", ch=[new(["plain", "special", "wide"])] if rng.random() < 0.6 else [], align=rng.choice(["center", "left", "right"]),
                            chars=rng.choice([None, None, "=", "<>", "&-"]), style=rng.choice([None, None, "red", "on blue"])))
        elif r < 0.50:
            ops.append(dict(k="line", n=rng.choice([0, 1, 1, 2, 3])))
        elif r < 0.56:
            ops.append(dict(k="bell"))
        elif r < 0.59:
            ops.append(dict(k="clear", home=rng.random() < 0.5))
        elif r < 0.63:
            ops.append(dict(k="cursor", show=rng.random() < 0.5))
        elif r < 0.67:
            ops.append(dict(k="control", code=rng.choice(["\x1b[1A", "\x1b[2K\r", "\x1b[10;10H", "\x07\x07"])))
        elif r < 0.73:
            if captures and depth < 3 and held == 0:
                ops.append(dict(k="begin", api=rng.choice(["method", "ctx"])))
                depth += 1
            elif blocks and depth == 0 and held < 2:
                # (not around or inside capture blocks: the reference console would hold back what the capture returns at once)
                ops.append(dict(k="enter"))
                held += 1
        elif r < 0.80:
            if depth > 0:
                ops.append(dict(k="end"))
                depth -= 1
            elif held > 0:
                ops.append(dict(k="exit"))
                held -= 1
        else:
            clear = rng.random() < 0.4
            if rng.random() < 0.5:
                e = dict(k="text", clear=clear, styles=rng.random() < 0.5, save=rng.random() < 0.1)
            else:
                # (one palette per history: the comparison of inline against class styles between two exports is by rule text)
                e = dict(k="html", clear=clear, inline=rng.random() < 0.5, save=rng.random() < 0.1, theme=theme, fmt=rng.choice([None, None, None, "bare", "page"]))
            ops.append(e)
            if rng.random() < 0.5:       # an export straight after an export: clause 5, inline against class styles
                e2 = dict(e, clear=rng.random() < 0.5)
                if e["k"] == "html":
                    e2["inline"] = not e["inline"]
                elif rng.random() < 0.5:
                    e2 = dict(k="text", clear=e2["clear"], styles=not e["styles"], save=False)
                ops.append(e2)
    ops += [dict(k="end")] * depth
    ops += [dict(k="exit")] * held
    ops += closing_exports()
    return dict(cfg=cfg, chunks=chunks, ops=ops)


# ---- execution on the real Console ----------------------------------------------------------------

class Tap:
    """a text file that remembers what was written since the last take()"""

    def __init__(self):
        self.parts = []

    def write(self, s):
        self.parts.append(s)
        return len(s)

    def flush(self):
        pass

    def take(self):
        out = "".join(self.parts)
        del self.parts[:]
        return out


def cell_width(text):
    from rich.cells import cell_len
    return cell_len(text)


def execute(case, tmpdir):
    from rich.columns import Columns
    from rich.console import Console
    from rich.control import Control
    from rich.padding import Padding
    from rich.panel import Panel
    from rich.segment import Segment
    from rich.table import Table
    from rich.text import Text
    cfg, chunks, ops = case["cfg"], case["chunks"], case["ops"]
    cfg.setdefault("nocolor", False)
    cfg.setdefault("cstyle", "")
    styles = style_pool()
    clock = [0]

    def now():
        return datetime.datetime(2021, 3, 4, 5, 6, 7) + datetime.timedelta(seconds=clock[0])

    def mk(record):
        tap = Tap()
        return Console(file=tap, record=record, force_terminal=cfg["term"], color_system=None if cfg["cs"] == "none" else cfg["cs"],
                       width=cfg["width"], height=25, markup=False, highlight=False, emoji=False, legacy_windows=False,
                       get_datetime=now, _environ={}, no_color=bool(cfg.get("nocolor", False)), style=cfg.get("cstyle") or None), tap
    real, rtap = mk(cfg["record"])
    twin, ttap = mk(False)
    nchunks = max([int(i) for i in chunks] + [1])
    sty = [-1] * nchunks                 # chunk id -> style id its characters must show in the styled export
    texts = [[0]] * nchunks
    labelled = {}
    for i, c in chunks.items():
        texts[int(i) - 1] = [ord(ch) for ch in c["text"]] or [0]
        if c["kind"] not in ("newline", "control") and "\n" not in c["text"]:
            labelled[int(i)] = c["text"]
    lab = make_labeller(labelled)

    def obj(i):
        c = chunks[str(i)]
        if c["obj"] == "s":
            return c["text"]
        if c["obj"] == "c":
            return Control(c["text"])
        return Text(c["text"], style=styles[c["sid"]] if c["sid"] else "")

    events = []
    caps = []
    raw = []          # for samples / replays only
    held = 0          # depth of `with console:` blocks
    for n, op in enumerate(ops):
        clock[0] = n // 3
        k = op["k"]
        e = dict(k=k, exc="none", held=held > 0 or k == "exit")
        held += (k == "enter") - (k == "exit")
        res = None
        try:
            if k in ("print", "log"):
                cs_ = [chunks[str(i)] for i in op["ch"]]
                rb = op.get("rb", "plain")
                kw = op.get("kw", {})
                if rb == "plain":
                    objs = [obj(i) for i in op["ch"]]
                elif rb == "spans":
                    objs = [Text.assemble(*[(c["text"], styles[c["sid"]]) if c["sid"] else c["text"] for c in cs_])]
                elif rb == "padding":
                    objs = [Padding(obj(op["ch"][0]), (0, 1, 1, 2), style=styles[2])] + [obj(i) for i in op["ch"][1:]]
                elif rb == "columns":
                    objs = [Columns([obj(i) for i in op["ch"]] + ["<&>"], padding=(0, 1))]
                elif rb == "segs":
                    class Segs:
                        def __rich_console__(self, console, options):
                            for c in cs_:
                                yield Segment(c["text"], styles[c["sid"]] if c["sid"] else None)
                            yield Segment("\n")
                    objs = [Segs()]
                elif rb == "out":
                    objs = [c["text"] for c in cs_ if c["obj"] != "c"] or [""]
                elif rb == "panel":
                    objs = [Panel(Text("\n".join(c["text"] for c in cs_)), title="T<&>" if len(cs_) > 1 else None, border_style=styles[1], expand=False)]
                else:
                    t = Table(show_header=len(cs_) > 1, header_style=styles[2])
                    t.add_column("h&1")
                    t.add_column("<h2>")
                    t.add_row(*([obj(i) for i in op["ch"]] + [""])[:2])
                    objs = [t]
                judged = (rb in ("plain", "spans") and not kw.get("style") and k == "print" or (k == "log" and rb == "plain")) and not cfg.get("cstyle") \
                    and not (kw.get("markup") or kw.get("highlight") or kw.get("emoji"))
                for i in op["ch"]:
                    c = chunks[str(i)]
                    if judged and c["obj"] != "c" and int(i) in labelled:
                        sty[int(i) - 1] = c["sid"]
                if k == "print" and rb == "out":
                    for con in (real, twin):
                        con.out(*objs, **kw)
                    e["simple"], e["ch"] = False, []
                elif k == "print":
                    for con in (real, twin):
                        con.print(*objs, **kw)
                    total = sum(cell_width(c["text"]) + 1 for c in cs_)
                    e["simple"] = bool(rb == "plain" and not kw and objs and total < cfg["width"]
                                       and all(c["kind"] != "newline" and " " not in c["text"] for c in cs_))
                    e["ch"] = [dict(k=chunks[str(i)]["obj"], id=int(i)) for i in op["ch"]]
                else:
                    for con in (real, twin):
                        con.log(*objs)
            elif k == "rule":
                title = chunks[str(op["ch"][0])]["text"] if op["ch"] else ""
                rkw = dict(align=op.get("align", "center"))
                if op.get("chars"):
                    rkw["characters"] = op["chars"]
                if op.get("style"):
                    rkw["style"] = op["style"]
                for con in (real, twin):
                    con.rule(title, **rkw)
            elif k == "line":
                e["n"] = op["n"]
                for con in (real, twin):
                    con.line(op["n"])
            elif k == "bell":
                for con in (real, twin):
                    con.bell()
            elif k == "clear":
                for con in (real, twin):
                    con.clear(home=op.get("home", True))
            elif k == "cursor":
                for con in (real, twin):
                    con.show_cursor(op["show"])
            elif k == "control":
                for con in (real, twin):
                    con.control(op["code"])
            elif k == "enter":
                for con in (real, twin):
                    con.__enter__()
            elif k == "exit":
                for con in (real, twin):
                    con.__exit__(None, None, None)
            elif k == "begin":
                if op.get("api") == "ctx":
                    cap = real.capture()
                    cap.__enter__()
                    caps.append(cap)
                else:
                    real.begin_capture()
                    caps.append(None)
            elif k == "end":
                cap = caps.pop() if caps else None
                if cap is not None:
                    cap.__exit__(None, None, None)
                    res = cap.get()
                else:
                    res = real.end_capture()
                e["toks"] = lex(res, URLS, lab)
            elif k == "text":
                e.update(clear=op["clear"], styles=op["styles"], chars=[], toks=[])
                if op.get("save"):
                    path = os.path.join(tmpdir, "export.txt")
                    real.save_text(path, clear=op["clear"], styles=op["styles"])
                    with open(path, encoding="utf-8", newline="") as f:
                        res = f.read()
                else:
                    res = real.export_text(clear=op["clear"], styles=op["styles"])
                if op["styles"]:
                    e["toks"] = lex(res, URLS, lab)
                else:
                    e["chars"] = [ord(c) for c in res]
            elif k == "html":
                e.update(clear=op["clear"], inline=op["inline"], chars=[], rule=[], link=[])
                if op.get("save"):
                    path = os.path.join(tmpdir, "export.html")
                    real.save_html(path, clear=op["clear"], inline_styles=op["inline"], **html_options(op))
                    with open(path, encoding="utf-8", newline="") as f:
                        res = f.read()
                else:
                    res = real.export_html(clear=op["clear"], inline_styles=op["inline"], **html_options(op))
                e["chars"], e["rule"], e["link"] = html_project(res, URLS, rules_of(case))
        except Exception as ex:          # a crash inside Rich is an observation
            e["exc"] = type(ex).__name__
            for f, d in (("toks", []), ("chars", []), ("rule", []), ("link", []), ("simple", False), ("ch", []), ("n", 0),
                         ("clear", False), ("styles", False), ("inline", False)):
                e.setdefault(f, d)
        w, tw = rtap.take(), ttap.take()
        e["w"], e["tw"] = lex(w, URLS, lab), lex(tw, URLS, lab)
        events.append(e)
        raw.append(dict(op=op, wrote=w, result=res, exc=e["exc"]))
        if e["exc"] != "none":
            break                        # the console's buffer state after an exception is not the subject
    case.pop("_rules", None)
    return dict(cfg=cfg, sty=sty, text=texts, events=events), raw


def html_options(op):
    kw = {}
    if op.get("theme"):
        from rich.terminal_theme import TerminalTheme
        kw["theme"] = TerminalTheme((1, 2, 3), (250, 251, 252), [(i * 16, 255 - i * 16, i) for i in range(8)], [(i * 16 + 8, 200 - i * 8, 255 - i) for i in range(8)])
    if op.get("fmt"):
        kw["code_format"] = FORMATS[op["fmt"]]
    return kw


def rules_of(case):
    return case.setdefault("_rules", {})


# ---- judging ---------------------------------------------------------------------------------------

def signature(case, verdict):
    """failing clause + call + shape of its arguments"""
    clause = verdict.split(": ")[-1]
    step = int(verdict.split(" ")[1]) if verdict.startswith("step ") else 0
    op = case["ops"][step - 1] if 1 <= step <= len(case["ops"]) else {"k": "?"}
    sig = "%s op=%s" % (clause, op["k"])
    if op["k"] == "text":
        sig += " styles=%s" % op["styles"]
    if op["k"] == "html":
        sig += " inline=%s" % op["inline"]
        printed = {str(i) for o in case["ops"][:step] for i in o.get("ch", [])}
        if clause == "html-differs" and any(case["chunks"][i]["sid"] == 6 for i in printed if i in case["chunks"]):
            sig += " link-url-with-quote"
    return sig, step


def judge_cases(chk, cases, tmpdir, label="M3"):
    recs, raws = [], []
    for c in cases:
        r, raw = execute(c, tmpdir)
        recs.append(r)
        raws.append(raw)
    verdicts, st = tlc.judge("Trace_Record", recs, chunk_min=20)
    chk.add_tlc(st, label)
    return recs, raws, verdicts


def minimise(chk, case, sig, tmpdir, rounds=12):
    """delta debugging, one TLC batch per round: drop the calls after the failing one, then single calls"""
    cur = case
    for _ in range(rounds):
        cands = []
        ops = cur["ops"]
        n = len(ops)
        cuts = [(i, i + 1) for i in range(n)]
        for size in sorted({n // 2, n // 3, n // 4, n // 8} - {0, 1}):
            cuts += [(i, min(n, i + size)) for i in range(0, n - 1, max(1, size // 2))]
        outs = [ops[:i] + ops[j:] for i, j in cuts]
        stack = []
        for i, x in enumerate(ops):                 # a capture block's begin and end together
            if x["k"] == "begin":
                stack.append(i)
            elif x["k"] == "end" and stack:
                b = stack.pop()
                outs.append([y for m, y in enumerate(ops) if m not in (b, i)])
        for o in outs:
            d = 0
            ok = True
            for x in o:                       # keep capture blocks balanced
                d += (x["k"] == "begin") - (x["k"] == "end")
                ok = ok and d >= 0
            if ok:
                cands.append(dict(cfg=cur["cfg"], chunks=cur["chunks"], ops=o))
        if not cands:
            break
        _, _, verdicts = judge_cases(chk, cands, tmpdir, "M3-minimise")
        nxt = None
        for c, v in zip(cands, verdicts):
            if not v.startswith(("ok", "drift", "no-verdict")) and signature(c, v)[0] == sig:
                step = signature(c, v)[1]
                c2 = dict(c, ops=c["ops"][:step] if step else c["ops"])
                if nxt is None or len(c2["ops"]) < len(nxt["ops"]):
                    nxt = c2
        if nxt is None:
            break
        cur = nxt
    used = {str(i) for o in cur["ops"] for i in o.get("ch", [])}
    return dict(cur, chunks={i: c for i, c in cur["chunks"].items() if i in used})


def residual(case, sig, step):
    """the history without the calls that run into the same defect again, so that the rest of it is still judged"""
    ops = case["ops"]
    if "capture" in sig:                       # keep only outermost capture blocks
        out, d = [], 0
        for o in ops:
            if o["k"] == "begin":
                d += 1
                if d > 1:
                    continue
            elif o["k"] == "end":
                d -= 1
                if d >= 1:
                    continue
            out.append(o)
    else:
        k = ops[step - 1]["k"] if 1 <= step <= len(ops) else None
        flag = "styles" if k == "text" else "inline"
        out = [o for i, o in enumerate(ops) if not (o["k"] == k and (k == "html" or o.get(flag) == ops[step - 1].get(flag)))]
    return dict(cfg=case["cfg"], chunks=case["chunks"], ops=out)


def judge_batch(chk, todo, tmpdir, rnd, state):
    """execute, let TLC judge, report; returns the residual histories to judge again"""
    firsts, drifts = state["firsts"], state["drifts"]
    recs, raws, verdicts = judge_cases(chk, todo, tmpdir, "M3" if rnd == 0 else "M3-residual")
    chk.traces += len(recs)
    state["first_raws"] = state["first_raws"] or raws[:1]
    again = []
    for case, rec, raw, v in zip(todo, recs, raws, verdicts):
        wrote = False
        nontrivial = False
        depth = 0
        for e in rec["events"]:
            depth += (e["k"] == "begin") - (e["k"] == "end")
            if e["k"] in ("begin", "end"):
                nontrivial = True
            if e.get("w"):
                wrote = True
            if e["k"] in ("text", "html") and wrote and depth == 0:
                nontrivial = True
                state["njudged"] += 1
        chk.case((case["cfg"], case["chunks"], case["ops"]), nontrivial)
        if v == "ok":
            continue
        if v.startswith("drift "):
            what = v.split(": ")[-1]
            if what not in drifts:
                drifts[what] = (case, v)
            continue
        sig, step = signature(case, v)
        payload = dict(cfg=case["cfg"], chunks=case["chunks"], ops=case["ops"][:step] if step else case["ops"])
        if sig not in firsts and len(firsts) < 6 and not chk.replay_only and v != "no-verdict":
            small = minimise(chk, payload, sig, tmpdir)
            firsts[sig] = small
            _, sraw = execute(dict(small), tmpdir)
            chk.notes.setdefault("minimal_witnesses", {})[sig] = dict(
                cfg=small["cfg"], calls=[dict(call=x["op"], wrote=x["wrote"], result=x["result"]) for x in sraw])
        if sig in firsts and len(firsts[sig]["ops"]) <= len(payload["ops"]):
            payload = firsts[sig]
            v = "%s (minimal witness: %d calls, last one rejected)" % (v.split(": ")[-1], len(payload["ops"]))
        chk.reject(sig, v, payload)
        if step and not chk.replay_only:
            res = residual(case, sig, step)
            if len(res["ops"]) < len(case["ops"]):
                again.append(res)
    return again


def _disarm_watchdog_at_exit():
    """engine/watch.py's repeating CPU tick is still armed when the interpreter shuts down; once Python has restored the default
    signal dispositions a tick kills the process (SIGVTALRM) and the exit status of a finished check is lost - seen after the
    thorough tier, whose 100 000 records take long to free.  Disarm it first (atexit runs before the handlers are restored)."""
    import atexit
    import signal
    atexit.register(lambda: signal.setitimer(signal.ITIMER_VIRTUAL, 0))


def run(chk: Check):
    _disarm_watchdog_at_exit()
    chk.rule = ("a case is (console configuration: colour system x terminal x width x record, call list); call lists are every history of "
                "GenDepth calls of MC_Record, TLC-simulated longer ones, and seeded random histories of up to 30 calls over print (strings "
                "with < > & quotes entities, Text with styles / links / wide characters, bare newlines, Control, Text.assemble spans, Panel, "
                "Table, Padding, Columns, a renderable yielding Segments, console.out, one or two print options incl. overflow / markup / highlight / "
                "emoji), log, rule (characters, style), line, bell, clear, show_cursor, control, `with console:` blocks, begin/end capture (nested <= 3, method or context "
                "manager), export_text / save_text (clear x styles), export_html / save_html (clear x inline x terminal theme x code_format); colour systems incl. the Windows palette, "
                "NO_COLOR, a console-level base style; every history ends with the "
                "three exports; distinct by (cfg, chunks, ops); non-trivial = at least one judged export after a write, or a capture block")
    chk.trusted = ["engine/ansilex.py:lex (ANSI stream -> text / SGR / OSC-8 / control tokens; chunk labels by literal match)",
                   "engine/ansilex.py:html_project (html.parser: tags removed, entities decoded, <pre> content only)",
                   "drivers/c15.py:execute (a second, identical console that never captures is the reference for 'as it would have been written')"]
    chk.assumptions = ["printed text holds no C0 control characters other than newline (control codes go through Control / control())",
                       "markup, emoji and highlighting off (incidental to the property)",
                       "colours are compared between file and styled export modulo down-conversion to the console's colour system",
                       "clauses 1-3 are judged outside capture blocks, and not between a nested capture / an export inside a capture block "
                       "and the next clearing export (the statement does not say where captured output goes in the record)"]
    tmpdir = tempfile.mkdtemp(prefix="c15-%d-" % os.getpid(), dir=os.path.join(tlc.VERIF, ".work") if os.path.isdir(os.path.join(tlc.VERIF, ".work")) else None)
    try:
        _run(chk, tmpdir)
    finally:
        shutil.rmtree(tmpdir, ignore_errors=True)


def _run(chk, tmpdir):
    cases = []
    if chk.replay_only:
        cases.append(chk.replay_only["case"])
    else:
        # ---- M1 ------------------------------------------------------------------------------
        # (C15_SKIP_M1=1: mutation runs against a scratch tree skip the part that does not touch the tree)
        runs = [] if os.environ.get("C15_SKIP_M1") else [("full", chk.pick(3, 4), ["none", "truecolor"], ACTIONS), ("core", chk.pick(4, 6), ["truecolor"], CORE_ACTIONS)]
        if chk.thorough:
            runs.append(("full", 3, CSS, ACTIONS))
        if os.environ.get("C15_SKIP_M1"):
            runs = []
        for alphabet, depth, css, acts in runs:
            r, cov, missing = tlc.model_check("MC_Record", cfg_text=cfg_text(depth, css, "repaired", alphabet), require_actions=acts)
            chk.add_tlc(r, "M1-%s-depth%d" % (alphabet, depth))
            if r.violated or missing or not r.finished:
                raise tlc.TLCFailure("MC_Record %s: violated=%s never-fired=%s\n%s" % (alphabet, r.violated, missing, r.out[-3000:]))
            chk.notes.setdefault("m1_action_coverage", {})["%s-depth%d" % (alphabet, depth)] = {k: v[1] for k, v in cov.items() if k in ACTIONS}
        shown = {}
        for design, clause in ([] if os.environ.get("C15_SKIP_M1") else DEFECTS):
            r, _, _ = tlc.model_check("MC_Record", cfg_text=cfg_text(4, ["truecolor"], design, "core"), coverage=False, workers=4)
            chk.add_tlc(r, "M1-defect-switches")
            shown[design] = r.violated
            if clause not in r.violated:
                raise tlc.TLCFailure("MC_Record design %s: expected %s violated, got %s (vacuous invariant?)\n%s" % (design, clause, r.violated, r.out[-2000:]))
        chk.notes["m1_design_defects_exhibited"] = shown
        chk.mark("M1")
        # ---- M2 ------------------------------------------------------------------------------
        behs, r2 = tlc.behaviours("MC_Record", cfg_text=cfg_text(0, ["standard", "truecolor"], "repaired", "full", gen=2, view=False, invariants=False))
        chk.add_tlc(r2, "M2-exhaustive-depth-2")
        gd = chk.pick(6, 9)
        sims, r3 = tlc.behaviours("MC_Record", cfg_text=cfg_text(0, CSS, "repaired", "full", gen=gd, nest=3, view=False, invariants=False),
                                  simulate="num=%d" % chk.pick(400, 6000), depth=gd + 2, seed=chk.seed + 1)
        chk.add_tlc(r3, "M2-simulate-depth-%d" % gd)
        if not behs or not sims:
            raise tlc.TLCFailure("MC_Record generated no behaviours\n" + r2.out[-1500:] + r3.out[-1500:])
        cases += [from_tlc(b) for b in behs + sims]
        chk.notes["tlc_generated_histories"] = len(cases)
        chk.mark("M2")
        for i in range(chk.pick(800, 20000)):
            cases.append(random_case(chk.rng, chk.pick(16, 30) if i % 4 else 30))
    # ---- M3 (in batches: a history is ~20 kB of JSON) ----------------------------------------------
    state = dict(firsts={}, drifts={}, njudged=0, first_raws=None)
    BATCH = 3000
    for b0 in range(0, len(cases), BATCH):
        todo = cases[b0:b0 + BATCH]
        for rnd in range(4):
            if not todo:
                break
            todo = judge_batch(chk, todo, tmpdir, rnd, state)
    chk.mark("execute+judge")
    chk.notes["histories_rejudged_without_the_rejected_calls"] = chk.traces - len(cases)
    drifts, njudged, first_raws = state["drifts"], state["njudged"], state["first_raws"]
    for what, (case, v) in sorted(drifts.items()):
        chk.drift_note("%s (e.g. %s; cfg=%s)" % (what, v, case["cfg"]))
    chk.notes["exports_outside_capture_after_writes"] = njudged
    if cases:
        chk.sample(dict(cfg=cases[0]["cfg"], ops=cases[0]["ops"], observed=[dict(wrote=x["wrote"], result=x["result"]) for x in first_raws[0]][:8]))
        chk.sample(dict(cfg=cases[-1]["cfg"], chunks=cases[-1]["chunks"], ops=cases[-1]["ops"][:10]))
    chk.mark("report")
