"""C18 - colour down-conversion.  The driver enumerates source colours (slices of the RGB cube,
explicit lists), runs the real Color.downgrade(system) twice and Color.get_ansi_codes(foreground=)
for every point x target system, and projects what came back into the vocabulary of
specs/Color.tla (kind / number / r,g,b; SGR parameters as ints).  TLC (Trace_Color) judges every
point against DownOK / IdempotentOK / SgrCodes and, separately, against the transcription
RefDowngradeSet (DRIFT only).  MC_Color (M1) shows the transcription satisfies the relation.

Python never compares a result with an expectation: the only comparisons made here are `is`
(object identity, an observation) and dictionary / run-length grouping of equal observations
(lossless; TLC re-expands them).

Generator dimensions (audit 2).  A point is an item [spec, order, form]:
  spec   how the source colour is built: ("rgb", r,g,b) Color.from_rgb, ("trip", r,g,b) Color.from_triplet,
         ("idx", n) Color.from_ansi, ("name", text) Color.parse (every name of ANSI_COLOR_NAMES, color(n),
         #rrggbb, rgb(r,g,b), default, case / white-space variants), ("default",) Color.default(),
         ("raw", TYPE, n | r,g,b) the Color tuple built directly (WINDOWS typed colours, EIGHT_BIT typed
         colours below 16, ...), ("chain", base spec, s1, ...) the RESULT of downgrading the base colour to
         s1 (then s2 ...) after the base itself was asked for every system - an already downgraded colour
         that is then converted to every system again (third systems, names inherited from the original);
  order  in which of the 24 orders the four target systems are asked for this point (the lru_caches of
         downgrade / Palette.match / get_ansi_codes see the same colour asked for several systems in varying
         order; the repeat stratum asks for one colour several times in one process);
  form   the call form of get_ansi_codes: keyword (foreground=True/False), positional (True/False), or as
         rich.style does it: get_ansi_codes() for the foreground and get_ansi_codes(foreground=False).
Order and form are choices of history only; TLC judges every (point, target) the same way."""
import hashlib
import itertools
import json
import multiprocessing
import os
import re
import resource
import sys
import time
import zlib

from engine import tlc
from engine.harness import Check

SYSTEMS = (("standard", "STANDARD"), ("windows", "WINDOWS"), ("eight", "EIGHT_BIT"), ("truecolor", "TRUECOLOR"))
KIND = {"DEFAULT": "default", "STANDARD": "standard", "EIGHT_BIT": "eight", "TRUECOLOR": "rgb", "WINDOWS": "windows"}
ABSENT, BAD = -1, -2
# sha1 of the three palettes of rich 9.10.0 (DESIGN 6.6): a different digest is reported as DRIFT,
# the check itself always uses the palettes of the tree under test.
PINNED_PALETTES = "af1550b9675635fbb806fbb0d2b3dc3c25271b2c"


# ---- projection (trusted, lexical) -----------------------------------------------------------
def _int(v):
    if v is None:
        return ABSENT
    if isinstance(v, int) and not isinstance(v, bool) and 0 <= v < 2 ** 30:
        return v
    return BAD


def colour_key(c):
    """hashable raw image of a Color (name dropped: it is documentation only)."""
    return (getattr(c.type, "name", repr(c.type)), c.number, None if c.triplet is None else tuple(c.triplet))


def proj_colour(key):
    tname, number, triplet = key
    if triplet is None:
        rgb = (ABSENT, ABSENT, ABSENT)
    elif len(triplet) == 3:
        rgb = tuple(_int(x) if x is not None else BAD for x in triplet)
    else:
        rgb = (BAD, BAD, BAD)
    return dict(kind=KIND.get(tname, "unknown-type"), n=_int(number), r=rgb[0], g=rgb[1], b=rgb[2])


def proj_codes(codes):
    """tuple of decimal strings -> ints (BAD for anything that is not a canonical decimal string)."""
    out = []
    for s in codes:
        if isinstance(s, str) and s.isascii() and s.isdigit() and str(int(s)) == s and int(s) < 2 ** 30:
            out.append(int(s))
        else:
            out.append(BAD)
    return out


DUMMY = dict(kind="default", n=ABSENT, r=ABSENT, g=ABSENT, b=ABSENT)


def runs(values):
    """lossless delta-run-length encoding: [[offset, length, start, step], ...]"""
    out, i, n = [], 0, len(values)
    while i < n:
        s = values[i]
        j, d = i + 1, 0
        if j < n:
            d = values[j] - s
            j += 1
            while j < n and values[j] - values[j - 1] == d:
                j += 1
            if j - i == 2 and d != 0:      # a pair with a step compresses nothing: keep single
                j, d = i + 1, 0
        out.append([i, j - i, s, d])
        i = j
    return out


def intended(spec):
    """projection of the colour a source spec asks for (used only if the constructor itself raises)."""
    if spec[0] in ("rgb", "trip"):
        return dict(kind="rgb", n=ABSENT, r=spec[1], g=spec[2], b=spec[3])
    if spec[0] == "idx":
        return dict(kind="standard" if spec[1] < 16 else "eight", n=spec[1], r=ABSENT, g=ABSENT, b=ABSENT)
    if spec[0] == "raw" and spec[1] in KIND and len(spec) == 3:
        return dict(kind=KIND[spec[1]], n=spec[2], r=ABSENT, g=ABSENT, b=ABSENT)
    if spec[0] == "raw" and spec[1] == "TRUECOLOR":
        return dict(kind="rgb", n=ABSENT, r=spec[2], g=spec[3], b=spec[4])
    return dict(DUMMY)


PERMS = list(itertools.permutations(range(4)))


def plan(spec):
    """default (order, form) of a spec: a fixed function of the spec, so a replay asks in the same order."""
    if spec[0] == "rgb":
        return (spec[1] * 5 + spec[2] * 3 + spec[3]) % 24, (spec[1] + spec[2] + spec[3]) % 3
    h = zlib.crc32(repr(detuple(spec)).encode())
    return h % 24, (h // 24) % 3


def detuple(x):
    return [detuple(y) for y in x] if isinstance(x, (list, tuple)) else x


def entuple(x):
    return tuple(entuple(y) for y in x) if isinstance(x, (list, tuple)) else x


def item(spec, order=None, form=None):
    o, f = plan(spec)
    return (spec, o if order is None else order, f if form is None else form)


def route(spec):
    """shape of the source for signatures (never raw data)."""
    if spec[0] == "raw":
        return "raw-" + str(spec[1]).lower()
    if spec[0] == "chain":
        return "chain%d" % (len(spec) - 2)          # number of earlier conversions; the replay file has the systems
    if spec[0] == "name":
        t = spec[1].strip().lower()
        shape = ("hex" if t.startswith("#") else "rgb()" if t.startswith("rgb") else "color()" if t.startswith("color(")
                 else "default" if t == "default" else "named")
        return "parse-" + shape + ("" if t == spec[1] else "-variant")
    return spec[0]


def try_source(spec):
    try:
        return make_source(spec)
    except Exception as ex:     # the constructor crashed: every observation of this point is that crash
        return ex


def make_source(spec):
    from rich.color import Color
    if spec[0] == "rgb":
        return Color.from_rgb(spec[1], spec[2], spec[3])
    if spec[0] == "idx":
        return Color.from_ansi(spec[1])
    if spec[0] == "name":
        return Color.parse(spec[1])
    if spec[0] == "trip":
        from rich.color_triplet import ColorTriplet
        return Color.from_triplet(ColorTriplet(spec[1], spec[2], spec[3]))
    if spec[0] == "raw":
        from rich.color import ColorType
        from rich.color_triplet import ColorTriplet
        name = "raw-%s" % "-".join(str(x) for x in spec[1:])
        if spec[1] == "TRUECOLOR":
            return Color(name, ColorType.TRUECOLOR, triplet=ColorTriplet(spec[2], spec[3], spec[4]))
        if spec[1] == "DEFAULT":
            return Color(name, ColorType.DEFAULT)
        return Color(name, getattr(ColorType, spec[1]), number=spec[2])
    if spec[0] == "chain":
        # history: the base colour is asked for every system first, then converted to s1 (s2, ...); the
        # result - a colour that is already downgraded - is the source of this point
        from rich.color import ColorSystem
        systems = dict((name, getattr(ColorSystem, attr)) for name, attr in SYSTEMS)
        c = make_source(spec[1])
        for name, _ in SYSTEMS:
            c.downgrade(systems[name])
        for name in spec[2:]:
            c = c.downgrade(systems[name])
        return c
    return Color.default()


def ansi_codes(c, foreground, form):
    """get_ansi_codes in one of its call forms (2 = the way rich/style.py calls it)."""
    if form == 1:
        return c.get_ansi_codes(foreground)
    if form == 2 and foreground:
        return c.get_ansi_codes()
    return c.get_ansi_codes(foreground=foreground)


# terminal themes given to get_truecolor: 1 = None (the default theme), 2 = DEFAULT_TERMINAL_THEME itself,
# 3 = a theme with bright colours, 4 = a theme without (bright = normal).  The constructor arguments of 3 / 4
# are the driver's own data; TLC gets them as given (ansi = normal + (bright or normal), terminal_theme.py).
T3 = dict(background=(10, 20, 30), foreground=(200, 210, 220),
          normal=[(k * 10 + 1, k * 20 + 2, k * 30 + 3) for k in range(8)],
          bright=[(255 - k * 10, 254 - k * 20, 253 - k * 30) for k in range(8)])
T4 = dict(background=(250, 240, 230), foreground=(1, 2, 3), normal=[(k * 31, 255 - k * 17, (k * 57) % 256) for k in range(8)], bright=None)
_THEMES = []


def theme_objects():
    if not _THEMES:
        from rich.terminal_theme import DEFAULT_TERMINAL_THEME, TerminalTheme
        _THEMES.extend([None, DEFAULT_TERMINAL_THEME,
                        TerminalTheme(T3["background"], T3["foreground"], list(T3["normal"]), list(T3["bright"])),
                        TerminalTheme(T4["background"], T4["foreground"], list(T4["normal"]))])
    return _THEMES


def theme_data():
    from rich.terminal_theme import DEFAULT_TERMINAL_THEME as D
    dflt = dict(fg=[int(x) for x in D.foreground_color], bg=[int(x) for x in D.background_color],
                ansi=[[int(x) for x in col] for col in D.ansi_colors._colors])
    out = [dflt, dflt]
    for t in (T3, T4):
        out.append(dict(fg=list(t["foreground"]), bg=list(t["background"]),
                        ansi=[list(c) for c in t["normal"] + (t["bright"] or t["normal"])]))
    return out


SYSNAME = {"STANDARD": "standard", "EIGHT_BIT": "eight", "TRUECOLOR": "truecolor", "WINDOWS": "windows"}


def _flag(v):
    return 1 if v is True else 0 if v is False else BAD


def observe_props(i, c):
    """the read-only accessors of one source colour (implementation-shaped part only: DRIFT)."""
    try:
        if isinstance(c, Exception):
            raise c
        tcs = []
        for th in theme_objects():
            for fgflag in (True, False):
                t = c.get_truecolor(th, fgflag) if th is not None else c.get_truecolor(foreground=fgflag)
                tcs.append([_int(x) for x in t] if isinstance(t, tuple) and len(t) == 3 else [BAD, BAD, BAD])
        return dict(i=i, exc="", sys=SYSNAME.get(getattr(c.system, "name", ""), "unknown"),
                    isdef=_flag(c.is_default), sysdef=_flag(c.is_system_defined), tc=tcs)
    except Exception as ex:
        return dict(i=i, exc=type(ex).__name__[:16], sys="", isdef=BAD, sysdef=BAD, tc=[])


def observe(points, orders, forms, props=()):
    """points: list of real Color objects; orders[i]: index into PERMS (order in which the targets are asked);
    forms[i]: call form of get_ansi_codes; props: indices of the points whose accessors are observed too.
    Returns the record body (tab, cols, sf, sb, n, props)."""
    from rich.color import ColorSystem
    systems = [(name, getattr(ColorSystem, attr)) for name, attr in SYSTEMS]
    tab, tablist = {}, []
    cols = {name: [] for name, _ in SYSTEMS}
    sf = [[], [], [], [], []]
    sb = [[], [], [], [], []]
    props = set(props)
    pobs = []
    for i, c in enumerate(points):
        form = forms[i]
        if i in props and orders[i] % 2 == 0:       # accessors before ...
            pobs.append(observe_props(i, c))
        got = {}
        for k in PERMS[orders[i]]:
            name, system = systems[k]
            try:
                if isinstance(c, Exception):
                    raise c
                r1 = c.downgrade(system)
                same = r1 is c
                r2 = r1.downgrade(system)
                same2 = r2 is r1
                if same:
                    fg = bg = ()
                else:
                    fg = tuple(ansi_codes(r1, True, form))
                    bg = tuple(ansi_codes(r1, False, form))
                key = (same, None if same else colour_key(r1), same2, None if same2 else colour_key(r2), fg, bg)
                hash(key)
            except Exception as ex:  # a crash inside Rich is an observation
                key = ("exc", ("ctor-" if ex is c else "") + type(ex).__name__[:16])
            idx = tab.get(key)
            if idx is None:
                idx = tab[key] = len(tablist) + 1
                tablist.append(key)
            got[name] = idx
        for name, _ in systems:
            cols[name].append(got[name])
        for fgflag, dest in ((True, sf), (False, sb)):
            try:
                if isinstance(c, Exception):
                    raise c
                codes = proj_codes(ansi_codes(c, fgflag, form))[:5]
            except Exception:
                codes = [BAD]
            for p in range(5):
                dest[p].append(codes[p] if p < len(codes) else ABSENT)
        if i in props and orders[i] % 2 == 1:       # ... or after the conversions
            pobs.append(observe_props(i, c))
    entries = []
    for key in tablist:
        if key[0] == "exc":
            entries.append(dict(exc=key[1], same=False, c=DUMMY, same2=False, c2=DUMMY, fg=[], bg=[]))
        else:
            same, k1, same2, k2, fg, bg = key
            entries.append(dict(exc="", same=same, c=DUMMY if same else proj_colour(k1),
                                same2=same2, c2=DUMMY if same2 else proj_colour(k2),
                                fg=proj_codes(fg), bg=proj_codes(bg)))
    return dict(n=len(points), tab=entries, cols={k: runs(v) for k, v in cols.items()},
                sf=[runs(v) for v in sf], sb=[runs(v) for v in sb], props=pobs)


ALLSYS = [name for name, _ in SYSTEMS]


def wants_props(it):
    """which points also have their accessors observed (a coverage choice): every source that is not a plain
    from_rgb colour, and one in six of those."""
    spec, order, form = it
    return spec[0] != "rgb" or (form == 0 and order % 2 == 0)


def list_record(items, hist=False):
    """items: [spec, order, form]; `hist`: the points of this record are a history (repeated colours) - a
    replay of one of them re-runs the points before it as well."""
    items = [entuple(it) for it in items]
    specs = [it[0] for it in items]
    pts = [try_source(s) for s in specs]
    rec = observe(pts, [it[1] for it in items], [it[2] for it in items],
                  [i for i, it in enumerate(items) if wants_props(it)])
    rec["ref"] = ALLSYS
    rec["row"] = []
    rec["pts"] = [intended(s) if isinstance(c, Exception) else proj_colour(colour_key(c)) for s, c in zip(specs, pts)]
    rec["items"] = detuple(items)        # driver-side only (replay payloads, signatures); TLC never reads it
    rec["hist"] = bool(hist)
    return rec


def row_record(R, G):
    specs = [("rgb", R, G, b) for b in range(256)]
    pts = [try_source(s) for s in specs]
    plans = [plan(s) for s in specs]
    rec = observe(pts, [p[0] for p in plans], [p[1] for p in plans])
    # transcription comparison (DRIFT channel): 256 / truecolor targets on every row, the two 16-colour
    # searches (first-minimum tie-break) on one row in eight, staggered so every red and green value occurs
    rec["ref"] = ALLSYS if (R + G) % 8 == 0 else ["eight", "truecolor"]
    implied = [dict(kind="rgb", n=ABSENT, r=R, g=G, b=b) for b in range(256)]
    actual = [intended(s) if isinstance(c, Exception) else proj_colour(colour_key(c)) for s, c in zip(specs, pts)]
    if actual == implied:       # the constructor built exactly rgb(R,G,b): the slice can be implicit
        rec["row"], rec["pts"] = [R, G], []
    else:                       # otherwise hand TLC what was really built
        rec["row"], rec["pts"] = [], actual
    return rec


def _w_list(arg):
    return list_record(arg[1], hist=arg[0])


def _w_red(R):
    return [row_record(R, G) for G in range(256)]


def palettes():
    from rich import _palettes
    out = {}
    for k, name in (("std", "STANDARD_PALETTE"), ("win", "WINDOWS_PALETTE"), ("eight", "EIGHT_BIT_PALETTE")):
        out[k] = [[int(x) for x in col] for col in getattr(_palettes, name)._colors]
    return out


# ---- input strata ------------------------------------------------------------------------------
def quick_points(chk, pal):
    from rich.terminal_theme import DEFAULT_TERMINAL_THEME
    strata = {}
    lat = list(range(0, 256, 16)) + [255]
    strata["lattice17"] = [("rgb", r, g, b) for r in lat for g in lat for b in lat]
    near = set()
    entries = pal["std"] + pal["win"] + pal["eight"] + [list(c) for c in DEFAULT_TERMINAL_THEME.ansi_colors._colors]
    for (r, g, b) in entries:
        for dr in range(-2, 3):
            for dg in range(-2, 3):
                for db in range(-2, 3):
                    p = (r + dr, g + dg, b + db)
                    if all(0 <= x <= 255 for x in p):
                        near.add(("rgb",) + p)
    strata["palette+-2"] = sorted(near)
    strata["grey-axis"] = [("rgb", v, v, v) for v in range(256)]
    # saturation-threshold surface s = 0.1 of rgb_to_hls: 10*(M-m) = den (den = M+m or 510-M-m); +-2 steps of m
    surf = set()
    for M in range(256):
        for m in range(M + 1):
            S = M + m
            den = S if S <= 255 else 510 - S
            if abs(10 * (M - m) - den) <= 24:
                for mid in {m, (M + m) // 2, M}:
                    for perm in ((M, mid, m), (M, m, mid), (mid, M, m), (m, M, mid), (mid, m, M), (m, mid, M)):
                        surf.add(("rgb",) + perm)
    strata["saturation-surface"] = sorted(surf)
    rng = chk.rng
    strata["random"] = [("rgb", rng.randrange(256), rng.randrange(256), rng.randrange(256)) for _ in range(20000)]
    strata["indexed+default"] = [("idx", n) for n in range(256)] + [("default",)] + \
        [("name", "color(%d)" % n) for n in (0, 7, 8, 15, 16, 231, 232, 255)] + \
        [("name", s) for s in ("default", "red", "bright_white", "grey0", "grey93", "#000000", "#ffffff", "rgb(1,2,3)")]
    # ---- audit 2 ----
    # the 6x6x6 cube: channel values on both sides of every rounding boundary of round(x / 255 * 5)
    cb = [0, 25, 26, 76, 77, 127, 128, 178, 179, 229, 230, 255]
    strata["cube-boundaries"] = [("rgb", r, g, b) for r in cb for g in cb for b in cb]
    # near-greys: low saturation colours one to three steps off the grey axis, every level
    offs = [(1, 0, 0), (0, 1, 0), (0, 0, 1), (1, 1, 0), (0, 2, 1), (2, 0, 1), (1, 3, 0), (3, 1, 2), (0, 3, 3), (2, 2, 0)]
    strata["near-grey"] = sorted({("rgb", v + a, v + b, v + c) for v in range(256) for (a, b, c) in offs
                                  if max(v + a, v + b, v + c) <= 255})
    strata["voronoi"] = voronoi_points(rng, pal)
    strata["near-ties"] = near_tie_points(strata["voronoi"], pal)
    strata["parse-forms"] = parse_forms(rng, pal)
    strata["routes"] = route_points(rng, pal)
    return strata


# The generator steers points towards the decision boundaries of the two 16-colour searches with its own copy
# of the metric.  This only CHOOSES inputs; what is right there is decided by TLC from Color.tla.
def _d2(c, p):
    rm = (c[0] + p[0]) // 2
    dr, dg, db = c[0] - p[0], c[1] - p[1], c[2] - p[2]
    return (((512 + rm) * dr * dr) >> 8) + 4 * dg * dg + (((767 - rm) * db * db) >> 8)


def _near(pal16, c):
    return min(range(len(pal16)), key=lambda k: _d2(c, pal16[k]))


def voronoi_points(rng, pal):
    out = set()

    def add(p, halo):
        out.add(("rgb",) + tuple(p))
        if halo:
            for ax in range(3):
                for d in (-1, 1):
                    q = list(p)
                    q[ax] += d
                    if 0 <= q[ax] <= 255:
                        out.add(("rgb",) + tuple(q))

    for key in ("std", "win"):
        P = pal[key]
        # along the segment between every two entries: the places where the nearest entry changes
        for i in range(len(P)):
            for j in range(i + 1, len(P)):
                prev, prevn = None, None
                for t in range(97):
                    p = tuple((P[i][k] * (96 - t) + P[j][k] * t + 48) // 96 for k in range(3))
                    n = _near(P, p)
                    if prev is not None and n != prevn:
                        add(prev, True)
                        add(p, True)
                    prev, prevn = p, n
        # bisection between random colours with different nearest entries, down to adjacent colours
        for _ in range(1500):
            a = tuple(rng.randrange(256) for _ in range(3))
            b = tuple(rng.randrange(256) for _ in range(3))
            na, nb = _near(P, a), _near(P, b)
            if na == nb:
                continue
            while max(abs(a[k] - b[k]) for k in range(3)) > 1:
                m = tuple((a[k] + b[k]) // 2 for k in range(3))
                if _near(P, m) == na:
                    a = m
                else:
                    b, nb = m, _near(P, m)
            add(a, False)
            add(b, False)
    return sorted(out)


def near_tie_points(boundary, pal):
    """colours at which the two best entries of a 16-colour palette are (almost) equally far: in the +-2 box around
    every boundary colour, those where the two distances differ by at most 1 (a one-unit change of the metric -
    a floor turned into a ceiling, two shifts folded into one - shows only there)."""
    out = set()
    for key in ("std", "win"):
        P = pal[key]
        for spec in boundary:
            a = spec[1:]
            ds = sorted((_d2(a, P[k]), k) for k in range(len(P)))
            if ds[1][0] - ds[0][0] > 600:
                continue
            pa, pb = P[ds[0][1]], P[ds[1][1]]
            for dx in range(-2, 3):
                for dy in range(-2, 3):
                    for dz in range(-2, 3):
                        q = (a[0] + dx, a[1] + dy, a[2] + dz)
                        if min(q) >= 0 and max(q) <= 255 and abs(_d2(q, pa) - _d2(q, pb)) <= 1:
                            out.add(("rgb",) + q)
    return sorted(out)


def parse_forms(rng, pal):
    """Color.parse as the source of colours: every name of the table of the tree under test, every color(n),
    #rrggbb and rgb(r,g,b) for palette entries / boundary / random colours, default; upper / mixed case and
    surrounding white space (parse lower-cases and strips)."""
    from rich.color import ANSI_COLOR_NAMES
    names = sorted(ANSI_COLOR_NAMES)
    out = [("name", n) for n in names]
    out += [("name", "color(%d)" % n) for n in range(256)]
    trip = [tuple(c) for c in pal["std"] + pal["win"]] + [tuple(pal["eight"][n]) for n in range(16, 256, 7)]
    trip += [(v, v, v) for v in (0, 1, 7, 8, 127, 128, 246, 250, 254, 255)]
    trip += [tuple(rng.randrange(256) for _ in range(3)) for _ in range(300)]
    for (r, g, b) in trip:
        out.append(("name", "#%02x%02x%02x" % (r, g, b)))
        out.append(("name", "rgb(%d,%d,%d)" % (r, g, b)))
    var = []
    for n in names[::5] + ["default", "red", "bright_white", "grey0", "grey100"]:
        var += [n.upper(), n.title(), " " + n, n + " ", "\t" + n.upper() + "\n"]
    for n in (0, 7, 8, 15, 16, 17, 231, 232, 255):
        var += ["COLOR(%d)" % n, " Color(%d) " % n]
    for (r, g, b) in trip[::9]:
        var += ["#%02X%02X%02X" % (r, g, b), " #%02x%02X%02x\n" % (r, g, b), "RGB(%d,%d,%d)" % (r, g, b),
                "rgb(%d, %d, %d)" % (r, g, b), " Rgb( %d ,%d , %d ) " % (r, g, b)]
    out += [("name", v) for v in var]
    return out


def route_points(rng, pal):
    """construction routes other than from_rgb / from_ansi / parse, colours that are already downgraded
    (chains: every ordered pair and some triples of systems), and repeated colours."""
    out = []
    # Color tuples built directly: legacy-Windows typed, 8-bit typed below 16, and the ordinary kinds
    out += [("raw", "WINDOWS", n) for n in range(16)] + [("raw", "EIGHT_BIT", n) for n in range(16)]
    out += [("raw", "STANDARD", n) for n in range(16)] + [("raw", "EIGHT_BIT", n) for n in range(16, 256, 5)] + [("raw", "DEFAULT")]
    out += [("raw", "TRUECOLOR") + tuple(c) for c in pal["win"] + pal["std"]]
    some = [tuple(rng.randrange(256) for _ in range(3)) for _ in range(400)] + [tuple(c) for c in pal["win"] + pal["std"]] + \
        [(v, v, v) for v in range(0, 256, 5)]
    out += [("trip",) + c for c in some]
    sysn = [name for name, _ in SYSTEMS]
    bases = [("idx", n) for n in range(256)] + [("default",), ("name", "default"), ("name", "bright_red"), ("name", "grey50")] + \
        [("rgb",) + c for c in some] + [("raw", "WINDOWS", n) for n in range(16)] + [("raw", "EIGHT_BIT", n) for n in range(16)]
    for b in bases:
        out += [("chain", b, s1) for s1 in sysn]
    for b in bases[::4]:
        out += [("chain", b, s1, s2) for s1 in sysn for s2 in sysn if s1 != s2]
    return out


def repeat_items(rng, pal):
    """histories: the same colour (an equal Color tuple, built anew) asked again later in the same process, the
    targets in another order each time; one record = one history."""
    base = [("rgb",) + tuple(rng.randrange(256) for _ in range(3)) for _ in range(120)] + \
        [("idx", n) for n in range(0, 256, 3)] + [("default",)] + [("raw", "WINDOWS", n) for n in range(0, 16, 3)] + \
        [("name", "#%02x%02x%02x" % tuple(c)) for c in pal["win"]]
    rng.shuffle(base)
    out = []
    for i in range(0, len(base), 80):           # every record holds all three askings of its colours
        hist = []
        for rnd in range(3):
            for k, b in enumerate(base[i:i + 80]):
                o, f = plan(b)
                hist.append((b, (o + 7 * rnd + (k % 5) * rnd) % 24, (f + rnd) % 3))
        rng.shuffle(hist)
        out.append(detuple(hist))
    return out


def child_cpu():
    r = resource.getrusage(resource.RUSAGE_CHILDREN)
    return r.ru_utime + r.ru_stime


class Counted:
    """de-duplicated case set that can also absorb structurally distinct bulk cases by count
    (the 16.7M-colour cube cannot be held as a Python set)."""

    def __init__(self):
        self.keys, self.bulk = set(), 0

    def add(self, k):
        self.keys.add(k)

    def __len__(self):
        return len(self.keys) + self.bulk


_COL = r"rgb\(\d+,\d+,\d+\)|default|standard\(-?\d+\)|eight\(-?\d+\)|windows\(-?\d+\)"
_KINDS = r"rgb|default|standard|eight|windows|unknown-type"
_COLX = r"rgb\(-?\d+,-?\d+,-?\d+\)|default|[\w-]+\(-?\d+\)"       # also malformed colours
_VERD = re.compile(r"^(?P<col>%s)#(?P<i>\d+)>(?P<sys>[\w-]+):(?P<clause>[\w-]+)$" % _COLX)
_DRIFT = re.compile(r"^drift:(?P<col>%s)#(?P<i>\d+)>(?P<sys>\w+)=(?P<got>%s)$" % (_COLX, _COLX))
_PDRIFT = re.compile(r"^drift:(?P<col>%s)#(?P<i>\d+)>props:(?P<what>[\w-]+)$" % _COLX)


def items_of(rec, i):
    """the replayable points behind point i of a record: the item itself (slice records: rebuilt from the row),
    preceded by the earlier points of the record when the record is a history."""
    if rec["row"]:
        return [detuple(item(("rgb", rec["row"][0], rec["row"][1], i)))]
    return rec["items"][:i + 1] if rec.get("hist") else [rec["items"][i]]


def describe(it):
    """what the real code returned for one point (for the human-readable detail of a rejection)."""
    from rich.color import ColorSystem
    out = {}
    spec, order, form = entuple(it)
    try:
        c = make_source(spec)
        out["source"] = repr(c)
        out["asked_in_order"] = [SYSTEMS[k][0] for k in PERMS[order]]
        out["get_ansi_codes_form"] = ["keyword", "positional", "as rich.style calls it"][form]
        for k in PERMS[order]:
            name, attr = SYSTEMS[k]
            try:
                r1 = c.downgrade(getattr(ColorSystem, attr))
                out[name] = dict(first=repr(r1), second=repr(r1.downgrade(getattr(ColorSystem, attr))),
                                 fg=list(ansi_codes(r1, True, form)), bg=list(ansi_codes(r1, False, form)))
            except Exception as ex:
                out[name] = "raised " + type(ex).__name__
        out["source_codes"] = dict(fg=list(ansi_codes(c, True, form)), bg=list(ansi_codes(c, False, form)))
    except Exception as ex:
        out["source"] = out.get("source", "") + " raised " + type(ex).__name__
    return out


def judge(chk, recs, pal, label):
    wire = [{k: v for k, v in rec.items() if k not in ("items", "hist")} for rec in recs]     # driver-side fields stay here
    verdicts, st = tlc.judge("Trace_Color", wire, extra_json=pal, chunk_min=8, timeout=7200)
    chk.add_tlc(st, label)
    nbad = 0
    for rec, v in zip(recs, verdicts):
        if v == "ok":
            continue
        if v in ("no-verdict", "malformed-record"):
            raise tlc.TLCFailure("Trace_Color gave %r for a record (row=%s n=%s)" % (v, rec["row"], rec["n"]))
        m = _DRIFT.match(v)
        if m:
            its = items_of(rec, int(m.group("i")))
            chk.drift_note("Color.downgrade differs from the transcription RefDowngradeSet (all property clauses hold): "
                           "%s [%s] -> %s gave %s" % (m.group("col"), route(entuple(its[-1][0])), m.group("sys"), m.group("got")))
            continue
        m = _PDRIFT.match(v)
        if m:
            its = items_of(rec, int(m.group("i")))
            chk.drift_note("a read-only accessor of Color differs from its transcription in Color.tla (the statement does not "
                           "speak about system / is_default / is_system_defined / get_truecolor): %s [%s] %s"
                           % (m.group("col"), route(entuple(its[-1][0])), m.group("what")))
            continue
        m = _VERD.match(v)
        if not m:
            raise tlc.TLCFailure("unparsable verdict %r" % v)
        its = items_of(rec, int(m.group("i")))
        kind = m.group("col").split("(")[0]
        rt = route(entuple(its[-1][0]))
        sig = "%s sys=%s src=%s" % (m.group("clause"), m.group("sys"), kind)
        if rt not in ("rgb", "idx", "default"):
            sig += " route=" + rt
        if rec.get("hist"):
            sig += " repeated"
        nbad += 1
        if len(chk.violations) < 2000:
            chk.reject(sig, dict(verdict=v, observed=describe(its[-1])), dict(points=its, hist=bool(rec.get("hist"))))
    return st, nbad


def run(chk: Check):
    pal = palettes()
    digest = hashlib.sha1(json.dumps(pal, sort_keys=True).encode()).hexdigest()
    jpal = dict(pal, themes=theme_data())       # what TLC gets besides the records
    chk.notes["palettes_sha1"] = digest
    if digest != PINNED_PALETTES:
        chk.drift_note("rich/_palettes.py differs from the pinned 9.10.0 palettes (sha1 %s); the property is judged on the palettes of the tree under test" % digest)
    chk.distinct = Counted()
    chk.rule = ("a case is one (source colour, target system) pair judged by TLC; non-trivial = the source is not "
                "already representable in the target (rgb -> standard/windows/256, 8-bit -> standard/windows), i.e. a "
                "palette search or the HLS/cube/grey-ramp computation really runs; the SGR parameters of every source "
                "colour and of every distinct result (fg and bg) are judged as well")
    chk.trusted = ["drivers/c18.py:colour_key/proj_colour (Color -> kind/number/r,g,b; None -> -1)",
                   "drivers/c18.py:proj_codes (decimal strings -> ints)",
                   "drivers/c18.py:observe/runs (dictionary + delta-run grouping of equal observations; `is` identity test)",
                   "drivers/c18.py:palettes / theme_data (read rich/_palettes.py and DEFAULT_TERMINAL_THEME of the tree under test)",
                   "drivers/c18.py:observe_props (accessors -> names / 0,1 / triplets; DRIFT channel only)"]
    chk.assumptions = ["source colours are built with Color.from_rgb / from_triplet / from_ansi / parse / default, as Color tuples "
                       "built directly (windows typed, 8-bit typed below 16) and as results of earlier conversions; for a "
                       "windows typed source converted to standard / 256 and an 8-bit typed source below 16 converted to a "
                       "16-colour system the statement fixes the gamut, idempotence and the SGR parameters only",
                       "the metric is the integer radicand of palette.py (floor shifts included); sqrt only orders it",
                       "a call of get_ansi_codes() without argument asks for the foreground (the documented default)"]
    ctx = multiprocessing.get_context("fork")

    if chk.replay_only:
        pts = [entuple(s) for s in chk.replay_only["case"]["points"]]
        # a point is [spec, order, form]; a bare spec (replay files written before audit 2) gets its default plan
        items = [p if len(p) == 3 and isinstance(p[0], tuple) else item(p) for p in pts]
        recs = [list_record(items, hist=bool(chk.replay_only["case"].get("hist")))]
        account(chk, recs)
        judge(chk, recs, jpal, "M4-replay")
        return

    # ---- M1: the transcription satisfies the relation on a lattice ----------------------------
    os.makedirs(os.path.join(tlc.VERIF, ".work"), exist_ok=True)
    ppath = os.path.join(tlc.VERIF, ".work", "c18-palettes-%d.json" % os.getpid())
    with open(ppath, "w") as f:
        json.dump(dict(jpal, recs=[]), f)
    try:
        acts = ["Keep", "Grey", "Cube", "Tie", "MatchStd", "MatchWin", "WinIndex"]
        r, cov, missing = tlc.model_check("MC_Color", env={"TRACE_FILE": ppath}, require_actions=acts)
    finally:
        os.unlink(ppath)
    chk.add_tlc(r, "M1")
    if r.violated or missing or not r.finished:
        raise tlc.TLCFailure("MC_Color: violated=%s never-fired=%s\n%s" % (r.violated, missing, r.out[-3000:]))
    chk.notes["m1_action_coverage"] = {k: v[1] for k, v in cov.items()}
    chk.notes["m1_wall_s"] = round(r.wall, 1)

    # ---- M4 quick strata (both tiers) ---------------------------------------------------------
    strata = quick_points(chk, pal)
    seen, specs = set(), []
    for name, pts in strata.items():
        for s in pts:
            if s not in seen:
                seen.add(s)
                specs.append(s)
    chk.notes["strata"] = {k: len(v) for k, v in strata.items()}
    chk.notes["quick_points_distinct"] = len(specs)
    # neighbours become adjacent: longer runs, smaller batches
    specs.sort(key=lambda t: (t[0], [x if isinstance(x, int) else -1 for x in t[1:]], repr(t)))
    groups = [(False, [detuple(item(s)) for s in specs[i:i + 512]]) for i in range(0, len(specs), 512)]
    hists = repeat_items(chk.rng, pal)
    chk.notes["repeat_histories"] = dict(records=len(hists), points=sum(len(h) for h in hists))
    groups += [(True, h) for h in hists]
    t0 = time.time()
    with ctx.Pool(min(16, os.cpu_count() or 4)) as pool:
        recs = pool.map(_w_list, groups, chunksize=1)
    chk.notes["quick_python_s"] = round(time.time() - t0, 1)
    account(chk, recs)
    st, nbad = judge(chk, recs, jpal, "M4-strata")
    chk.notes["quick_tlc_s"] = round(st["wall"], 1)
    for sp in (("rgb", 132, 115, 140), ("rgb", 255, 85, 86), ("idx", 9), ("idx", 202), ("default",), ("raw", "WINDOWS", 11),
               ("chain", ("rgb", 200, 30, 90), "eight", "windows"), ("name", " Grey93\n")):
        chk.sample(dict(input=detuple(sp), real_calls=describe(item(sp))))
    chk.sample(dict(slice_record_as_sent_to_TLC="row rgb(16,32,0..255)", record=compact(row_record(16, 32))))
    if not chk.thorough:
        chk.notes["bounds"] = ("quick: %d distinct source colours (17^3 lattice, +-2 around every palette entry, grey axis, "
                               "saturation-threshold surface, 6x6x6 cube rounding boundaries, near-greys, decision boundaries of both 16-colour "
                               "searches, 20000 random, 256 indexed, default, every Color.parse form incl. all names, directly built "
                               "windows / 8-bit<16 typed tuples, already downgraded colours (chains over every pair of systems), repeated "
                               "colours) x 4 targets asked in varying order x fg/bg in three call forms" % len(specs))
        return
    if nbad:
        chk.notes["bounds"] = "thorough sweep skipped: the quick strata already produced rejections"
        return

    # ---- M4 thorough: the whole cube, one record per (red, green) row of 256 colours ----------
    waves = [list(range(i, i + 32)) for i in range(0, 256, 32)]
    tp = tt = cp = ct = 0.0
    rows = 0
    for wave in waves:
        t0, c0 = time.time(), child_cpu()
        with ctx.Pool(min(16, os.cpu_count() or 4)) as pool:
            recs = [rec for lst in pool.map(_w_red, wave, chunksize=1) for rec in lst]
        tp += time.time() - t0
        cp += child_cpu() - c0
        account(chk, recs, bulk=True)
        c0 = child_cpu()
        st, nbad = judge(chk, recs, jpal, "M4-cube")
        tt += st["wall"]
        ct += child_cpu() - c0
        rows += len(recs)
        print("C18 cube: red %d..%d done, %d rows, python %.0fs tlc %.0fs" % (wave[0], wave[-1], rows, tp, tt), file=sys.stderr)
        if nbad:
            break
    chk.notes["cube_python_s"] = round(tp, 1)
    chk.notes["cube_tlc_s"] = round(tt, 1)
    chk.notes["cube_python_cpu_s"] = round(cp, 1)     # summed over worker processes (wall on idle 16 cores ~ cpu/16)
    chk.notes["cube_tlc_cpu_s"] = round(ct, 1)
    chk.notes["cube_rows"] = rows
    complete = rows == 65536 and not nbad
    chk.exhaustive = bool(complete)
    chk.notes["bounds"] = ("thorough: all %d rows (red, green) x 256 blue = %d RGB colours, plus the 256 indexed colours and default, "
                           "x {standard, 256, truecolor, windows} x first+second downgrade x fg/bg SGR parameters of source and result"
                           % (rows, rows * 256))


def account(chk, recs, bulk=False):
    """evaluations / distinct non-trivial cases / executions judged, from the records themselves."""
    for rec in recs:
        n = rec["n"]
        chk.traces += 4 * n                     # first downgrade calls judged (each with its second call)
        chk.evaluations += 4 * n + 2 * n        # DownOK evaluations + fg/bg parameter lists of the sources
        if rec["row"]:
            chk.distinct.bulk += 3 * n          # rgb -> standard / windows / 256; rows never repeat
        else:
            for p in rec["pts"]:
                if p["kind"] == "rgb":
                    for s in ("standard", "windows", "eight"):
                        chk.distinct.add(("rgb", p["r"], p["g"], p["b"], s))
                elif p["kind"] == "eight":
                    for s in ("standard", "windows"):
                        chk.distinct.add(("eight", p["n"], s))


def compact(rec):
    return dict(row=rec["row"], n=rec["n"], tab=rec["tab"][:4], cols=rec["cols"], sf=rec["sf"], props=rec["props"][:2])
