"""C18 - colour down-conversion.  The driver enumerates source colours (slices of the RGB cube,
explicit lists), runs the real Color.downgrade(system) twice and Color.get_ansi_codes(foreground=)
for every point x target system, and projects what came back into the vocabulary of
specs/Color.tla (kind / number / r,g,b; SGR parameters as ints).  TLC (Trace_Color) judges every
point against DownOK / IdempotentOK / SgrCodes and, separately, against the transcription
RefDowngradeSet (DRIFT only).  MC_Color (M1) shows the transcription satisfies the relation.

Python never compares a result with an expectation: the only comparisons made here are `is`
(object identity, an observation) and dictionary / run-length grouping of equal observations
(lossless; TLC re-expands them)."""
import hashlib
import json
import multiprocessing
import os
import re
import resource
import sys
import time

from engine import tlc
from engine.harness import Check

SYSTEMS = (("standard", "STANDARD"), ("windows", "WINDOWS"), ("eight", "EIGHT_BIT"), ("truecolor", "TRUECOLOR"))
KIND = {"DEFAULT": "default", "STANDARD": "standard", "EIGHT_BIT": "eight", "TRUECOLOR": "rgb", "WINDOWS": "windows"}
ABSENT, BAD = -1, -2
# sha1 of the three palettes of rich 9.10.0 (DESIGN 6.6): a different digest is reported as DRIFT,
# the check itself always uses the palettes of the tree under test.
PINNED_PALETTES = "af1550b9675635fbb806fbb0d2b3dc3c25271b2c"


# ---- projection (trusted, lexical) -----------------------------------------------------------
def _int(v):
    if v is None:
        return ABSENT
    if isinstance(v, int) and not isinstance(v, bool) and 0 <= v < 2 ** 30:
        return v
    return BAD


def colour_key(c):
    """hashable raw image of a Color (name dropped: it is documentation only)."""
    return (getattr(c.type, "name", repr(c.type)), c.number, None if c.triplet is None else tuple(c.triplet))


def proj_colour(key):
    tname, number, triplet = key
    if triplet is None:
        rgb = (ABSENT, ABSENT, ABSENT)
    elif len(triplet) == 3:
        rgb = tuple(_int(x) if x is not None else BAD for x in triplet)
    else:
        rgb = (BAD, BAD, BAD)
    return dict(kind=KIND.get(tname, "unknown-type"), n=_int(number), r=rgb[0], g=rgb[1], b=rgb[2])


def proj_codes(codes):
    """tuple of decimal strings -> ints (BAD for anything that is not a canonical decimal string)."""
    out = []
    for s in codes:
        if isinstance(s, str) and s.isascii() and s.isdigit() and str(int(s)) == s and int(s) < 2 ** 30:
            out.append(int(s))
        else:
            out.append(BAD)
    return out


DUMMY = dict(kind="default", n=ABSENT, r=ABSENT, g=ABSENT, b=ABSENT)


def runs(values):
    """lossless delta-run-length encoding: [[offset, length, start, step], ...]"""
    out, i, n = [], 0, len(values)
    while i < n:
        s = values[i]
        j, d = i + 1, 0
        if j < n:
            d = values[j] - s
            j += 1
            while j < n and values[j] - values[j - 1] == d:
                j += 1
            if j - i == 2 and d != 0:      # a pair with a step compresses nothing: keep single
                j, d = i + 1, 0
        out.append([i, j - i, s, d])
        i = j
    return out


def intended(spec):
    """projection of the colour a source spec asks for (used only if the constructor itself raises)."""
    if spec[0] == "rgb":
        return dict(kind="rgb", n=ABSENT, r=spec[1], g=spec[2], b=spec[3])
    if spec[0] == "idx":
        return dict(kind="standard" if spec[1] < 16 else "eight", n=spec[1], r=ABSENT, g=ABSENT, b=ABSENT)
    return dict(DUMMY)


def try_source(spec):
    try:
        return make_source(spec)
    except Exception as ex:     # the constructor crashed: every observation of this point is that crash
        return ex


def make_source(spec):
    from rich.color import Color
    if spec[0] == "rgb":
        return Color.from_rgb(spec[1], spec[2], spec[3])
    if spec[0] == "idx":
        return Color.from_ansi(spec[1])
    if spec[0] == "name":
        return Color.parse(spec[1])
    return Color.default()


def observe(points):
    """points: list of real Color objects.  Returns the record body (tab, cols, sf, sb, n)."""
    from rich.color import ColorSystem
    systems = [(name, getattr(ColorSystem, attr)) for name, attr in SYSTEMS]
    tab, tablist = {}, []
    cols = {name: [] for name, _ in SYSTEMS}
    sf = [[], [], [], [], []]
    sb = [[], [], [], [], []]
    for c in points:
        for name, system in systems:
            try:
                if isinstance(c, Exception):
                    raise c
                r1 = c.downgrade(system)
                same = r1 is c
                r2 = r1.downgrade(system)
                same2 = r2 is r1
                if same:
                    fg = bg = ()
                else:
                    fg = tuple(r1.get_ansi_codes(foreground=True))
                    bg = tuple(r1.get_ansi_codes(foreground=False))
                key = (same, None if same else colour_key(r1), same2, None if same2 else colour_key(r2), fg, bg)
                hash(key)
            except Exception as ex:  # a crash inside Rich is an observation
                key = ("exc", ("ctor-" if ex is c else "") + type(ex).__name__[:18])
            idx = tab.get(key)
            if idx is None:
                idx = tab[key] = len(tablist) + 1
                tablist.append(key)
            cols[name].append(idx)
        for fgflag, dest in ((True, sf), (False, sb)):
            try:
                if isinstance(c, Exception):
                    raise c
                codes = proj_codes(c.get_ansi_codes(foreground=fgflag))[:5]
            except Exception:
                codes = [BAD]
            for p in range(5):
                dest[p].append(codes[p] if p < len(codes) else ABSENT)
    entries = []
    for key in tablist:
        if key[0] == "exc":
            entries.append(dict(exc=key[1], same=False, c=DUMMY, same2=False, c2=DUMMY, fg=[], bg=[]))
        else:
            same, k1, same2, k2, fg, bg = key
            entries.append(dict(exc="", same=same, c=DUMMY if same else proj_colour(k1),
                                same2=same2, c2=DUMMY if same2 else proj_colour(k2),
                                fg=proj_codes(fg), bg=proj_codes(bg)))
    return dict(n=len(points), tab=entries, cols={k: runs(v) for k, v in cols.items()},
                sf=[runs(v) for v in sf], sb=[runs(v) for v in sb])


ALLSYS = [name for name, _ in SYSTEMS]


def list_record(specs):
    pts = [try_source(s) for s in specs]
    rec = observe(pts)
    rec["ref"] = ALLSYS
    rec["row"] = []
    rec["pts"] = [intended(s) if isinstance(c, Exception) else proj_colour(colour_key(c)) for s, c in zip(specs, pts)]
    return rec


def row_record(R, G):
    specs = [("rgb", R, G, b) for b in range(256)]
    pts = [try_source(s) for s in specs]
    rec = observe(pts)
    # transcription comparison (DRIFT channel): 256 / truecolor targets on every row, the two 16-colour
    # searches (first-minimum tie-break) on one row in eight, staggered so every red and green value occurs
    rec["ref"] = ALLSYS if (R + G) % 8 == 0 else ["eight", "truecolor"]
    implied = [dict(kind="rgb", n=ABSENT, r=R, g=G, b=b) for b in range(256)]
    actual = [intended(s) if isinstance(c, Exception) else proj_colour(colour_key(c)) for s, c in zip(specs, pts)]
    if actual == implied:       # the constructor built exactly rgb(R,G,b): the slice can be implicit
        rec["row"], rec["pts"] = [R, G], []
    else:                       # otherwise hand TLC what was really built
        rec["row"], rec["pts"] = [], actual
    return rec


def _w_list(specs):
    return list_record(specs)


def _w_red(R):
    return [row_record(R, G) for G in range(256)]


def palettes():
    from rich import _palettes
    out = {}
    for k, name in (("std", "STANDARD_PALETTE"), ("win", "WINDOWS_PALETTE"), ("eight", "EIGHT_BIT_PALETTE")):
        out[k] = [[int(x) for x in col] for col in getattr(_palettes, name)._colors]
    return out


# ---- input strata ------------------------------------------------------------------------------
def quick_points(chk, pal):
    from rich.terminal_theme import DEFAULT_TERMINAL_THEME
    strata = {}
    lat = list(range(0, 256, 16)) + [255]
    strata["lattice17"] = [("rgb", r, g, b) for r in lat for g in lat for b in lat]
    near = set()
    entries = pal["std"] + pal["win"] + pal["eight"] + [list(c) for c in DEFAULT_TERMINAL_THEME.ansi_colors._colors]
    for (r, g, b) in entries:
        for dr in range(-2, 3):
            for dg in range(-2, 3):
                for db in range(-2, 3):
                    p = (r + dr, g + dg, b + db)
                    if all(0 <= x <= 255 for x in p):
                        near.add(("rgb",) + p)
    strata["palette+-2"] = sorted(near)
    strata["grey-axis"] = [("rgb", v, v, v) for v in range(256)]
    # saturation-threshold surface s = 0.1 of rgb_to_hls: 10*(M-m) = den (den = M+m or 510-M-m); +-2 steps of m
    surf = set()
    for M in range(256):
        for m in range(M + 1):
            S = M + m
            den = S if S <= 255 else 510 - S
            if abs(10 * (M - m) - den) <= 24:
                for mid in {m, (M + m) // 2, M}:
                    for perm in ((M, mid, m), (M, m, mid), (mid, M, m), (m, M, mid), (mid, m, M), (m, mid, M)):
                        surf.add(("rgb",) + perm)
    strata["saturation-surface"] = sorted(surf)
    rng = chk.rng
    strata["random"] = [("rgb", rng.randrange(256), rng.randrange(256), rng.randrange(256)) for _ in range(20000)]
    strata["indexed+default"] = [("idx", n) for n in range(256)] + [("default",)] + \
        [("name", "color(%d)" % n) for n in (0, 7, 8, 15, 16, 231, 232, 255)] + \
        [("name", s) for s in ("default", "red", "bright_white", "grey0", "grey93", "#000000", "#ffffff", "rgb(1,2,3)")]
    return strata


def child_cpu():
    r = resource.getrusage(resource.RUSAGE_CHILDREN)
    return r.ru_utime + r.ru_stime


class Counted:
    """de-duplicated case set that can also absorb structurally distinct bulk cases by count
    (the 16.7M-colour cube cannot be held as a Python set)."""

    def __init__(self):
        self.keys, self.bulk = set(), 0

    def add(self, k):
        self.keys.add(k)

    def __len__(self):
        return len(self.keys) + self.bulk


_COL = r"rgb\(\d+,\d+,\d+\)|default|standard\(-?\d+\)|eight\(-?\d+\)|windows\(-?\d+\)"
_VERD = re.compile(r"^(?P<col>%s)>(?P<sys>[\w-]+):(?P<clause>[\w-]+)$" % _COL)
_DRIFT = re.compile(r"^drift:(?P<col>%s)>(?P<sys>\w+)=(?P<got>%s)$" % (_COL, _COL))


def spec_of(colstr):
    m = re.match(r"rgb\((\d+),(\d+),(\d+)\)", colstr)
    if m:
        return ["rgb", int(m.group(1)), int(m.group(2)), int(m.group(3))]
    m = re.match(r"(standard|eight)\((-?\d+)\)", colstr)
    if m:
        return ["idx", int(m.group(2))]
    return ["default"]


def describe(src):
    """what the real code returned for one source (for the human-readable detail of a rejection)."""
    from rich.color import ColorSystem
    out = {}
    try:
        c = make_source(tuple(src))
        out["source"] = repr(c)
        for name, attr in SYSTEMS:
            try:
                r1 = c.downgrade(getattr(ColorSystem, attr))
                out[name] = dict(first=repr(r1), second=repr(r1.downgrade(getattr(ColorSystem, attr))),
                                 fg=list(r1.get_ansi_codes(foreground=True)), bg=list(r1.get_ansi_codes(foreground=False)))
            except Exception as ex:
                out[name] = "raised " + type(ex).__name__
    except Exception as ex:
        out["source"] = "raised " + type(ex).__name__
    return out


def judge(chk, recs, pal, label):
    verdicts, st = tlc.judge("Trace_Color", recs, extra_json=pal, chunk_min=8, timeout=7200)
    chk.add_tlc(st, label)
    nbad = 0
    for rec, v in zip(recs, verdicts):
        if v == "ok":
            continue
        if v in ("no-verdict", "malformed-record"):
            raise tlc.TLCFailure("Trace_Color gave %r for a record (row=%s n=%s)" % (v, rec["row"], rec["n"]))
        m = _DRIFT.match(v)
        if m:
            chk.drift_note("Color.downgrade differs from the transcription RefDowngradeSet (all property clauses hold): "
                           "%s -> %s gave %s" % (m.group("col"), m.group("sys"), m.group("got")))
            continue
        m = _VERD.match(v)
        if not m:
            raise tlc.TLCFailure("unparsable verdict %r" % v)
        src = spec_of(m.group("col"))
        kind = m.group("col").split("(")[0]
        sig = "%s sys=%s src=%s" % (m.group("clause"), m.group("sys"), kind)
        nbad += 1
        if len(chk.violations) < 2000:
            chk.reject(sig, dict(verdict=v, observed=describe(src)), dict(points=[src]))
    return st, nbad


def run(chk: Check):
    pal = palettes()
    digest = hashlib.sha1(json.dumps(pal, sort_keys=True).encode()).hexdigest()
    chk.notes["palettes_sha1"] = digest
    if digest != PINNED_PALETTES:
        chk.drift_note("rich/_palettes.py differs from the pinned 9.10.0 palettes (sha1 %s); the property is judged on the palettes of the tree under test" % digest)
    chk.distinct = Counted()
    chk.rule = ("a case is one (source colour, target system) pair judged by TLC; non-trivial = the source is not "
                "already representable in the target (rgb -> standard/windows/256, 8-bit -> standard/windows), i.e. a "
                "palette search or the HLS/cube/grey-ramp computation really runs; the SGR parameters of every source "
                "colour and of every distinct result (fg and bg) are judged as well")
    chk.trusted = ["drivers/c18.py:colour_key/proj_colour (Color -> kind/number/r,g,b; None -> -1)",
                   "drivers/c18.py:proj_codes (decimal strings -> ints)",
                   "drivers/c18.py:observe/runs (dictionary + delta-run grouping of equal observations; `is` identity test)",
                   "drivers/c18.py:palettes (reads rich/_palettes.py of the tree under test)"]
    chk.assumptions = ["source colours are built with Color.from_rgb / from_ansi / parse / default (numbers < 16 are STANDARD type); "
                       "windows-typed colours occur only as results",
                       "the metric is the integer radicand of palette.py (floor shifts included); sqrt only orders it"]
    ctx = multiprocessing.get_context("fork")

    if chk.replay_only:
        specs = [tuple(s) for s in chk.replay_only["case"]["points"]]
        recs = [list_record(specs)]
        account(chk, recs)
        judge(chk, recs, pal, "M4-replay")
        return

    # ---- M1: the transcription satisfies the relation on a lattice ----------------------------
    os.makedirs(os.path.join(tlc.VERIF, ".work"), exist_ok=True)
    ppath = os.path.join(tlc.VERIF, ".work", "c18-palettes-%d.json" % os.getpid())
    with open(ppath, "w") as f:
        json.dump(dict(pal, recs=[]), f)
    try:
        acts = ["Keep", "Grey", "Cube", "Tie", "MatchStd", "MatchWin", "WinIndex"]
        r, cov, missing = tlc.model_check("MC_Color", env={"TRACE_FILE": ppath}, require_actions=acts)
    finally:
        os.unlink(ppath)
    chk.add_tlc(r, "M1")
    if r.violated or missing or not r.finished:
        raise tlc.TLCFailure("MC_Color: violated=%s never-fired=%s\n%s" % (r.violated, missing, r.out[-3000:]))
    chk.notes["m1_action_coverage"] = {k: v[1] for k, v in cov.items()}
    chk.notes["m1_wall_s"] = round(r.wall, 1)

    # ---- M4 quick strata (both tiers) ---------------------------------------------------------
    strata = quick_points(chk, pal)
    seen, specs = set(), []
    for name, pts in strata.items():
        for s in pts:
            if s not in seen:
                seen.add(s)
                specs.append(s)
    chk.notes["strata"] = {k: len(v) for k, v in strata.items()}
    chk.notes["quick_points_distinct"] = len(specs)
    specs.sort(key=lambda t: (t[0],) + tuple(t[1:]))      # neighbours become adjacent: longer runs, smaller batches
    groups = [specs[i:i + 512] for i in range(0, len(specs), 512)]
    t0 = time.time()
    with ctx.Pool(min(16, os.cpu_count() or 4)) as pool:
        recs = pool.map(_w_list, groups, chunksize=1)
    chk.notes["quick_python_s"] = round(time.time() - t0, 1)
    account(chk, recs)
    st, nbad = judge(chk, recs, pal, "M4-strata")
    chk.notes["quick_tlc_s"] = round(st["wall"], 1)
    for sp in (("rgb", 132, 115, 140), ("rgb", 255, 85, 86), ("idx", 9), ("idx", 202), ("default",)):
        chk.sample(dict(input=list(sp), real_calls=describe(sp)))
    chk.sample(dict(slice_record_as_sent_to_TLC="row rgb(16,32,0..255)", record=compact(row_record(16, 32))))
    if not chk.thorough:
        chk.notes["bounds"] = ("quick: %d distinct source colours (17^3 lattice, +-2 around every palette entry, grey axis, "
                               "saturation-threshold surface, 20000 random, 256 indexed, default, named) x 4 targets x fg/bg" % len(specs))
        return
    if nbad:
        chk.notes["bounds"] = "thorough sweep skipped: the quick strata already produced rejections"
        return

    # ---- M4 thorough: the whole cube, one record per (red, green) row of 256 colours ----------
    waves = [list(range(i, i + 32)) for i in range(0, 256, 32)]
    tp = tt = cp = ct = 0.0
    rows = 0
    for wave in waves:
        t0, c0 = time.time(), child_cpu()
        with ctx.Pool(min(16, os.cpu_count() or 4)) as pool:
            recs = [rec for lst in pool.map(_w_red, wave, chunksize=1) for rec in lst]
        tp += time.time() - t0
        cp += child_cpu() - c0
        account(chk, recs, bulk=True)
        c0 = child_cpu()
        st, nbad = judge(chk, recs, pal, "M4-cube")
        tt += st["wall"]
        ct += child_cpu() - c0
        rows += len(recs)
        print("C18 cube: red %d..%d done, %d rows, python %.0fs tlc %.0fs" % (wave[0], wave[-1], rows, tp, tt), file=sys.stderr)
        if nbad:
            break
    chk.notes["cube_python_s"] = round(tp, 1)
    chk.notes["cube_tlc_s"] = round(tt, 1)
    chk.notes["cube_python_cpu_s"] = round(cp, 1)     # summed over worker processes (wall on idle 16 cores ~ cpu/16)
    chk.notes["cube_tlc_cpu_s"] = round(ct, 1)
    chk.notes["cube_rows"] = rows
    complete = rows == 65536 and not nbad
    chk.exhaustive = bool(complete)
    chk.notes["bounds"] = ("thorough: all %d rows (red, green) x 256 blue = %d RGB colours, plus the 256 indexed colours and default, "
                           "x {standard, 256, truecolor, windows} x first+second downgrade x fg/bg SGR parameters of source and result"
                           % (rows, rows * 256))


def account(chk, recs, bulk=False):
    """evaluations / distinct non-trivial cases / executions judged, from the records themselves."""
    for rec in recs:
        n = rec["n"]
        chk.traces += 4 * n                     # first downgrade calls judged (each with its second call)
        chk.evaluations += 4 * n + 2 * n        # DownOK evaluations + fg/bg parameter lists of the sources
        if rec["row"]:
            chk.distinct.bulk += 3 * n          # rgb -> standard / windows / 256; rows never repeat
        else:
            for p in rec["pts"]:
                if p["kind"] == "rgb":
                    for s in ("standard", "windows", "eight"):
                        chk.distinct.add(("rgb", p["r"], p["g"], p["b"], s))
                elif p["kind"] == "eight":
                    for s in ("standard", "windows"):
                        chk.distinct.add(("eight", p["n"], s))


def compact(rec):
    return dict(row=rec["row"], n=rec["n"], tab=rec["tab"][:4], cols=rec["cols"], sf=rec["sf"])
